//go:build verif

// Injected into package server by `go build -overlay` (never committed to /repo).
// Own copy of harness/store/zz_verif_store.go extended for property C07 (dataset create / delete / rename /
// re-create / garbage collection / restart / crash points inside the dataset manager, raw key census).
package server

import (
	"bytes"
	"encoding/binary"
	"encoding/json"
	"fmt"
	"os"
	"sort"
	"strings"
	"time"

	"github.com/DataDog/datadog-go/v5/statsd"
	"go.uber.org/zap"

	"github.com/dgraph-io/badger/v4"

	"github.com/mimiro-io/datahub/internal/conf"
	"github.com/mimiro-io/datahub/internal/verifhook"
)

type VerifEnt struct {
	ID      string                 `json:"id"`
	Deleted bool                   `json:"deleted,omitempty"`
	Props   map[string]interface{} `json:"props"`
	Refs    map[string]interface{} `json:"refs"`
}

type VerifSet struct {
	Ds   string     `json:"ds"`
	Ents []VerifEnt `json:"ents"`
}

type VerifTimeRef struct {
	AfterOp int  `json:"after_op"` // index of a write op of this history
	Exact   bool `json:"exact"`    // exactly the commit time of that op (if it stored anything), else an instant after it
}

type VerifOp struct {
	Op       string        `json:"op"` // batch | txn | changes | entities | get | related | create | restart
	Ds       string        `json:"ds,omitempty"`
	Ents     []VerifEnt    `json:"ents,omitempty"`
	Sets     []VerifSet    `json:"sets,omitempty"`
	Since    int64         `json:"since,omitempty"`
	Reader   string        `json:"reader,omitempty"` // token-carrying reader: since is taken from its last token
	Limit    int           `json:"limit,omitempty"`
	Limits   []int         `json:"limits,omitempty"` // entities/related: limit per page, last one repeated
	Latest   bool          `json:"latest,omitempty"`
	Reverse  bool          `json:"reverse,omitempty"`
	ID       string        `json:"id,omitempty"`
	Datasets []string      `json:"datasets,omitempty"`
	Merge    bool          `json:"merge,omitempty"`
	Pred     string        `json:"pred,omitempty"`
	Inverse  bool          `json:"inverse,omitempty"`
	Starts   []string      `json:"starts,omitempty"`
	At       *VerifTimeRef `json:"at,omitempty"`
	To       string        `json:"to,omitempty"`    // rename: new name
	Mop      string        `json:"mop,omitempty"`   // crash: create | delete | rename
	Point    string        `json:"point,omitempty"` // crash: hook point name, e.g. delete.afterRecord
	Public   bool          `json:"public,omitempty"` // create / crash create: dataset with publicNamespaces
	Slot     string        `json:"slot,omitempty"`   // hold / stale: dataset handle; keep / cont: continuation
	Method   string        `json:"method,omitempty"` // http: DELETE | POST | PATCH on /datasets/<seg>
	Seg      string        `json:"seg,omitempty"`    // http: the path segment as the client sends it (escaped)
	Ctx      bool          `json:"ctx,omitempty"`    // get / related / keep: read through a contextual store (what a transform's FindById / Query use)
	Kind     string        `json:"kind,omitempty"`   // create / crash create: "" | proxy | virtual (remote / transform are never contacted)
}

type VerifCase struct {
	Datasets []string  `json:"datasets"`
	Ops      []VerifOp `json:"ops"`
}

type VerifOut struct {
	Ent *VerifEnt `json:"ent,omitempty"`
}

type VerifRel struct {
	Start string `json:"start"`
	Pred  string `json:"pred"`
	ID    string `json:"id"`
}

type VerifOpObs struct {
	Err     string       `json:"err,omitempty"`
	Panic   string       `json:"panic,omitempty"`
	Lens    []int        `json:"lens,omitempty"`  // batch/txn: serialized length of each posted entity (internalId, recorded zeroed)
	Time    int64        `json:"time,omitempty"`  // batch/txn: commit time (recorded) if anything was stored
	Ents    []VerifEnt   `json:"ents,omitempty"`  // changes / get
	Next    int64        `json:"next,omitempty"`  // changes: next token
	Pages   [][]VerifEnt `json:"pages,omitempty"` // entities
	RPages  [][]VerifRel `json:"rpages,omitempty"`
	Found   bool         `json:"found,omitempty"`
	NewSeqs int          `json:"newseqs,omitempty"`
	Names   []string     `json:"names,omitempty"`  // names / metas
	Ids     []int        `json:"ids,omitempty"`    // names: internal dataset id of each name (same order)
	HasCont bool         `json:"hascont,omitempty"` // keep: the first page came with a continuation
	Status  int          `json:"status,omitempty"`  // http: status code
	Sub     []VerifOpObs `json:"sub,omitempty"`     // race: what the other client's create and write returned
	Hit     bool         `json:"hit,omitempty"`    // crash: the hook point was reached (the op died there)
	Before  [][]int      `json:"before,omitempty"` // gc / census: [family, dataset id, number of keys], sorted
	After   [][]int      `json:"after,omitempty"`  // gc
	BadKeys int          `json:"badkeys,omitempty"` // census: keys of a data family whose length does not fit the layout
}

type VerifObs struct {
	Outcome string            `json:"outcome"`
	Detail  string            `json:"detail,omitempty"`
	Ops     []VerifOpObs      `json:"ops"`
	Ns      map[string]string `json:"ns"`
}

func verifPayload(ents []VerifEnt) []byte {
	var b bytes.Buffer
	b.WriteString(`[{"id":"@context","namespaces":{"_":"http://v/"}}`)
	for _, e := range ents {
		if e.Props == nil {
			e.Props = map[string]interface{}{}
		}
		if e.Refs == nil {
			e.Refs = map[string]interface{}{}
		}
		j, _ := json.Marshal(e)
		b.WriteString(",")
		b.Write(j)
	}
	b.WriteString("]")
	return b.Bytes()
}

func verifParse(store *Store, ents []VerifEnt) ([]*Entity, error) {
	esp := NewEntityStreamParser(store)
	res := make([]*Entity, 0)
	err := esp.ParseStream(bytes.NewReader(verifPayload(ents)), func(e *Entity) error {
		res = append(res, e)
		return nil
	})
	return res, err
}

func verifLen(e *Entity) int {
	c := *e
	c.InternalID = 0
	c.Recorded = 0
	j, _ := json.Marshal(&c)
	return len(j)
}

func verifOutEnt(e *Entity) VerifEnt {
	// round trip through JSON so that nested entities etc. come out as plain maps
	j, _ := json.Marshal(e)
	var m struct {
		ID      string                 `json:"id"`
		Deleted bool                   `json:"deleted"`
		Props   map[string]interface{} `json:"props"`
		Refs    map[string]interface{} `json:"refs"`
	}
	_ = json.Unmarshal(j, &m)
	return VerifEnt{ID: m.ID, Deleted: m.Deleted, Props: m.Props, Refs: m.Refs}
}

type verifHub struct {
	dir   string
	store *Store
	dsm   *DsManager
	held  map[string]*Dataset       // dataset handles obtained earlier (die with the process)
	conts map[string][]*RelatedFrom // continuations of paged queries (plain data: survive a restart)
}

// VerifC07HTTP is set by the driver's main to the shim in package web (dataset handlers behind an echo router)
var VerifC07HTTP func(store *Store, dsm *DsManager, method, path, body string) (int, string)

func verifCreateCfg(public bool, kind string) *CreateDatasetConfig {
	if !public && kind == "" {
		return nil
	}
	cfg := &CreateDatasetConfig{}
	if public {
		cfg.PublicNamespaces = []string{"http://v/"}
	}
	switch kind {
	case "proxy":
		cfg.ProxyDatasetConfig = &ProxyDatasetConfig{RemoteURL: "http://127.0.0.1:1/datasets/none"}
	case "virtual":
		cfg.VirtualDatasetConfig = &VirtualDatasetConfig{Transform: "ZnVuY3Rpb24gdCgpe30="}
	}
	return cfg
}

func (h *verifHub) open() {
	cfg := &conf.Config{Logger: zap.NewNop().Sugar(), StoreLocation: h.dir}
	h.store = NewStore(cfg, &statsd.NoOpClient{})
	h.dsm = NewDsManager(cfg, h.store, NoOpBus())
}

func (h *verifHub) close() {
	if h.store != nil {
		_ = h.store.Close()
		h.store = nil
	}
}

// VerifC07Run executes one history on a fresh store under dir.
func VerifC07Run(c VerifCase, dir string) (obs VerifObs) {
	_ = os.MkdirAll(dir, 0o755)
	defer os.RemoveAll(dir)
	h := &verifHub{dir: dir, held: map[string]*Dataset{}, conts: map[string][]*RelatedFrom{}}
	h.open()
	defer h.close()
	obs.Outcome = "ok"
	obs.Ops = make([]VerifOpObs, 0, len(c.Ops))
	for _, d := range c.Datasets {
		if _, err := h.dsm.CreateDataset(d, nil); err != nil {
			obs.Outcome = "setup-error"
			obs.Detail = err.Error()
			return
		}
	}
	times := make(map[int]int64)
	tokens := make(map[string]int64)
	for i, op := range c.Ops {
		oo := verifDoOp(h, op, i, times, tokens)
		obs.Ops = append(obs.Ops, oo)
	}
	obs.Ns = h.store.NamespaceManager.GetPrefixToExpansionMap()
	cp := make(map[string]string)
	for k, v := range obs.Ns {
		cp[k] = v
	}
	obs.Ns = cp
	return
}

func verifAt(op VerifOp, times map[int]int64) (int64, bool) {
	if op.At == nil {
		return 0, false
	}
	if op.At.Exact {
		if t, ok := times[-1-op.At.AfterOp]; ok && t > 0 {
			return t, true
		}
	}
	return times[op.At.AfterOp], true
}

// record the instants of write op idx: times[idx] = an instant after it, times[-1-idx] = its commit time (0 if it stored nothing)
func verifStamp(idx int, times map[int]int64, last int64, prevAfter int64) {
	if last > prevAfter {
		times[-1-idx] = last
	} else {
		times[-1-idx] = 0
	}
	time.Sleep(time.Microsecond)
	times[idx] = time.Now().UnixNano()
	time.Sleep(time.Microsecond)
}

func verifLastTime(ds *Dataset) int64 {
	var t int64
	_, _ = ds.ProcessChanges(0, 0, false, func(e *Entity) {
		if int64(e.Recorded) > t {
			t = int64(e.Recorded)
		}
	})
	return t
}

func verifDoOp(h *verifHub, op VerifOp, idx int, times map[int]int64, tokens map[string]int64) (oo VerifOpObs) {
	defer func() {
		if r := recover(); r != nil {
			oo.Panic = fmt.Sprint(r)
		}
	}()
	store := h.store
	if op.Ctx {
		// Scheduler.parseTransform hands every transform its own server.NewContextualStore(store)
		store = NewContextualStore(h.store)
	}
	switch op.Op {
	case "create":
		if _, err := h.dsm.CreateDataset(op.Ds, verifCreateCfg(op.Public, op.Kind)); err != nil {
			oo.Err = err.Error()
		}
	case "restart":
		h.close()
		h.open()
		h.held = map[string]*Dataset{}
	case "http":
		// dataset management through the HTTP entry point: DELETE / POST / PATCH {"ID": to} on /datasets/<seg>
		body := ""
		if op.Method == "PATCH" {
			b, _ := json.Marshal(map[string]string{"ID": op.To})
			body = string(b)
		}
		st, pn := VerifC07HTTP(store, h.dsm, op.Method, "/datasets/"+op.Seg, body)
		oo.Status = st
		oo.Panic = pn
	case "race":
		// rename op.Ds -> op.To is held at its first wait for the dataset-manager lock; meanwhile another client creates
		// op.To and writes op.Ents to it; then the rename goes on
		fired := false
		verifhook.SetHandler(func(name, arg string) {
			if !fired && name == "lock.wait" && arg == "#dsm" {
				fired = true
				verifhook.SetHandler(nil)
				oo.Hit = true
				oo.Sub = append(oo.Sub, verifDoOp(h, VerifOp{Op: "create", Ds: op.To}, idx, times, tokens))
				oo.Sub = append(oo.Sub, verifDoOp(h, VerifOp{Op: "batch", Ds: op.To, Ents: op.Ents}, idx, times, tokens))
			}
		})
		func() {
			defer verifhook.SetHandler(nil)
			if _, err := h.dsm.UpdateDataset(op.Ds, &UpdateDatasetConfig{ID: op.To}); err != nil {
				oo.Err = err.Error()
			}
		}()
	case "hold":
		ds := h.dsm.GetDataset(op.Ds)
		if ds == nil {
			oo.Err = "no dataset"
			return
		}
		h.held[op.Slot] = ds
	case "stale":
		// a write through a handle obtained earlier (possibly before the dataset was deleted / collected)
		ds := h.held[op.Slot]
		if ds == nil {
			oo.Err = "no handle"
			return
		}
		ents, err := verifParse(store, op.Ents)
		if err != nil {
			oo.Err = "parse: " + err.Error()
			return
		}
		for _, e := range ents {
			oo.Lens = append(oo.Lens, verifLen(e))
		}
		if err := ds.StoreEntities(ents); err != nil {
			oo.Err = err.Error()
		}
		time.Sleep(time.Microsecond)
	case "keep":
		// first page of a paged relation query; the continuation is kept for a later "cont"
		froms, err := store.ToRelatedFrom(op.Starts, op.Pred, op.Inverse, op.Datasets, 1<<62)
		if err != nil {
			oo.Err = err.Error()
			return
		}
		for _, f := range froms {
			if f == nil {
				oo.Err = "unknown start"
				return
			}
		}
		res, err := store.GetManyRelatedEntitiesAtTime(froms, op.Limit, true)
		if err != nil {
			oo.Err = err.Error()
			return
		}
		page := []VerifRel{}
		for _, r := range res.Relations {
			id := ""
			if r.RelatedEntity != nil {
				id = r.RelatedEntity.ID
			}
			page = append(page, VerifRel{Start: r.StartURI, Pred: r.PredicateURI, ID: id})
		}
		oo.RPages = [][]VerifRel{page}
		h.conts[op.Slot] = res.Cont
		oo.HasCont = len(res.Cont) > 0
	case "cont":
		froms := h.conts[op.Slot]
		oo.RPages = [][]VerifRel{}
		for p := 0; p < 2000 && len(froms) > 0; p++ {
			res, err := store.GetManyRelatedEntitiesAtTime(froms, op.Limit, true)
			if err != nil {
				oo.Err = err.Error()
				return
			}
			page := []VerifRel{}
			for _, r := range res.Relations {
				id := ""
				if r.RelatedEntity != nil {
					id = r.RelatedEntity.ID
				}
				page = append(page, VerifRel{Start: r.StartURI, Pred: r.PredicateURI, ID: id})
			}
			oo.RPages = append(oo.RPages, page)
			if op.Limit <= 0 {
				break
			}
			froms = res.Cont
		}
	case "delete":
		if err := h.dsm.DeleteDataset(op.Ds); err != nil {
			oo.Err = err.Error()
		}
	case "rename":
		if _, err := h.dsm.UpdateDataset(op.Ds, &UpdateDatasetConfig{ID: op.To}); err != nil {
			oo.Err = err.Error()
		}
	case "gc":
		oo.Before, oo.BadKeys = verifCensus(store)
		gc := NewGarbageCollector(store, &conf.Config{Logger: zap.NewNop().Sugar(), StoreLocation: h.dir})
		if err := gc.Cleandeleted(); err != nil {
			oo.Err = err.Error()
		}
		oo.After, _ = verifCensus(store)
	case "census":
		oo.Before, oo.BadKeys = verifCensus(store)
	case "names":
		oo.Names = []string{}
		for _, n := range h.dsm.GetDatasetNames() {
			oo.Names = append(oo.Names, n.Name)
		}
		sort.Strings(oo.Names)
		for _, n := range oo.Names {
			if ds := h.dsm.GetDataset(n); ds != nil {
				oo.Ids = append(oo.Ids, int(ds.InternalID))
			} else {
				oo.Ids = append(oo.Ids, -1)
			}
		}
	case "metas":
		// names of the live (not deleted) dataset entities in core.Dataset
		oo.Names = []string{}
		core := h.dsm.GetDataset(datasetCore)
		if core == nil {
			oo.Err = "no core dataset"
			return
		}
		_, err := core.MapEntities("", 0, func(e *Entity) error {
			if !e.IsDeleted {
				parts := strings.SplitN(e.ID, ":", 2)
				if len(parts) == 2 {
					oo.Names = append(oo.Names, parts[1])
				}
			}
			return nil
		})
		if err != nil {
			oo.Err = err.Error()
		}
		sort.Strings(oo.Names)
	case "crash":
		// run the manager operation with a handler that dies at the named hook point, then "restart the process":
		// the store object is abandoned (closed) and reopened from disk.
		type died struct{}
		verifhook.SetHandler(func(name, arg string) {
			if name == op.Point {
				panic(died{})
			}
		})
		func() {
			defer func() {
				verifhook.SetHandler(nil)
				if r := recover(); r != nil {
					if _, ok := r.(died); ok {
						oo.Hit = true
					} else {
						oo.Panic = fmt.Sprint(r)
					}
				}
			}()
			var err error
			switch op.Mop {
			case "create":
				_, err = h.dsm.CreateDataset(op.Ds, verifCreateCfg(op.Public, op.Kind))
			case "delete":
				err = h.dsm.DeleteDataset(op.Ds)
			case "rename":
				_, err = h.dsm.UpdateDataset(op.Ds, &UpdateDatasetConfig{ID: op.To})
			default:
				err = fmt.Errorf("unknown mop %s", op.Mop)
			}
			if err != nil {
				oo.Err = err.Error()
			}
		}()
		h.close()
		h.open()
		h.held = map[string]*Dataset{}
	case "batch":
		ds := h.dsm.GetDataset(op.Ds)
		if ds == nil {
			oo.Err = "no dataset"
			return
		}
		ents, err := verifParse(store, op.Ents)
		if err != nil {
			oo.Err = "parse: " + err.Error()
			return
		}
		for _, e := range ents {
			oo.Lens = append(oo.Lens, verifLen(e))
		}
		before, _ := ds.GetChangesWatermark2()
		if err := ds.StoreEntities(ents); err != nil {
			oo.Err = err.Error()
		}
		after, _ := ds.GetChangesWatermark2()
		oo.NewSeqs = int(after - before)
		oo.Time = verifLastTime(ds)
		verifStamp(idx, times, oo.Time, times[1<<30])
		times[1<<30] = times[idx]
	case "txn":
		txn := &Transaction{DatasetEntities: make(map[string][]*Entity)}
		for _, s := range op.Sets {
			ents, err := verifParse(store, s.Ents)
			if err != nil {
				oo.Err = "parse: " + err.Error()
				return
			}
			for _, e := range ents {
				oo.Lens = append(oo.Lens, verifLen(e))
			}
			txn.DatasetEntities[s.Ds] = append(txn.DatasetEntities[s.Ds], ents...)
		}
		if err := store.ExecuteTransaction(txn); err != nil {
			oo.Err = err.Error()
		}
		var t int64
		for _, s := range op.Sets {
			if ds := h.dsm.GetDataset(s.Ds); ds != nil {
				if x := verifLastTime(ds); x > t {
					t = x
				}
			}
		}
		oo.Time = t
		verifStamp(idx, times, t, times[1<<30])
		times[1<<30] = times[idx]
	case "changes":
		ds := h.dsm.GetDataset(op.Ds)
		if ds == nil {
			oo.Err = "no dataset"
			return
		}
		since := op.Since
		if op.Reader != "" {
			since = tokens[op.Reader+"@"+op.Ds]
		}
		oo.Ents = []VerifEnt{}
		next, err := ds.ProcessChanges(uint64(since), op.Limit, op.Latest, func(e *Entity) {
			oo.Ents = append(oo.Ents, verifOutEnt(e))
		})
		if err != nil {
			oo.Err = err.Error()
			return
		}
		oo.Next = int64(next)
		if op.Reader != "" {
			tokens[op.Reader+"@"+op.Ds] = int64(next)
		}
	case "entities":
		ds := h.dsm.GetDataset(op.Ds)
		if ds == nil {
			oo.Err = "no dataset"
			return
		}
		oo.Pages = [][]VerifEnt{}
		from := ""
		for p := 0; p < 10000; p++ {
			lim := 0
			if len(op.Limits) > 0 {
				if p < len(op.Limits) {
					lim = op.Limits[p]
				} else {
					lim = op.Limits[len(op.Limits)-1]
				}
			}
			page := []VerifEnt{}
			tok, err := ds.MapEntities(from, lim, func(e *Entity) error {
				page = append(page, verifOutEnt(e))
				return nil
			})
			if err != nil {
				oo.Err = err.Error()
				return
			}
			oo.Pages = append(oo.Pages, page)
			if len(page) == 0 || lim <= 0 {
				break
			}
			from = tok
		}
	case "get":
		var e *Entity
		var err error
		if at, ok := verifAt(op, times); ok {
			rtxn := store.database.NewTransaction(false)
			curie, err2 := store.GetNamespacedIdentifierFromURI(op.ID)
			if err2 != nil {
				rtxn.Discard()
				oo.Err = err2.Error()
				return
			}
			rid, exists, _ := store.getIDForURI(rtxn, curie)
			rtxn.Discard()
			if !exists {
				return
			}
			e, err = store.GetEntityAtPointInTimeWithInternalID(rid, at, store.DatasetsToInternalIDs(op.Datasets), op.Merge)
		} else {
			e, err = store.GetEntity(op.ID, op.Datasets, op.Merge)
		}
		if err != nil {
			oo.Err = err.Error()
			return
		}
		if e != nil {
			oo.Found = true
			oo.Ents = []VerifEnt{verifOutEnt(e)}
		}
	case "related":
		at, hasAt := verifAt(op, times)
		oo.RPages = [][]VerifRel{}
		var froms []*RelatedFrom
		var err error
		qt := at
		if !hasAt {
			qt = 1 << 62
		}
		froms, err = store.ToRelatedFrom(op.Starts, op.Pred, op.Inverse, op.Datasets, qt)
		if err != nil {
			oo.Err = err.Error()
			return
		}
		for _, f := range froms {
			if f == nil {
				oo.Err = "unknown start"
				return
			}
		}
		for p := 0; p < 10000; p++ {
			lim := 0
			if len(op.Limits) > 0 {
				if p < len(op.Limits) {
					lim = op.Limits[p]
				} else {
					lim = op.Limits[len(op.Limits)-1]
				}
			}
			res, err := store.GetManyRelatedEntitiesAtTime(froms, lim, true)
			if err != nil {
				oo.Err = err.Error()
				return
			}
			page := []VerifRel{}
			for _, r := range res.Relations {
				id := ""
				if r.RelatedEntity != nil {
					id = r.RelatedEntity.ID
				}
				page = append(page, VerifRel{Start: r.StartURI, Pred: r.PredicateURI, ID: id})
			}
			oo.RPages = append(oo.RPages, page)
			if len(res.Cont) == 0 || lim <= 0 || p > 2000 {
				break
			}
			froms = res.Cont
		}
	default:
		oo.Err = "unknown op " + op.Op
	}
	return
}

// GetChangesWatermark2: number of change-log entries (robust on an empty dataset, unlike GetChangesWatermark)
func (ds *Dataset) GetChangesWatermark2() (uint64, error) {
	var n uint64
	_, err := ds.ProcessChangesRaw(0, 0, false, func(b []byte) error {
		n++
		return nil
	})
	return n, err
}

// verifCensus scans every raw key and counts the keys of the five data families per dataset id; the dataset id is
// decoded at the offset the garbage collector uses for that family.  Result rows [family, dataset id, count], sorted.
func verifCensus(store *Store) ([][]int, int) {
	counts := map[[2]int]int{}
	bad := 0
	_ = store.database.View(func(txn *badger.Txn) error {
		opts := badger.DefaultIteratorOptions
		opts.PrefetchValues = false
		it := txn.NewIterator(opts)
		defer it.Close()
		for it.Rewind(); it.Valid(); it.Next() {
			k := it.Item().Key()
			if len(k) < 2 {
				continue
			}
			fam := binary.BigEndian.Uint16(k)
			off, want := -1, 0
			switch fam {
			case EntityIDToJSONIndexID:
				off, want = 10, 24
			case DatasetEntityChangeLog:
				off, want = 2, 22
			case DatasetLatestEntities:
				off, want = 2, 14
			case OutgoingRefIndex, IncomingRefIndex:
				off, want = 36, 40
			case SysDatasetsSequences:
				off, want = 2, 6
			}
			if off < 0 {
				continue
			}
			if len(k) != want {
				bad++
				continue
			}
			ds := int(binary.BigEndian.Uint32(k[off:]))
			counts[[2]int{int(fam), ds}]++
		}
		return nil
	})
	rows := make([][]int, 0, len(counts))
	for k, v := range counts {
		rows = append(rows, []int{k[0], k[1], v})
	}
	sort.Slice(rows, func(i, j int) bool {
		if rows[i][0] != rows[j][0] {
			return rows[i][0] < rows[j][0]
		}
		return rows[i][1] < rows[j][1]
	})
	return rows, bad
}
