//go:build verif

// Injected into package web by `go build -overlay` (never committed to /repo): the real dataset management handlers
// (create / update = rename / delete) behind an echo router, for property C07.
package web

import (
	"fmt"
	"net/http/httptest"
	"strings"

	"github.com/labstack/echo/v4"

	"github.com/mimiro-io/datahub/internal/server"
)

// VerifC07HTTP serves one request; returns the status code and, if the handler panicked, the panic text.
func VerifC07HTTP(store *server.Store, dsm *server.DsManager, method, path, body string) (status int, pn string) {
	e := echo.New()
	e.HideBanner = true
	e.HidePort = true
	h := &datasetHandler{datasetManager: dsm, store: store, eventBus: server.NoOpBus(), tokenProviders: nil}
	e.POST("/datasets/:dataset", h.datasetCreate)
	e.PATCH("/datasets/:dataset", h.datasetUpdate)
	e.DELETE("/datasets/:dataset", h.deleteDatasetHandler)
	defer func() {
		if r := recover(); r != nil {
			pn = fmt.Sprint(r)
		}
	}()
	req := httptest.NewRequest(method, path, strings.NewReader(body))
	rec := httptest.NewRecorder()
	e.ServeHTTP(rec, req)
	return rec.Code, ""
}
