//go:build verif

// Injected into package server by `go build -overlay` (never committed to /repo).
// Driver for property C19 (dataset catalogue / core.Dataset / datasets agree): an interpreter for
// histories of manager operations (create / delete / rename / re-create / set public namespaces)
// and writes (batches, transactions), with snapshot observations of the catalogue, of the meta
// entities of core.Dataset (all versions, from its change feed) and of every dataset's own feed.
// Own copy of the write-path part of harness/store/zz_verif_store.go.
package server

import (
	"bytes"
	"encoding/json"
	"fmt"
	"os"
	"sort"
	"strings"
	"sync"
	"sync/atomic"
	"time"

	"github.com/DataDog/datadog-go/v5/statsd"
	"go.uber.org/zap"

	"github.com/mimiro-io/datahub/internal/conf"
	"github.com/mimiro-io/datahub/internal/verifhook"
)

type VerifEnt struct {
	ID      string                 `json:"id"`
	Deleted bool                   `json:"deleted,omitempty"`
	Props   map[string]interface{} `json:"props"`
	Refs    map[string]interface{} `json:"refs"`
	Bad     bool                   `json:"bad,omitempty"` // the driver adds a nil reference after parsing: the store rejects the batch
}

type VerifSet struct {
	Ds   string     `json:"ds"`
	Ents []VerifEnt `json:"ents"`
}

type VerifSettings struct {
	Proxy   string   `json:"proxy,omitempty"`   // remote url of a proxy dataset
	Virtual string   `json:"virtual,omitempty"` // transform of a virtual dataset
	PubNs   []string `json:"pubns,omitempty"`
}

type VerifOp struct {
	Op    string         `json:"op"` // batch | txn | create | delete | rename | setpubns | details | restart | concurrent_pair
	Ds    string         `json:"ds,omitempty"`
	To    string         `json:"to,omitempty"`
	Ents  []VerifEnt     `json:"ents,omitempty"`
	Sets  []VerifSet     `json:"sets,omitempty"`
	Set   *VerifSettings `json:"set,omitempty"`
	PubNs []string       `json:"pubns,omitempty"`
	Via   string         `json:"via,omitempty"` // setpubns: batch | txn
	Names []string       `json:"names,omitempty"`
	B     *VerifOp       `json:"b,omitempty"` // concurrent_pair: the second actor's operation
	Items []VerifPubItem `json:"items,omitempty"` // setpubnsm: meta entities posted back to core.Dataset in one batch
	At    string         `json:"at,omitempty"` // concurrent_pair: pause point of actor 1: "" = updateDataset.afterRead, "commit" = batch.beforeIdCommit
}

type VerifPubItem struct {
	Ds    string   `json:"ds"`
	PubNs []string `json:"pubns"`
}

type VerifCase struct {
	Datasets []string  `json:"datasets"`
	Names    []string  `json:"names"` // universe of dataset names reported by `details`
	Ops      []VerifOp `json:"ops"`
}

// one version of a meta entity as found in core.Dataset
type VerifMeta struct {
	ID      string   `json:"id"` // local part of the entity id
	Deleted bool     `json:"deleted"`
	Name    string   `json:"name"`
	Items   int64    `json:"items"` // -1: property absent, -2: not a number
	Kind    string   `json:"kind"`  // plain | proxy:<url> | virtual:<transform> | ?<type>
	PubNs   []string `json:"pubns"`
	HasPub  bool     `json:"haspub"`
}

type VerifDsObs struct {
	Name        string      `json:"name"`
	Exists      bool        `json:"exists"`
	RecKind     string      `json:"reckind,omitempty"`
	RecPubNs    []string    `json:"recpubns,omitempty"`
	Metas       []VerifMeta `json:"metas"`      // every version of the name's meta entity, in feed order
	Latest      []VerifMeta `json:"latest"`     // entities of core.Dataset's latest view whose id's local part is the name
	DetFound    bool        `json:"detfound"`   // GetDatasetDetails
	DetItems    int64       `json:"detitems"`   //   its items
	DetDeleted  bool        `json:"detdeleted"` //   its deleted flag
	DetName     string      `json:"detname"`    //   its name property
	DetID       string      `json:"detid"`      //   local part of its id
	Distinct    int         `json:"distinct"`   // distinct entity ids in the dataset's own change feed
	Changes     int         `json:"changes"`    // entries in the dataset's own change feed
	LatestCount int         `json:"latestcount"`
}

type VerifOpObs struct {
	Err      string       `json:"err,omitempty"`
	Panic    string       `json:"panic,omitempty"`
	Lens     []int        `json:"lens,omitempty"`
	NewSeqs  int          `json:"newseqs,omitempty"`
	List     []string     `json:"list,omitempty"` // details: GetDatasetNames, sorted
	Ds       []VerifDsObs `json:"ds,omitempty"`   // details
	Reached  bool         `json:"reached,omitempty"`
	BBlocked bool         `json:"bblocked,omitempty"`
	BErr     string       `json:"berr,omitempty"`
	BLens    []int        `json:"blens,omitempty"`
	Live     [][2]string  `json:"live,omitempty"` // details: (local id, name property) of every non-deleted entity of core.Dataset's latest view
}

type VerifObs struct {
	Outcome string            `json:"outcome"`
	Detail  string            `json:"detail,omitempty"`
	Ops     []VerifOpObs      `json:"ops"`
	Ns      map[string]string `json:"ns"`
}

func verifPayload(ents []VerifEnt) []byte {
	var b bytes.Buffer
	b.WriteString(`[{"id":"@context","namespaces":{"_":"http://v/"}}`)
	for _, e := range ents {
		if e.Props == nil {
			e.Props = map[string]interface{}{}
		}
		if e.Refs == nil {
			e.Refs = map[string]interface{}{}
		}
		e.Bad = false
		j, _ := json.Marshal(e)
		b.WriteString(",")
		b.Write(j)
	}
	b.WriteString("]")
	return b.Bytes()
}

func verifParse(store *Store, ents []VerifEnt) ([]*Entity, error) {
	esp := NewEntityStreamParser(store)
	res := make([]*Entity, 0)
	err := esp.ParseStream(bytes.NewReader(verifPayload(ents)), func(e *Entity) error {
		res = append(res, e)
		return nil
	})
	if err == nil && len(res) == len(ents) {
		for i := range ents {
			if ents[i].Bad {
				res[i].References["ns0:verifbad"] = nil
			}
		}
	}
	return res, err
}

func verifLen(e *Entity) int {
	c := *e
	c.InternalID = 0
	c.Recorded = 0
	j, _ := json.Marshal(&c)
	return len(j)
}

type verifHub struct {
	dir   string
	store *Store
	dsm   *DsManager
}

func (h *verifHub) open() {
	cfg := &conf.Config{Logger: zap.NewNop().Sugar(), StoreLocation: h.dir}
	h.store = NewStore(cfg, &statsd.NoOpClient{})
	h.dsm = NewDsManager(cfg, h.store, NoOpBus())
}

func (h *verifHub) close() {
	if h.store != nil {
		_ = h.store.Close()
		h.store = nil
	}
}

func verifConfig(s *VerifSettings) *CreateDatasetConfig {
	if s == nil {
		return nil
	}
	c := &CreateDatasetConfig{PublicNamespaces: s.PubNs}
	if s.Proxy != "" {
		c.ProxyDatasetConfig = &ProxyDatasetConfig{RemoteURL: s.Proxy, AuthProviderName: "ap", TimeoutSeconds: 7}
	}
	if s.Virtual != "" {
		c.VirtualDatasetConfig = &VirtualDatasetConfig{Transform: s.Virtual}
	}
	return c
}

// VerifC19Run executes one history on a fresh store under dir.
func VerifC19Run(c VerifCase, dir string) (obs VerifObs) {
	_ = os.MkdirAll(dir, 0o755)
	defer os.RemoveAll(dir)
	h := &verifHub{dir: dir}
	h.open()
	defer h.close()
	defer verifhook.SetHandler(nil)
	obs.Outcome = "ok"
	obs.Ops = make([]VerifOpObs, 0, len(c.Ops))
	for _, d := range c.Datasets {
		if _, err := h.dsm.CreateDataset(d, nil); err != nil {
			obs.Outcome = "setup-error"
			obs.Detail = err.Error()
			return
		}
	}
	for _, op := range c.Ops {
		oo := verifDoOp(h, c, op)
		obs.Ops = append(obs.Ops, oo)
	}
	cp := make(map[string]string)
	for k, v := range h.store.NamespaceManager.GetPrefixToExpansionMap() {
		cp[k] = v
	}
	obs.Ns = cp
	return
}

func verifLocal(id string) string {
	parts := strings.SplitN(id, ":", 2)
	if len(parts) == 2 {
		return parts[1]
	}
	return id
}

func verifStrings(v interface{}) ([]string, bool) {
	switch x := v.(type) {
	case []string:
		return append([]string{}, x...), true
	case []interface{}:
		out := make([]string, 0, len(x))
		for _, y := range x {
			out = append(out, fmt.Sprint(y))
		}
		return out, true
	}
	return nil, false
}

func verifMetaOf(store *Store, e *Entity) VerifMeta {
	dsInfo, _ := store.NamespaceManager.GetDatasetNamespaceInfo()
	p := dsInfo.DatasetPrefix
	m := VerifMeta{ID: verifLocal(e.ID), Deleted: e.IsDeleted, Items: -1, PubNs: []string{}}
	if v, ok := e.Properties[dsInfo.NameKey]; ok {
		m.Name = fmt.Sprint(v)
	}
	if v, ok := e.Properties[dsInfo.ItemsKey]; ok {
		switch x := v.(type) {
		case float64:
			m.Items = int64(x)
		case int64:
			m.Items = x
		case int:
			m.Items = int64(x)
		default:
			m.Items = -2
		}
	}
	if v, ok := e.Properties[dsInfo.PublicNamespacesKey]; ok {
		m.HasPub = true
		if l, ok2 := verifStrings(v); ok2 {
			m.PubNs = l
		}
	}
	typ := ""
	for k, v := range e.References {
		if strings.HasSuffix(k, ":type") {
			typ = verifLocal(fmt.Sprint(v))
		}
	}
	switch typ {
	case "dataset":
		m.Kind = "plain"
	case "proxy-dataset":
		m.Kind = "proxy:" + fmt.Sprint(e.Properties[p+":remoteUrl"])
	case "virtual-dataset":
		m.Kind = "virtual:" + fmt.Sprint(e.Properties[p+":transform"])
	default:
		m.Kind = "?" + typ
	}
	return m
}

func verifRecKind(ds *Dataset) string {
	if ds.ProxyConfig != nil && ds.ProxyConfig.RemoteURL != "" {
		return "proxy:" + ds.ProxyConfig.RemoteURL
	}
	if ds.VirtualDatasetConfig != nil && ds.VirtualDatasetConfig.Transform != "" {
		return "virtual:" + ds.VirtualDatasetConfig.Transform
	}
	return "plain"
}

func verifDetails(h *verifHub, names []string) (oo VerifOpObs) {
	oo.List = []string{}
	for _, n := range h.dsm.GetDatasetNames() {
		oo.List = append(oo.List, n.Name)
	}
	sort.Strings(oo.List)
	core := h.dsm.GetDataset(datasetCore)
	feed := make([]*Entity, 0)
	if _, err := core.ProcessChanges(0, 0, false, func(e *Entity) { feed = append(feed, e) }); err != nil {
		oo.Err = "core changes: " + err.Error()
		return
	}
	latest := make([]*Entity, 0)
	if _, err := core.MapEntities("", 0, func(e *Entity) error { latest = append(latest, e); return nil }); err != nil {
		oo.Err = "core entities: " + err.Error()
		return
	}
	oo.Live = [][2]string{}
	for _, e := range latest {
		if !e.IsDeleted {
			m := verifMetaOf(h.store, e)
			oo.Live = append(oo.Live, [2]string{m.ID, m.Name})
		}
	}
	for _, n := range names {
		d := VerifDsObs{Name: n, Metas: []VerifMeta{}, Latest: []VerifMeta{}}
		for _, e := range feed {
			if verifLocal(e.ID) == n {
				d.Metas = append(d.Metas, verifMetaOf(h.store, e))
			}
		}
		for _, e := range latest {
			if verifLocal(e.ID) == n {
				d.Latest = append(d.Latest, verifMetaOf(h.store, e))
			}
		}
		ent, found, err := h.dsm.GetDatasetDetails(n)
		if err != nil {
			oo.Err = "details: " + err.Error()
		}
		d.DetFound = found
		if found && ent != nil {
			m := verifMetaOf(h.store, ent)
			d.DetItems = m.Items
			d.DetDeleted = m.Deleted
			d.DetName = m.Name
			d.DetID = m.ID
		}
		if ds := h.dsm.GetDataset(n); ds != nil {
			d.Exists = true
			d.RecKind = verifRecKind(ds)
			d.RecPubNs = append([]string{}, ds.PublicNamespaces...)
			ids := make(map[string]bool)
			_, _ = ds.ProcessChanges(0, 0, false, func(e *Entity) {
				ids[e.ID] = true
				d.Changes++
			})
			d.Distinct = len(ids)
			_, _ = ds.MapEntities("", 0, func(e *Entity) error { d.LatestCount++; return nil })
		}
		oo.Ds = append(oo.Ds, d)
	}
	return
}

func verifSetPubNs(h *verifHub, name string, pubns []string, via string) error {
	dsInfo, err := h.store.NamespaceManager.GetDatasetNamespaceInfo()
	if err != nil {
		return err
	}
	e, err := h.store.GetEntity(dsInfo.DatasetPrefix+":"+name, []string{datasetCore}, true)
	if err != nil {
		return err
	}
	if e == nil {
		return fmt.Errorf("no meta entity")
	}
	if len(pubns) == 0 {
		delete(e.Properties, dsInfo.PublicNamespacesKey)
	} else {
		l := make([]interface{}, 0, len(pubns))
		for _, s := range pubns {
			l = append(l, s)
		}
		e.Properties[dsInfo.PublicNamespacesKey] = l
	}
	if via == "txn" {
		return h.store.ExecuteTransaction(&Transaction{DatasetEntities: map[string][]*Entity{datasetCore: {e}}})
	}
	return h.dsm.GetDataset(datasetCore).StoreEntities([]*Entity{e})
}

// verifSetPubNsM: what an operator does who reads core.Dataset's latest view, edits publicNamespaces of several
// entries (live datasets or tombstones of deleted ones) and posts them back in one batch, in the given order.
func verifSetPubNsM(h *verifHub, items []VerifPubItem) error {
	dsInfo, err := h.store.NamespaceManager.GetDatasetNamespaceInfo()
	if err != nil {
		return err
	}
	core := h.dsm.GetDataset(datasetCore)
	page := make(map[string]*Entity)
	if _, err := core.MapEntities("", 0, func(e *Entity) error { page[verifLocal(e.ID)] = e; return nil }); err != nil {
		return err
	}
	batch := make([]*Entity, 0, len(items))
	for _, it := range items {
		e, ok := page[it.Ds]
		if !ok {
			continue // never had a meta entity
		}
		if len(it.PubNs) == 0 {
			delete(e.Properties, dsInfo.PublicNamespacesKey)
		} else {
			l := make([]interface{}, 0, len(it.PubNs))
			for _, s := range it.PubNs {
				l = append(l, s)
			}
			e.Properties[dsInfo.PublicNamespacesKey] = l
		}
		batch = append(batch, e)
	}
	return core.StoreEntities(batch)
}

func verifDoOp(h *verifHub, c VerifCase, op VerifOp) (oo VerifOpObs) {
	defer func() {
		if r := recover(); r != nil {
			oo.Panic = fmt.Sprint(r)
		}
	}()
	store := h.store
	switch op.Op {
	case "create":
		if h.dsm.IsDataset(op.Ds) { // the HTTP handler refuses an existing name; CreateDataset itself returns the existing one
			oo.Err = "exists"
			return
		}
		if _, err := h.dsm.CreateDataset(op.Ds, verifConfig(op.Set)); err != nil {
			oo.Err = err.Error()
		}
	case "delete":
		if err := h.dsm.DeleteDataset(op.Ds); err != nil {
			oo.Err = err.Error()
		}
	case "rename":
		if !h.dsm.IsDataset(op.Ds) {
			oo.Err = "no dataset"
			return
		}
		if _, err := h.dsm.UpdateDataset(op.Ds, &UpdateDatasetConfig{ID: op.To}); err != nil {
			oo.Err = err.Error()
		}
	case "setpubns":
		if !h.dsm.IsDataset(op.Ds) {
			oo.Err = "no dataset"
			return
		}
		if err := verifSetPubNs(h, op.Ds, op.PubNs, op.Via); err != nil {
			oo.Err = err.Error()
		}
	case "setpubnsm":
		if err := verifSetPubNsM(h, op.Items); err != nil {
			oo.Err = err.Error()
		}
	case "restart":
		h.close()
		h.open()
	case "details":
		names := op.Names
		if len(names) == 0 {
			names = c.Names
		}
		oo = verifDetails(h, names)
	case "batch":
		ds := h.dsm.GetDataset(op.Ds)
		if ds == nil {
			oo.Err = "no dataset"
			return
		}
		ents, err := verifParse(store, op.Ents)
		if err != nil {
			oo.Err = "parse: " + err.Error()
			return
		}
		for _, e := range ents {
			oo.Lens = append(oo.Lens, verifLen(e))
		}
		before, _ := ds.GetChangesWatermark2()
		if err := ds.StoreEntities(ents); err != nil {
			oo.Err = err.Error()
		}
		after, _ := ds.GetChangesWatermark2()
		oo.NewSeqs = int(after - before)
	case "txn":
		txn := &Transaction{DatasetEntities: make(map[string][]*Entity)}
		for _, s := range op.Sets {
			if h.dsm.GetDataset(s.Ds) == nil {
				oo.Err = "no dataset"
				return
			}
		}
		for _, s := range op.Sets {
			ents, err := verifParse(store, s.Ents)
			if err != nil {
				oo.Err = "parse: " + err.Error()
				return
			}
			for _, e := range ents {
				oo.Lens = append(oo.Lens, verifLen(e))
			}
			txn.DatasetEntities[s.Ds] = append(txn.DatasetEntities[s.Ds], ents...)
		}
		if err := store.ExecuteTransaction(txn); err != nil {
			oo.Err = err.Error()
		}
	case "concurrent_pair":
		oo = verifPair(h, c, op)
	default:
		oo.Err = "unknown op " + op.Op
	}
	return
}

// verifPair: actor 1 runs the batch {ds, ents}; it is paused at updateDataset.afterRead (after it has read its
// meta entity from core.Dataset, before it stores the bumped copy back) until actor 2's operation op.B has
// completed (or is found to be blocked by a lock actor 1 holds: then the schedule is infeasible and actor 1
// is released first).  Deterministic forced schedule; a watchdog kills the process if anything hangs.
func verifPair(h *verifHub, c VerifCase, op VerifOp) (oo VerifOpObs) {
	if op.B == nil {
		oo.Err = "no b"
		return
	}
	reached := make(chan struct{})
	release := make(chan struct{})
	blocked := make(chan struct{})
	var once, onceBlocked sync.Once
	var paused int32
	armed := int32(1) // only actor 1 is ever paused: disarmed once it has finished without reaching the point
	var waitingSince int64 // actor 2 waits for some other lock since (a repaired tree may make it wait elsewhere)
	target := op.Ds
	pausePoint := "updateDataset.afterRead"
	if op.At == "commit" {
		pausePoint = "batch.beforeIdCommit"
	}
	stopPoll := make(chan struct{})
	defer close(stopPoll)
	go func() {
		for {
			select {
			case <-stopPoll:
				return
			case <-time.After(50 * time.Millisecond):
				if w := atomic.LoadInt64(&waitingSince); w != 0 && atomic.LoadInt32(&paused) == 1 && time.Now().UnixNano()-w > int64(2*time.Second) {
					onceBlocked.Do(func() { close(blocked) })
				}
			}
		}
	}()
	verifhook.SetHandler(func(name, arg string) {
		if name == pausePoint && arg == target && atomic.LoadInt32(&armed) == 1 {
			first := false
			once.Do(func() { first = true })
			if first {
				atomic.StoreInt32(&paused, 1)
				close(reached)
				<-release
				atomic.StoreInt32(&paused, 0)
			}
			return
		}
		// while actor 1 is paused it holds exactly the write lock of its dataset: anybody waiting for it is actor 2
		if atomic.LoadInt32(&paused) == 1 {
			if name == "lock.wait" && arg == target {
				onceBlocked.Do(func() { close(blocked) })
			} else if name == "lock.wait" {
				atomic.StoreInt64(&waitingSince, time.Now().UnixNano())
			} else if name == "lock.acquired" {
				atomic.StoreInt64(&waitingSince, 0)
			}
		}
	})
	defer verifhook.SetHandler(nil)
	watchdog := func(what string) {
		fmt.Fprintln(os.Stderr, "hang: "+what)
		os.Exit(3)
	}
	aDone := make(chan VerifOpObs, 1)
	go func() {
		aDone <- verifDoOp(h, c, VerifOp{Op: "batch", Ds: op.Ds, Ents: op.Ents})
	}()
	var aObs, bObs VerifOpObs
	aFinished := false
	select {
	case <-reached:
		oo.Reached = true
	case aObs = <-aDone:
		aFinished = true
		atomic.StoreInt32(&armed, 0)
	case <-time.After(30 * time.Second):
		watchdog("actor 1 neither reached the pause point nor finished")
	}
	bDone := make(chan VerifOpObs, 1)
	go func() { bDone <- verifDoOp(h, c, *op.B) }()
	if aFinished {
		select {
		case bObs = <-bDone:
		case <-time.After(30 * time.Second):
			watchdog("actor 2 did not finish")
		}
	} else {
		select {
		case bObs = <-bDone:
			close(release)
		case <-blocked:
			oo.BBlocked = true // actor 2 waits for the lock actor 1 holds: the schedule is infeasible, actor 1 goes first
			close(release)
			select {
			case bObs = <-bDone:
			case <-time.After(30 * time.Second):
				watchdog("actor 2 did not finish after actor 1 was released")
			}
		case <-time.After(30 * time.Second):
			watchdog("actor 2 neither finished nor blocked on actor 1's lock")
		}
		select {
		case aObs = <-aDone:
		case <-time.After(30 * time.Second):
			watchdog("actor 1 did not finish after release")
		}
	}
	oo.Err = aObs.Err
	oo.Panic = aObs.Panic
	oo.Lens = aObs.Lens
	oo.BErr = bObs.Err
	oo.BLens = bObs.Lens
	if bObs.Panic != "" {
		oo.BErr = "panic: " + bObs.Panic
	}
	return
}

// GetChangesWatermark2: number of change-log entries (robust on an empty dataset, unlike GetChangesWatermark)
func (ds *Dataset) GetChangesWatermark2() (uint64, error) {
	var n uint64
	_, err := ds.ProcessChangesRaw(0, 0, false, func(b []byte) error {
		n++
		return nil
	})
	return n, err
}
