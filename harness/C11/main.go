//go:build verif

// verif driver for property C11.  Reads all JSON cases from stdin, prints one "@@OBS <json>" line per case, in order.
// Configuration cases run in a child process each (re-exec with -child) under a watchdog: the exit status is the
// liveness observation (a fatal stack overflow or an unrecovered panic kills only the child).
package main

import (
	"bufio"
	"bytes"
	"context"
	"encoding/json"
	"fmt"
	"os"
	"os/exec"
	"strings"
	"sync"
	"sync/atomic"
	"time"

	"github.com/mimiro-io/datahub/internal/jobs"
)

func child(dir string) {
	in := bufio.NewReader(os.Stdin)
	line, _ := in.ReadBytes('\n')
	var c jobs.VerifC11Case
	if err := json.Unmarshal(line, &c); err != nil {
		fmt.Fprintln(os.Stderr, "bad case:", err)
		os.Exit(3)
	}
	obs := jobs.VerifC11RunCfg(c, dir)
	b, _ := json.Marshal(obs)
	fmt.Printf("\n@@OBS %s\n", b)
	os.Exit(0)
}

func runChild(c jobs.VerifC11Case, raw []byte, dir string) jobs.VerifC11Obs {
	ctx, cancel := context.WithTimeout(context.Background(), 40*time.Second)
	defer cancel()
	cmd := exec.CommandContext(ctx, os.Args[0], "-child", dir)
	cmd.Stdin = bytes.NewReader(append(raw, '\n'))
	var out, errb bytes.Buffer
	cmd.Stdout = &out
	cmd.Stderr = &errb
	err := cmd.Run()
	defer os.RemoveAll(dir)
	for _, l := range strings.Split(out.String(), "\n") {
		if strings.HasPrefix(l, "@@OBS ") {
			var o jobs.VerifC11Obs
			if json.Unmarshal([]byte(l[6:]), &o) == nil {
				return o
			}
		}
	}
	o := jobs.VerifC11Obs{Outcome: "ok", Accepted: true, Live: "died", Result: "none"}
	if ctx.Err() != nil {
		o.Live = "hang"
	}
	e := errb.String()
	switch {
	case strings.Contains(e, "stack overflow"):
		o.Detail = "fatal error: stack overflow"
		// name the function that recursed (first frame of package jobs in the trace)
		if k := strings.Index(e, "internal/jobs.("); k >= 0 {
			fn := e[k+len("internal/jobs."):]
			if j := strings.IndexAny(fn, "\n "); j > 0 {
				fn = fn[:j]
			}
			if j := strings.Index(fn, "(0x"); j > 0 {
				fn = fn[:j]
			}
			o.Detail += " in " + fn
		}
	case strings.Contains(e, "nil pointer dereference"):
		o.Detail = "panic: nil pointer dereference"
	case strings.Contains(e, "makeslice"):
		o.Detail = "panic: makeslice: len out of range"
	case strings.Contains(e, "verif: injected panic"):
		o.Detail = "panic: injected panic in the transform stage"
	default:
		for _, mark := range []string{"panic: ", "fatal error: "} {
			if k := strings.Index(e, mark); k >= 0 {
				e = e[k:]
				break
			}
		}
		if len(e) > 200 {
			e = e[:200]
		}
		o.Detail = fmt.Sprint(err, " ", e)
	}
	o.Stored = jobs.VerifC11Probe(c, dir)
	return o
}

func main() {
	if len(os.Args) >= 3 && os.Args[1] == "-child" {
		child(os.Args[2])
		return
	}
	dir := os.Args[1]
	in := bufio.NewScanner(os.Stdin)
	in.Buffer(make([]byte, 1<<20), 1<<26)
	var raws [][]byte
	var cases []jobs.VerifC11Case
	for in.Scan() {
		var c jobs.VerifC11Case
		if err := json.Unmarshal(in.Bytes(), &c); err != nil {
			fmt.Fprintln(os.Stderr, "bad case:", err)
			os.Exit(2)
		}
		raws = append(raws, append([]byte{}, in.Bytes()...))
		cases = append(cases, c)
	}
	obs := make([]jobs.VerifC11Obs, len(cases))
	// observations are printed in case order as soon as every earlier case has answered (the harness watchdog wants to
	// see progress): configuration cases run in children, 6 at a time; raffle / barrier cases one after the other
	var mu sync.Mutex
	done := make([]bool, len(cases))
	next := 0
	out := bufio.NewWriter(os.Stdout)
	finish := func(i int) {
		mu.Lock()
		defer mu.Unlock()
		done[i] = true
		for next < len(cases) && done[next] {
			b, _ := json.Marshal(obs[next])
			out.WriteString("\n@@OBS ")
			out.Write(b)
			out.WriteString("\n")
			next++
		}
		out.Flush()
	}
	// raffle / barrier cases first and alone (their spinning requesters want the processors for themselves), then the
	// configuration cases in children, 8 at a time
	var env *jobs.VerifC11Env
	for i := range cases {
		if cases[i].Kind == "raffle" || cases[i].Kind == "barrier" {
			if env == nil {
				env = jobs.VerifC11Setup(dir + "/c11store")
			}
			if cases[i].Kind == "raffle" {
				obs[i] = env.RunRaffle(cases[i])
			} else {
				obs[i] = env.RunBarrier(cases[i])
			}
			finish(i)
		} else if cases[i].Kind != "cfg" {
			finish(i)
		}
	}
	// 8 workers take the configuration cases in case order (so the case whose answer is printed next is always running)
	var cfgIdx []int
	for i := range cases {
		if cases[i].Kind == "cfg" {
			cfgIdx = append(cfgIdx, i)
		}
	}
	var nextCfg int32 = -1
	var wg sync.WaitGroup
	for w := 0; w < 8; w++ {
		wg.Add(1)
		go func() {
			defer wg.Done()
			for {
				k := int(atomic.AddInt32(&nextCfg, 1))
				if k >= len(cfgIdx) {
					return
				}
				i := cfgIdx[k]
				obs[i] = runChild(cases[i], raws[i], fmt.Sprintf("%s/c11-%d", dir, i))
				finish(i)
			}
		}()
	}
	wg.Wait()
	if env != nil {
		env.Close()
	}
}
