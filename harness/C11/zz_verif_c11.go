//go:build verif

// Injected into package jobs by `go build -overlay` (never committed to /repo).
// Property C11: (a) one configuration of job building blocks through the real Scheduler.AddJob and the real
// trigger path (cron entry / event bus), in its own process; (b) concurrent job.Run on a real raffle.
package jobs

import (
	"context"
	"encoding/base64"
	"fmt"
	"net/http"
	"net/http/httptest"
	"os"
	"runtime"
	"runtime/debug"
	"strconv"
	"sync"
	"sync/atomic"
	"time"

	"github.com/DataDog/datadog-go/v5/statsd"
	"github.com/bamzi/jobrunner"
	"go.uber.org/zap"

	"github.com/mimiro-io/datahub/internal/conf"
	jobSource "github.com/mimiro-io/datahub/internal/jobs/source"
	"github.com/mimiro-io/datahub/internal/security"
	"github.com/mimiro-io/datahub/internal/server"
)

type VerifC11Job struct {
	ID   int  `json:"id"`
	Full bool `json:"full"`
}

type VerifC11Case struct {
	Kind string `json:"kind"` // "cfg" | "raffle"
	// cfg
	Source    string `json:"source"`    // dataset | sample | slow
	Transform string `json:"transform"` // none | js | jspar (js, Parallelism 10, pages of 15) | panic (js + injected panic) | empty (js returning no entity)
	Sink      string `json:"sink"`      // devnull | dataset | missing
	Trigger   string `json:"trigger"`   // cron | onchange
	JobType   string `json:"jobType"`   // incremental | fullsync
	Handlers  string `json:"handlers"`  // none | log | rerun | logrerun | bad | Log
	Kill      bool   `json:"kill"`
	Delete    bool   `json:"delete"` // the job definition is deleted (DeleteJob does not interrupt a run) before the kill
	// raffle
	CapF    int           `json:"capF"`
	CapI    int           `json:"capI"`
	Jobs    []VerifC11Job `json:"jobs"`
	Workers int           `json:"workers"`
	Iters   int           `json:"iters"`
	// barrier: Reqs[i] = requester i asks for a fullsync ticket; all requesters of a round use the SAME job id
	Reqs     []bool `json:"reqs"`
	Rounds   int    `json:"rounds"`
	Distinct bool   `json:"distinct"` // barrier: every requester has its OWN job id (pool limit) instead of one shared id
}

type VerifC11Obs struct {
	Outcome  string  `json:"outcome"`
	Detail   string  `json:"detail,omitempty"`
	Accepted bool    `json:"accepted"`
	Live     string  `json:"live"`   // alive | died | hang
	Result   string  `json:"result"` // success | failure | kill | none   (as seen by the process itself)
	Stored   string  `json:"stored"` // the same, read from the store after the process ended
	Ticket   bool    `json:"ticket"` // run slot released (raffle empty, tickets back at capacity)
	Log      [][]int `json:"log"`    // raffle: [0,id,full] run start | [1,id] run end | [2,pool,value] ticket gauge
	FinalF   int     `json:"finalF"`
	FinalI   int     `json:"finalI"`
	Running  int     `json:"running"`
	Hist     []int   `json:"hist"`    // barrier: Hist[g] = rounds in which g requesters held a ticket for the id at the same time
	Rounds   int     `json:"rounds"`  // barrier: rounds actually played (the driver stops after 20 s on a very busy machine)
	BadAcct  int     `json:"badAcct"` // barrier: rounds after which pools / running set were not back at their initial values
}

// verifC11EnvCfg builds the configuration the way the hub does: conf.NewConfig reading the environment
// (JOBS_MAX_FULLSYNC / JOBS_MAX_INCREMENTAL), so that the wiring of the pool sizes is part of what is checked.
func verifC11EnvCfg(dir string, poolFull, poolIncr int) *conf.Config {
	_ = os.Setenv("JOBS_MAX_FULLSYNC", strconv.Itoa(poolFull))
	_ = os.Setenv("JOBS_MAX_INCREMENTAL", strconv.Itoa(poolIncr))
	_ = os.Setenv("STORE_LOCATION", dir)
	devNull, _ := os.Open(os.DevNull)
	cfg, err := conf.NewConfig()
	_ = devNull.Close()
	if err != nil || cfg == nil || cfg.RunnerConfig == nil {
		panic(fmt.Sprint("verif: conf.NewConfig failed: ", err))
	}
	cfg.Logger = zap.NewNop().Sugar()
	cfg.StoreLocation = dir
	cfg.RunnerConfig.Concurrent = 0
	return cfg
}

func verifC11Cfg(dir string) *conf.Config {
	return &conf.Config{
		Logger:        zap.NewNop().Sugar(),
		StoreLocation: dir,
		RunnerConfig:  &conf.RunnerConfig{PoolIncremental: 10, PoolFull: 5, Concurrent: 0},
	}
}

func verifC11Result(store *server.Store, id string) string {
	res := &jobResult{}
	_ = store.GetObject(server.JobResultIndex, id, res)
	switch {
	case res.ID == "":
		return "none"
	case res.LastError == "":
		return "success"
	case res.LastError == "got job interrupt":
		return "kill"
	}
	return "failure"
}

// VerifC11Probe reads the stored result of the case's job after its process ended.
func VerifC11Probe(c VerifC11Case, dir string) (r string) {
	defer func() {
		if x := recover(); x != nil {
			r = "unreadable"
		}
	}()
	if _, err := os.Stat(dir); err != nil {
		return "none"
	}
	store := server.NewStore(verifC11Cfg(dir), &statsd.NoOpClient{})
	defer store.Close()
	return verifC11Result(store, "c11job")
}

const verifC11N = 15

// VerifC11RunCfg runs one configuration in this process (which may die).
func VerifC11RunCfg(c VerifC11Case, dir string) (obs VerifC11Obs) {
	debug.SetMaxStack(4 << 20) // a runaway recursion ends quickly (default limit is 1 GB)
	_ = os.MkdirAll(dir, 0o755)
	cfg := verifC11EnvCfg(dir, 5, 10)
	sd := &verifC11PanicStatsd{armed: c.Transform == "panic"}
	store := server.NewStore(cfg, sd)
	bus, err := server.NewBus(cfg)
	if err != nil {
		obs.Outcome = "setup-error"
		obs.Detail = err.Error()
		return
	}
	pm := security.NewProviderManager(cfg, store, cfg.Logger)
	tps := security.NewTokenProviders(cfg.Logger, pm, nil)
	runner := NewRunner(cfg, store, tps, bus, sd)
	dsm := server.NewDsManager(cfg, store, bus)
	sched := NewScheduler(cfg, store, dsm, runner)
	src, err := dsm.CreateDataset("src", nil)
	if err == nil {
		_, err = dsm.CreateDataset("dst", nil)
	}
	if err != nil {
		obs.Outcome = "setup-error"
		obs.Detail = err.Error()
		return
	}
	ents := make([]*server.Entity, verifC11N)
	for i := range ents {
		ents[i] = server.NewEntity("http://v/e"+strconv.Itoa(i), 0)
	}
	if err := src.StoreEntities(ents); err != nil {
		obs.Outcome = "setup-error"
		obs.Detail = err.Error()
		return
	}
	id := "c11job"
	waitFor := 25 * time.Second
	source := map[string]string{
		"dataset": `{"Type":"DatasetSource","Name":"src"}`,
		"sample":  fmt.Sprintf(`{"Type":"SampleSource","NumberOfEntities":%d}`, verifC11N),
		"slow":    fmt.Sprintf(`{"Type":"SlowSource","Sleep":"900ms","BatchSize":%d}`, verifC11N),
	}[c.Source]
	var remote *verifC11Remote
	if c.Source == "proxy" {
		// DatasetSource on a proxy dataset (timeoutSeconds 1) whose remote accepts the request and stays silent
		remote = verifC11NewRemote(true, false)
		remote.always = true
		if _, err := dsm.CreateDataset("proxysrc", &server.CreateDatasetConfig{
			ProxyDatasetConfig: &server.ProxyDatasetConfig{RemoteURL: remote.srv.URL + "/datasets/x", TimeoutSeconds: 1}}); err != nil {
			obs.Outcome = "setup-error"
			obs.Detail = "proxy dataset: " + err.Error()
			return
		}
		source = `{"Type":"DatasetSource","Name":"proxysrc"}`
	}
	if c.Source == "union" {
		// an earlier run of the SAME job id over [ua, ub, uc] has stored its token; the job is then re-defined over [ua, ub]
		for _, n := range []string{"ua", "ub", "uc"} {
			d, err := dsm.CreateDataset(n, nil)
			if err == nil {
				es := make([]*server.Entity, 5)
				for i := range es {
					es[i] = server.NewEntity("http://v/"+n+strconv.Itoa(i), 0)
				}
				err = d.StoreEntities(es)
			}
			if err != nil {
				obs.Outcome = "setup-error"
				obs.Detail = "union datasets: " + err.Error()
				return
			}
		}
		first := fmt.Sprintf(`{"id":"%s","title":"%s","triggers":[{"triggerType":"cron","jobType":"incremental","schedule":"@every 2000s"}],
			"source":{"Type":"UnionDatasetSource","DatasetSources":[{"Name":"ua"},{"Name":"ub"},{"Name":"uc"}]},"sink":{"Type":"DevNullSink"}}`, id, id)
		jc1, err := sched.Parse([]byte(first))
		if err == nil {
			err = sched.AddJob(jc1)
		}
		if err != nil || len(jobrunner.MainCron.Entries()) != 1 {
			obs.Outcome = "setup-error"
			obs.Detail = fmt.Sprint("first union job: ", err)
			return
		}
		jobrunner.MainCron.Entries()[0].WrappedJob.Run()
		if r := verifC11Result(store, id); r != "success" {
			obs.Outcome = "setup-error"
			obs.Detail = "first union run: " + r
			return
		}
		_ = store.DeleteObject(server.JobResultIndex, id)
		source = `{"Type":"UnionDatasetSource","DatasetSources":[{"Name":"ua"},{"Name":"ub"}]}`
	}
	if c.Source == "http" || c.Source == "httpmid" {
		remote = verifC11NewRemote(c.Kill, c.Source == "httpmid")
		// not closed: httptest.Server.Close waits for the stalled request; the process exits after this case anyway
		source = fmt.Sprintf(`{"Type":"HttpDatasetSource","Url":"%s/entities"}`, remote.srv.URL)
	}
	sink := map[string]string{
		"devnull": `{"Type":"DevNullSink"}`,
		"dataset": `{"Type":"DatasetSink","Name":"dst"}`,
		"missing": `{"Type":"DatasetSink","Name":"nosuchdataset"}`,
	}[c.Sink]
	code := base64.StdEncoding.EncodeToString([]byte(`function transform_entities(entities) { return entities; }`))
	transform := map[string]string{
		"none":  ``,
		"js":    fmt.Sprintf(`"transform":{"Type":"JavascriptTransform","Code":"%s"},`, code),
		"panic": fmt.Sprintf(`"transform":{"Type":"JavascriptTransform","Code":"%s"},`, code),
		"jspar": fmt.Sprintf(`"transform":{"Type":"JavascriptTransform","Parallelism":10,"Code":"%s"},`, code),
		"nocode": `"transform":{"Type":"JavascriptTransform"},`,
		"empty": fmt.Sprintf(`"transform":{"Type":"JavascriptTransform","Code":"%s"},`,
			base64.StdEncoding.EncodeToString([]byte(`function transform_entities(entities) { return []; }`))),
	}[c.Transform]
	handlers := map[string]string{
		"none":     ``,
		"log":      `,"onError":[{"errorHandler":"log"}]`,
		"rerun":    `,"onError":[{"errorHandler":"rerun","maxRetries":1,"retryDelay":1}]`,
		"logrerun": `,"onError":[{"errorHandler":"log"},{"errorHandler":"rerun","maxRetries":1,"retryDelay":1}]`,
		"bad":      `,"onError":[{"errorHandler":"nosuchhandler"}]`,
		"Log":      `,"onError":[{"errorHandler":"Log"}]`,
	}[c.Handlers]
	trigger := fmt.Sprintf(`{"triggerType":"cron","jobType":"%s","schedule":"@every 2000s"%s}`, c.JobType, handlers)
	if c.Trigger == "onchange" {
		trigger = fmt.Sprintf(`{"triggerType":"onchange","jobType":"%s","monitoredDataset":"src"%s}`, c.JobType, handlers)
	}
	if source == "" || sink == "" {
		obs.Outcome = "setup-error"
		obs.Detail = "unknown building block"
		return
	}
	jobJSON := fmt.Sprintf(`{"id":"%s","title":"%s","triggers":[%s],"source":%s,%s"sink":%s}`, id, id, trigger, source, transform, sink)
	jc, err := sched.Parse([]byte(jobJSON))
	if err != nil {
		obs.Outcome = "setup-error"
		obs.Detail = "parse: " + err.Error()
		return
	}
	obs.Outcome = "ok"
	obs.Live = "alive"
	obs.Result = "none"
	if err := sched.AddJob(jc); err != nil {
		obs.Accepted = false
		obs.Detail = err.Error()
		obs.Ticket = true
		obs.Stored = "none"
		_ = store.Close()
		return
	}
	obs.Accepted = true
	// fire the trigger the way the hub does
	if c.Trigger == "cron" {
		entries := jobrunner.MainCron.Entries()
		if len(entries) != 1 {
			obs.Outcome = "setup-error"
			obs.Detail = fmt.Sprintf("%d cron entries", len(entries))
			return
		}
		go entries[0].WrappedJob.Run() // cron.startJob: go func() { j.Run() }()
	} else {
		bus.Emit(context.Background(), "dataset.src", nil)
	}
	if c.Source == "proxy" {
		waitFor = 8 * time.Second // the request times out after 1 s
	}
	if c.Kill {
		for i := 0; i < 5000 && runner.raffle.runningJob(id) == nil; i++ {
			time.Sleep(time.Millisecond)
		}
		if remote != nil {
			// kill while the remote stalls (before the response / in the middle of the body)
			select {
			case <-remote.stalled:
			case <-time.After(10 * time.Second):
			}
			time.Sleep(20 * time.Millisecond)
			waitFor = 8 * time.Second
		}
		if c.Delete && remote == nil {
			_ = sched.DeleteJob(id)
		}
		sched.KillJob(id)
	}
	// wait for the run to end: result stored and slot released; or nothing running and no result for a while
	deadline := time.Now().Add(waitFor)
	idle := 0
	for time.Now().Before(deadline) {
		time.Sleep(5 * time.Millisecond)
		runner.raffle.runningMu.Lock()
		running := len(runner.raffle.runningJobs)
		runner.raffle.runningMu.Unlock()
		r := verifC11Result(store, id)
		if running == 0 && r != "none" {
			break
		}
		if running == 0 {
			idle++
			if idle > 600 {
				break
			}
		} else {
			idle = 0
		}
	}
	// after the slot is released the deferred handleJobError may still rewrite the stored result (remembered sink error)
	// and - with unverified handlers - start a re-run at once that kills the process: with error handlers give that a
	// wide margin (it normally takes microseconds), so that a loaded machine does not change what is observed
	settle := 20 * time.Millisecond
	if c.Handlers != "none" && c.Handlers != "bad" {
		settle = 500 * time.Millisecond
	}
	time.Sleep(settle)
	if c.Kill && remote == nil && (c.Handlers == "rerun" || c.Handlers == "logrerun") {
		// a killed run must not be started again by the reRun handler: wait longer than the retry delay (1 s) plus a run
		// of the slow source (0.9 s); a re-run would overwrite the recorded kill
		time.Sleep(3 * time.Second)
	}
	obs.Result = verifC11Result(store, id)
	obs.Stored = obs.Result
	runner.raffle.runningMu.Lock()
	obs.Ticket = len(runner.raffle.runningJobs) == 0 && runner.raffle.ticketsFull == 5 && runner.raffle.ticketsIncr == 10
	if len(runner.raffle.runningJobs) != 0 {
		obs.Live = "hang"
	}
	runner.raffle.runningMu.Unlock()
	// the process exits right after this (store.Close costs about a second and is not needed: died runs are
	// re-read by the parent from the files, live ones report what they read themselves)
	return
}

// verifC11Remote is the remote data layer of an HttpDatasetSource: it serves verifC11N entities; when stall is set the
// FIRST request stalls (before the response, or after half of the body) until the client gives up, later requests
// are answered with 500 (so that a re-run after the kill does not succeed behind the observer's back).
type verifC11Remote struct {
	srv     *httptest.Server
	stalled chan struct{}
	reqs    int32
	always  bool // every request stalls (proxy dataset)
}

func verifC11NewRemote(stall, mid bool) *verifC11Remote {
	r := &verifC11Remote{stalled: make(chan struct{}, 4)}
	r.srv = httptest.NewServer(http.HandlerFunc(func(w http.ResponseWriter, req *http.Request) {
		n := atomic.AddInt32(&r.reqs, 1)
		if stall && n > 1 && !r.always {
			http.Error(w, "verif remote: gone", http.StatusInternalServerError)
			return
		}
		body := `[{"id":"@context","namespaces":{"ex":"http://v/"}}`
		for i := 0; i < verifC11N; i++ {
			body += fmt.Sprintf(`,{"id":"ex:e%d","refs":{},"props":{"ex:idx":%d}}`, i, i)
		}
		body += `]`
		if stall && !mid {
			select {
			case r.stalled <- struct{}{}:
			default:
			}
			select {
			case <-req.Context().Done():
			case <-time.After(60 * time.Second):
			}
			return
		}
		w.Header().Set("Content-Type", "application/json")
		if stall && mid {
			_, _ = w.Write([]byte(body[:len(body)/2]))
			if f, ok := w.(http.Flusher); ok {
				f.Flush()
			}
			r.stalled <- struct{}{}
			select {
			case <-req.Context().Done():
			case <-time.After(60 * time.Second):
			}
			return
		}
		_, _ = w.Write([]byte(body))
	}))
	return r
}

// verifC11PanicStatsd makes "a run panics" a building block of its own: both pipelines call
// statsdClient.Timing("pipeline.transform.batch", ...) in the goroutine of the run right after the transform
// of a page; when armed that call panics.  No other defect of the tree is needed to make a run panic.
type verifC11PanicStatsd struct {
	statsd.NoOpClient
	armed bool
}

func (s *verifC11PanicStatsd) Timing(name string, value time.Duration, tags []string, rate float64) error {
	if s.armed && name == "pipeline.transform.batch" {
		panic("verif: injected panic in the transform stage")
	}
	return nil
}

// ---------------------------------------------------------------------------------------------- raffle

type verifC11Rec struct {
	statsd.NoOpClient
	mu  sync.Mutex
	log [][]int
}

func (r *verifC11Rec) add(e []int) {
	r.mu.Lock()
	r.log = append(r.log, e)
	r.mu.Unlock()
}

func (r *verifC11Rec) Gauge(name string, value float64, tags []string, rate float64) error {
	switch name {
	case "jobs.tickets.full":
		r.add([]int{2, 1, int(value)})
	case "jobs.tickets.incr":
		r.add([]int{2, 0, int(value)})
	}
	return nil
}

type verifC11Pipeline struct {
	spc  PipelineSpec
	full bool
	idx  int
	rec  *verifC11Rec
}

func (p *verifC11Pipeline) sync(job *job, ctx context.Context) (int, error) {
	f := 0
	if p.full {
		f = 1
	}
	p.rec.add([]int{0, p.idx, f})
	for i := 0; i < 3; i++ {
		runtime.Gosched()
	}
	p.rec.add([]int{1, p.idx})
	return 0, nil
}
func (p *verifC11Pipeline) spec() *PipelineSpec { return &p.spc }
func (p *verifC11Pipeline) isFullSync() bool    { return p.full }

type VerifC11Env struct {
	dir   string
	store *server.Store
}

func VerifC11Setup(dir string) *VerifC11Env {
	_ = os.MkdirAll(dir, 0o755)
	_ = os.Setenv("JOB_FULLSYNC_RETRY_INTERVAL", "1ms")
	jobrunner.Start(20, 0)
	return &VerifC11Env{dir: dir, store: server.NewStore(verifC11Cfg(dir), &statsd.NoOpClient{})}
}

func (env *VerifC11Env) Close() {
	_ = env.store.Close()
	_ = os.RemoveAll(env.dir)
}

// RunRaffle: Workers goroutines call the real job.Run Iters times each on jobs drawn round-robin from Jobs
// (several job objects may share an id) against one real raffle.
func (env *VerifC11Env) RunRaffle(c VerifC11Case) (obs VerifC11Obs) {
	rec := &verifC11Rec{}
	logger := zap.NewNop().Sugar()
	_ = logger
	runner := NewRunner(verifC11EnvCfg(env.dir, c.CapF, c.CapI), env.store, nil, server.NoOpBus(), rec)
	jobs := make([]*job, len(c.Jobs))
	for i, jd := range c.Jobs {
		id := "r" + strconv.Itoa(jd.ID)
		jobs[i] = &job{id: id, title: id, runner: runner,
			pipeline: &verifC11Pipeline{spc: PipelineSpec{source: &jobSource.SampleSource{}, sink: &devNullSink{}}, full: jd.Full, idx: jd.ID, rec: rec}}
	}
	var wg sync.WaitGroup
	for w := 0; w < c.Workers; w++ {
		wg.Add(1)
		go func(w int) {
			defer wg.Done()
			for it := 0; it < c.Iters; it++ {
				jobs[(w+it*7)%len(jobs)].Run()
			}
		}(w)
	}
	wg.Wait()
	// queued fullsync retries (queueRetry) run asynchronously: wait until none is pending and nothing runs
	stable := 0
	for i := 0; i < 4000; i++ {
		pending := 0
		for _, j := range jobs {
			if _, ok := retryJobIds.Load(j.id); ok {
				pending++
			}
		}
		runner.raffle.runningMu.Lock()
		running := len(runner.raffle.runningJobs)
		runner.raffle.runningMu.Unlock()
		if pending == 0 && running == 0 {
			stable++
			if stable >= 15 {
				break
			}
		} else {
			stable = 0
		}
		time.Sleep(2 * time.Millisecond)
	}
	time.Sleep(30 * time.Millisecond)
	obs.Outcome = "ok"
	obs.Live = "alive"
	rec.mu.Lock()
	obs.Log = rec.log
	rec.mu.Unlock()
	runner.raffle.runningMu.Lock()
	obs.FinalF = runner.raffle.ticketsFull
	obs.FinalI = runner.raffle.ticketsIncr
	obs.Running = len(runner.raffle.runningJobs)
	runner.raffle.runningMu.Unlock()
	if obs.Log == nil {
		obs.Log = [][]int{}
	}
	return
}

// RunBarrier: in every round all requesters are released together (spinning on an atomic gate) and call the real
// raffle.borrowTicket for the SAME job id (different job objects: cron / event / fullsync flavours); nobody returns
// a ticket before all have answered, so the number of tickets granted in a round is the number of simultaneously
// active runs of that id.  Then all tickets are returned and the pool accounting is looked at.
func (env *VerifC11Env) RunBarrier(c VerifC11Case) (obs VerifC11Obs) {
	logger := zap.NewNop().Sugar()
	_ = logger
	sd := &statsd.NoOpClient{}
	runner := NewRunner(verifC11EnvCfg(env.dir, c.CapF, c.CapI), env.store, nil, server.NoOpBus(), sd)
	r := runner.raffle
	g := len(c.Reqs)
	const nids = 4
	jobs := make([][]*job, nids)
	for k := 0; k < nids; k++ {
		jobs[k] = make([]*job, g)
		for i, full := range c.Reqs {
			id := "b" + strconv.Itoa(k)
			if c.Distinct {
				id += "-" + strconv.Itoa(i)
			}
			jobs[k][i] = &job{id: id, title: id, runner: runner, isEvent: i%2 == 1,
				pipeline: &verifC11Pipeline{spc: PipelineSpec{source: &jobSource.SampleSource{}, sink: &devNullSink{}}, full: full, idx: k}}
		}
	}
	tickets := make([]*ticket, g)
	var gate, done int64
	var stop int32
	var wg sync.WaitGroup
	for i := 0; i < g; i++ {
		wg.Add(1)
		go func(i int) {
			defer wg.Done()
			next := int64(1)
			for {
				for spins := 0; atomic.LoadInt64(&gate) < next; spins++ {
					if atomic.LoadInt32(&stop) != 0 {
						return
					}
					if spins&63 == 63 {
						runtime.Gosched()
					}
				}
				tickets[i] = r.borrowTicket(jobs[int(next)%nids][i])
				atomic.AddInt64(&done, 1)
				next++
			}
		}(i)
	}
	hist := make([]int, g+1)
	t0 := time.Now()
	for round := int64(1); round <= int64(c.Rounds); round++ {
		if round&255 == 0 && time.Since(t0) > 20*time.Second {
			break
		}
		obs.Rounds++
		atomic.StoreInt64(&done, 0)
		atomic.StoreInt64(&gate, round)
		for spins := 0; atomic.LoadInt64(&done) < int64(g); spins++ {
			if spins&1023 == 1023 {
				runtime.Gosched()
			}
		}
		granted := 0
		for i, t := range tickets {
			if t != nil {
				granted++
				r.returnTicket(t)
				tickets[i] = nil
			}
		}
		hist[granted]++
		r.runningMu.Lock()
		if r.ticketsFull != c.CapF || r.ticketsIncr != c.CapI || len(r.runningJobs) != 0 {
			obs.BadAcct++
			// put the raffle back so that one bad round is not counted again and again
			r.ticketsFull, r.ticketsIncr = c.CapF, c.CapI
			for k := range r.runningJobs {
				delete(r.runningJobs, k)
			}
		}
		r.runningMu.Unlock()
	}
	atomic.StoreInt32(&stop, 1)
	wg.Wait()
	for len(hist) > 1 && hist[len(hist)-1] == 0 {
		hist = hist[:len(hist)-1]
	}
	obs.Outcome = "ok"
	obs.Live = "alive"
	obs.Hist = hist
	obs.Log = [][]int{}
	obs.FinalF, obs.FinalI, obs.Running = r.ticketsFull, r.ticketsIncr, len(r.runningJobs)
	return
}
