//go:build verif

// Injected into package web: the continuation-token codec of POST /query, so that the driver can hand the handler
// tokens pinned to an instant of its choice (e.g. exactly a commit time).
package web

import "github.com/mimiro-io/datahub/internal/server"

func VerifC03EncodeCont(froms []*server.RelatedFrom) ([]string, error) { return encodeCont(froms) }
