//go:build verif

// verif driver for C03 / C06: one JSON history per stdin line -> one "@@OBS <json>" line.
package main

import (
	"bufio"
	"bytes"
	"encoding/json"
	"fmt"
	"net/http/httptest"
	"os"

	"github.com/mimiro-io/datahub/internal/jobs"
	"github.com/mimiro-io/datahub/internal/server"
	"github.com/mimiro-io/datahub/internal/web"
)

// relationship query from inside a job's javascript transform (contextual store), JS helpers Query / PagedQuery
func jsQuery(store *server.Store, dsm *server.DsManager, op server.VerifOp, tokens map[string]int64) (oo server.VerifOpObs) {
	pages, err := jobs.VerifC03JobQuery(store, dsm, op.Starts, op.Pred, op.Inverse, op.Datasets, op.Limit)
	if err != nil {
		oo.Err = err.Error()
		return
	}
	oo.RPages = pages
	return
}

// POST /query through web.queryHandler; the continuation tokens of a paged query are kept per op id
var httpSessions = map[string][]string{}
var httpOriginal = map[string]map[string]interface{}{} // the first request of a session

func httpPost(store *server.Store, dsm *server.DsManager, body interface{}) (int, []byte) {
	b, _ := json.Marshal(body)
	e := web.VerifStoreEcho(store, dsm)
	req := httptest.NewRequest("POST", "/query", bytes.NewReader(b))
	req.Header.Set("Content-Type", "application/json")
	rec := httptest.NewRecorder()
	e.ServeHTTP(rec, req)
	return rec.Code, rec.Body.Bytes()
}

func httpPage(st int, resp []byte) (page []server.VerifRel, conts []string, err string) {
	page = []server.VerifRel{}
	if st != 200 {
		return page, nil, fmt.Sprintf("status %d: %s", st, string(resp))
	}
	var arr []json.RawMessage
	if e := json.Unmarshal(resp, &arr); e != nil || len(arr) < 2 {
		return page, nil, "unparsable response: " + string(resp)
	}
	var rows [][]json.RawMessage
	if e := json.Unmarshal(arr[1], &rows); e != nil {
		return page, nil, "unparsable rows"
	}
	for _, row := range rows {
		if len(row) != 3 {
			return page, nil, "row shape"
		}
		var s, p string
		var ent struct {
			ID string `json:"id"`
		}
		_ = json.Unmarshal(row[0], &s)
		_ = json.Unmarshal(row[1], &p)
		_ = json.Unmarshal(row[2], &ent)
		page = append(page, server.VerifRel{Start: s, Pred: p, ID: ent.ID})
	}
	if len(arr) > 2 {
		_ = json.Unmarshal(arr[2], &conts)
	}
	return page, conts, ""
}

// first page: {startingEntities, predicate, inverse, datasets, limit}
func httpQ(store *server.Store, dsm *server.DsManager, op server.VerifOp, tokens map[string]int64) (oo server.VerifOpObs) {
	dss := op.Datasets
	if dss == nil {
		dss = []string{}
	}
	first := map[string]interface{}{"startingEntities": op.Starts, "predicate": op.Pred, "inverse": op.Inverse,
		"datasets": dss, "limit": op.Limit}
	httpOriginal[op.ID] = first
	st, resp := httpPost(store, dsm, first)
	page, conts, e := httpPage(st, resp)
	if e != "" {
		oo.Err = e
		return
	}
	oo.RPages = [][]server.VerifRel{page}
	httpSessions[op.ID] = conts
	return
}

// the remaining pages: {continuations, limit} until no continuation is left (capped)
func httpCont(store *server.Store, dsm *server.DsManager, op server.VerifOp, tokens map[string]int64) (oo server.VerifOpObs) {
	oo.RPages = [][]server.VerifRel{}
	conts := httpSessions[op.ID]
	for n := 0; len(conts) > 0; n++ {
		if n >= 40 {
			oo.Err = "paging does not terminate"
			return
		}
		body := map[string]interface{}{"continuations": conts, "limit": op.Limit}
		if op.Resend {
			// a client that pages by re-sending its original query document with the tokens added
			// (DOCUMENTATION: continuations override the other attributes)
			body = map[string]interface{}{}
			for k, v := range httpOriginal[op.ID] {
				body[k] = v
			}
			body["continuations"] = conts
		}
		st, resp := httpPost(store, dsm, body)
		page, next, e := httpPage(st, resp)
		if e != "" {
			oo.Err = e
			return
		}
		oo.RPages = append(oo.RPages, page)
		conts = next
	}
	httpSessions[op.ID] = nil
	return
}

// POST /query {continuations, limit} from the FIRST page on, with tokens the driver builds itself (ToRelatedFrom + the
// handler's own token encoder) pinned to the instant the op names - e.g. exactly a commit time
func httpAt(store *server.Store, dsm *server.DsManager, op server.VerifOp, tokens map[string]int64) (oo server.VerifOpObs) {
	at := int64(1) << 62
	if tokens["@hasat"] == 1 {
		at = tokens["@at"]
	}
	froms, err := store.ToRelatedFrom(op.Starts, op.Pred, op.Inverse, op.Datasets, at)
	if err != nil {
		oo.Err = err.Error()
		return
	}
	oo.RPages = [][]server.VerifRel{}
	if froms == nil {
		oo.RPages = append(oo.RPages, []server.VerifRel{}) // unknown start point: nothing
		return
	}
	conts, err := web.VerifC03EncodeCont(froms)
	if err != nil {
		oo.Err = err.Error()
		return
	}
	for n := 0; len(conts) > 0; n++ {
		if n >= 40 {
			oo.Err = "paging does not terminate"
			return
		}
		st, resp := httpPost(store, dsm, map[string]interface{}{"continuations": conts, "limit": op.Limit})
		page, next, e := httpPage(st, resp)
		if e != "" {
			oo.Err = e
			return
		}
		oo.RPages = append(oo.RPages, page)
		conts = next
	}
	return
}

// a paged query inside a job transform, interrupted after its first page ...
func jsStart(store *server.Store, dsm *server.DsManager, op server.VerifOp, tokens map[string]int64) (oo server.VerifOpObs) {
	pages, err := jobs.VerifC03JobSessionStart(store, dsm, op.ID, op.Starts, op.Pred, op.Inverse, op.Datasets, op.Limit)
	if err != nil {
		oo.Err = err.Error()
		return
	}
	oo.RPages = pages
	return
}

// ... and continued later with the tokens added to the same parameter object
func jsCont(store *server.Store, dsm *server.DsManager, op server.VerifOp, tokens map[string]int64) (oo server.VerifOpObs) {
	pages, err := jobs.VerifC03JobSessionCont(op.ID)
	if err != nil {
		oo.Err = err.Error()
		return
	}
	oo.RPages = pages
	return
}

func main() {
	server.VerifExtOps["httpat"] = httpAt
	server.VerifExtOps["jsq"] = jsStart
	server.VerifExtOps["jscont"] = jsCont
	server.VerifExtOps["jsquery"] = jsQuery
	server.VerifExtOps["httpq"] = httpQ
	server.VerifExtOps["httpcont"] = httpCont
	dir := os.Args[1]
	in := bufio.NewScanner(os.Stdin)
	in.Buffer(make([]byte, 1<<20), 1<<28)
	out := bufio.NewWriter(os.Stdout)
	defer out.Flush()
	i := 0
	for in.Scan() {
		var c server.VerifCase
		if err := json.Unmarshal(in.Bytes(), &c); err != nil {
			fmt.Fprintln(os.Stderr, "bad case:", err)
			os.Exit(2)
		}
		httpSessions = map[string][]string{}
		httpOriginal = map[string]map[string]interface{}{}
		obs := server.VerifC03Run(c, fmt.Sprintf("%s/c%d", dir, i))
		b, _ := json.Marshal(obs)
		out.WriteString("@@OBS ")
		out.Write(b)
		out.WriteString("\n")
		out.Flush()
		i++
	}
}
