//go:build verif

// Injected into package server by `go build -overlay` (never committed to /repo).
// Fork of harness/store/zz_verif_store.go for C03 / C06 with three more observations:
//   - Ids: the URI -> internal id table (the model orders keys by the ids the store assigned),
//   - op "refkeys": the raw outgoing / incoming reference keys, decoded,
//   - related op with "bodies": the properties of every returned related entity,
//   - op "race": a forced two-writer schedule on one dataset (writer 1 - a batch or a single-dataset transaction - is
//     held at its lock.wait hook until writer 2 has committed) with probes run while writer 1 is held ("pre": before
//     writer 2 starts, "mid": after writer 2 committed), the instants of those two phases and both commit times.
package server

import (
	"bytes"
	"encoding/binary"
	"encoding/json"
	"fmt"
	"os"
	"sort"
	"strings"
	"sync"
	"sync/atomic"
	"time"

	"github.com/DataDog/datadog-go/v5/statsd"
	badger "github.com/dgraph-io/badger/v4"
	"go.uber.org/zap"

	"github.com/mimiro-io/datahub/internal/conf"
	"github.com/mimiro-io/datahub/internal/verifhook"
)

type VerifEnt struct {
	ID      string                 `json:"id"`
	Deleted bool                   `json:"deleted,omitempty"`
	Props   map[string]interface{} `json:"props"`
	Refs    map[string]interface{} `json:"refs"`
}

type VerifSet struct {
	Ds   string     `json:"ds"`
	Ents []VerifEnt `json:"ents"`
}

type VerifTimeRef struct {
	AfterOp int  `json:"after_op"` // index of a write op of this history
	Exact   bool `json:"exact"`    // exactly the commit time of that op (if it stored anything), else an instant after it
	Phase   string `json:"phase,omitempty"` // race ops: "pre" = while writer 1 is held, before writer 2 starts; "mid" = after writer 2 committed, before writer 1 is released
}

type VerifOp struct {
	Op       string        `json:"op"` // batch | txn | changes | entities | get | related | create | restart
	Ds       string        `json:"ds,omitempty"`
	Ents     []VerifEnt    `json:"ents,omitempty"`
	Sets     []VerifSet    `json:"sets,omitempty"`
	Since    int64         `json:"since,omitempty"`
	Reader   string        `json:"reader,omitempty"` // token-carrying reader: since is taken from its last token
	Limit    int           `json:"limit,omitempty"`
	Limits   []int         `json:"limits,omitempty"` // entities/related: limit per page, last one repeated
	Latest   bool          `json:"latest,omitempty"`
	Reverse  bool          `json:"reverse,omitempty"`
	ID       string        `json:"id,omitempty"`
	Datasets []string      `json:"datasets,omitempty"`
	Merge    bool          `json:"merge,omitempty"`
	Pred     string        `json:"pred,omitempty"`
	Inverse  bool          `json:"inverse,omitempty"`
	Starts   []string      `json:"starts,omitempty"`
	At       *VerifTimeRef `json:"at,omitempty"`
	Bodies   bool          `json:"bodies,omitempty"`
	Second   []VerifEnt    `json:"second,omitempty"`    // race: the second writer's batch (the first one's is Ents)
	FirstTxn bool          `json:"first_txn,omitempty"` // race: the first writer is a (single-dataset) transaction
	Pre      []VerifOp     `json:"pre,omitempty"`       // race: read ops run while writer 1 is held, before writer 2 starts
	Mid      []VerifOp     `json:"mid,omitempty"`       // race: read ops run after writer 2 committed, before writer 1 is released
	Resend   bool          `json:"resend,omitempty"`    // httpcont: every continuation request re-sends the original query document with the tokens added
}

type VerifCase struct {
	Datasets []string  `json:"datasets"`
	Proxies  []string  `json:"proxies,omitempty"` // proxy datasets (a remote URL that is never contacted): named in scopes, no local data
	Ops      []VerifOp `json:"ops"`
}

type VerifOut struct {
	Ent *VerifEnt `json:"ent,omitempty"`
}

type VerifRel struct {
	Start string    `json:"start"`
	Pred  string    `json:"pred"`
	ID    string    `json:"id"`
	Body  *VerifEnt `json:"body,omitempty"`
}

// one decoded reference key: [src, time, pred, tgt, deleted, dataset]
type VerifRefKey [6]uint64

type VerifOpObs struct {
	Err     string       `json:"err,omitempty"`
	Panic   string       `json:"panic,omitempty"`
	Lens    []int        `json:"lens,omitempty"`  // batch/txn: serialized length of each posted entity (internalId, recorded zeroed)
	Time    int64        `json:"time,omitempty"`  // batch/txn: commit time (recorded) if anything was stored
	Ents    []VerifEnt   `json:"ents,omitempty"`  // changes / get
	Next    int64        `json:"next,omitempty"`  // changes: next token
	Pages   [][]VerifEnt `json:"pages,omitempty"` // entities
	RPages  [][]VerifRel `json:"rpages,omitempty"`
	Found   bool         `json:"found,omitempty"`
	NewSeqs int          `json:"newseqs,omitempty"`
	OutKeys []VerifRefKey `json:"outkeys,omitempty"`
	InKeys  []VerifRefKey `json:"inkeys,omitempty"`
	Time1   int64         `json:"time1,omitempty"` // race: commit time of writer 1 (0 if it stored nothing)
	Time2   int64         `json:"time2,omitempty"` // race: commit time of writer 2
	PreObs  []VerifOpObs  `json:"preobs,omitempty"`
	MidObs  []VerifOpObs  `json:"midobs,omitempty"`
}

type VerifObs struct {
	Outcome string            `json:"outcome"`
	Detail  string            `json:"detail,omitempty"`
	Ops     []VerifOpObs      `json:"ops"`
	Ns      map[string]string `json:"ns"`
	Ids     map[string]uint64 `json:"ids"` // curie -> internal id, every URI the store knows
	DsIds   map[string]uint32 `json:"dsids"`
}

func verifPayload(ents []VerifEnt) []byte {
	var b bytes.Buffer
	b.WriteString(`[{"id":"@context","namespaces":{"_":"http://v/"}}`)
	for _, e := range ents {
		if e.Props == nil {
			e.Props = map[string]interface{}{}
		}
		if e.Refs == nil {
			e.Refs = map[string]interface{}{}
		}
		j, _ := json.Marshal(e)
		b.WriteString(",")
		b.Write(j)
	}
	b.WriteString("]")
	return b.Bytes()
}

func verifParse(store *Store, ents []VerifEnt) ([]*Entity, error) {
	esp := NewEntityStreamParser(store)
	res := make([]*Entity, 0)
	err := esp.ParseStream(bytes.NewReader(verifPayload(ents)), func(e *Entity) error {
		res = append(res, e)
		return nil
	})
	return res, err
}

func verifLen(e *Entity) int {
	c := *e
	c.InternalID = 0
	c.Recorded = 0
	j, _ := json.Marshal(&c)
	return len(j)
}

func verifOutEnt(e *Entity) VerifEnt {
	// round trip through JSON so that nested entities etc. come out as plain maps
	j, _ := json.Marshal(e)
	var m struct {
		ID      string                 `json:"id"`
		Deleted bool                   `json:"deleted"`
		Props   map[string]interface{} `json:"props"`
		Refs    map[string]interface{} `json:"refs"`
	}
	_ = json.Unmarshal(j, &m)
	return VerifEnt{ID: m.ID, Deleted: m.Deleted, Props: m.Props, Refs: m.Refs}
}

type verifHub struct {
	dir   string
	store *Store
	dsm   *DsManager
}

func (h *verifHub) open() {
	cfg := &conf.Config{Logger: zap.NewNop().Sugar(), StoreLocation: h.dir}
	h.store = NewStore(cfg, &statsd.NoOpClient{})
	h.dsm = NewDsManager(cfg, h.store, NoOpBus())
}

func (h *verifHub) close() {
	if h.store != nil {
		_ = h.store.Close()
		h.store = nil
	}
}

// VerifC03Run executes one history on a fresh store under dir.
func VerifC03Run(c VerifCase, dir string) (obs VerifObs) {
	verifRelSessions = nil
	_ = os.MkdirAll(dir, 0o755)
	defer os.RemoveAll(dir)
	h := &verifHub{dir: dir}
	h.open()
	defer h.close()
	obs.Outcome = "ok"
	obs.Ops = make([]VerifOpObs, 0, len(c.Ops))
	for _, d := range c.Datasets {
		if _, err := h.dsm.CreateDataset(d, nil); err != nil {
			obs.Outcome = "setup-error"
			obs.Detail = err.Error()
			return
		}
	}
	for _, d := range c.Proxies {
		cfg := &CreateDatasetConfig{ProxyDatasetConfig: &ProxyDatasetConfig{RemoteURL: "http://127.0.0.1:1/datasets/" + d}}
		if _, err := h.dsm.CreateDataset(d, cfg); err != nil {
			obs.Outcome = "setup-error"
			obs.Detail = err.Error()
			return
		}
	}
	dsids := make(map[string]uint32) // taken before any delete_ds
	for _, d := range append(append([]string{}, c.Datasets...), c.Proxies...) {
		if ds := h.dsm.GetDataset(d); ds != nil {
			dsids[d] = ds.InternalID
		}
	}
	times := make(map[int]int64)
	tokens := make(map[string]int64)
	for i, op := range c.Ops {
		oo := verifDoOp(h, op, i, times, tokens)
		obs.Ops = append(obs.Ops, oo)
	}
	obs.Ns = h.store.NamespaceManager.GetPrefixToExpansionMap()
	cp := make(map[string]string)
	for k, v := range obs.Ns {
		cp[k] = v
	}
	obs.Ns = cp
	obs.Ids = verifIds(h.store)
	obs.DsIds = dsids
	return
}

func verifIds(store *Store) map[string]uint64 {
	res := make(map[string]uint64)
	prefix := make([]byte, 2)
	binary.BigEndian.PutUint16(prefix, URIToIDIndexID)
	_ = store.database.View(func(txn *badger.Txn) error {
		it := txn.NewIterator(badger.DefaultIteratorOptions)
		defer it.Close()
		for it.Seek(prefix); it.ValidForPrefix(prefix); it.Next() {
			k := it.Item().KeyCopy(nil)
			_ = it.Item().Value(func(v []byte) error {
				if len(v) == 8 {
					res[string(k[2:])] = binary.BigEndian.Uint64(v)
				}
				return nil
			})
		}
		return nil
	})
	return res
}

func verifRefKeys(store *Store, index uint16) []VerifRefKey {
	res := []VerifRefKey{}
	prefix := make([]byte, 2)
	binary.BigEndian.PutUint16(prefix, index)
	_ = store.database.View(func(txn *badger.Txn) error {
		opts := badger.DefaultIteratorOptions
		opts.PrefetchValues = false
		it := txn.NewIterator(opts)
		defer it.Close()
		for it.Seek(prefix); it.ValidForPrefix(prefix); it.Next() {
			k := it.Item().Key()
			if len(k) != 40 {
				continue
			}
			var r VerifRefKey
			if index == OutgoingRefIndex { // rid, time, pred, related
				r = VerifRefKey{binary.BigEndian.Uint64(k[2:]), binary.BigEndian.Uint64(k[10:]), binary.BigEndian.Uint64(k[18:]),
					binary.BigEndian.Uint64(k[26:]), uint64(binary.BigEndian.Uint16(k[34:])), uint64(binary.BigEndian.Uint32(k[36:]))}
			} else { // related, rid, time, pred
				r = VerifRefKey{binary.BigEndian.Uint64(k[10:]), binary.BigEndian.Uint64(k[18:]), binary.BigEndian.Uint64(k[26:]),
					binary.BigEndian.Uint64(k[2:]), uint64(binary.BigEndian.Uint16(k[34:])), uint64(binary.BigEndian.Uint32(k[36:]))}
			}
			res = append(res, r)
		}
		return nil
	})
	return res
}

func verifAt(op VerifOp, times map[int]int64) (int64, bool) {
	if op.At == nil {
		return 0, false
	}
	if op.At.Phase == "pre" {
		return times[1<<20+2*op.At.AfterOp], true
	}
	if op.At.Phase == "mid" {
		return times[1<<20+2*op.At.AfterOp+1], true
	}
	if op.At.Exact {
		if t, ok := times[-1-op.At.AfterOp]; ok && t > 0 {
			return t, true
		}
	}
	return times[op.At.AfterOp], true
}

// record the instants of write op idx: times[idx] = an instant after it, times[-1-idx] = its commit time (0 if it stored nothing)
func verifStamp(idx int, times map[int]int64, last int64, prevAfter int64) {
	if last > prevAfter {
		times[-1-idx] = last
	} else {
		times[-1-idx] = 0
	}
	time.Sleep(time.Microsecond)
	times[idx] = time.Now().UnixNano()
	time.Sleep(time.Microsecond)
}

func verifLastTime(ds *Dataset) int64 {
	var t int64
	_, _ = ds.ProcessChanges(0, 0, false, func(e *Entity) {
		if int64(e.Recorded) > t {
			t = int64(e.Recorded)
		}
	})
	return t
}

func verifDoOp(h *verifHub, op VerifOp, idx int, times map[int]int64, tokens map[string]int64) (oo VerifOpObs) {
	defer func() {
		if r := recover(); r != nil {
			oo.Panic = fmt.Sprint(r)
		}
	}()
	store := h.store
	switch op.Op {
	case "create":
		if _, err := h.dsm.CreateDataset(op.Ds, nil); err != nil {
			oo.Err = err.Error()
		}
	case "race":
		// writer 1 is held at lock.wait (it has read nothing of the dataset yet and holds no lock), writer 2 runs to
		// completion, then writer 1 is released: the outcome must be the sequential history "writer 2, then writer 1"
		ds := h.dsm.GetDataset(op.Ds)
		if ds == nil {
			oo.Err = "no dataset"
			return
		}
		e1, err := verifParse(store, op.Ents)
		if err != nil {
			oo.Err = "parse: " + err.Error()
			return
		}
		e2, err := verifParse(store, op.Second)
		if err != nil {
			oo.Err = "parse: " + err.Error()
			return
		}
		for _, e := range e1 {
			oo.Lens = append(oo.Lens, verifLen(e))
		}
		for _, e := range e2 {
			oo.Lens = append(oo.Lens, verifLen(e))
		}
		newTime := func(from uint64) (int64, uint64) { // Recorded of the change-log entries from position [from] on
			var t int64
			n := from
			_, _ = ds.ProcessChanges(from, 0, false, func(e *Entity) {
				t = int64(e.Recorded)
				n++
			})
			return t, n
		}
		wm0, _ := ds.GetChangesWatermark2()
		held := make(chan struct{})
		release := make(chan struct{})
		var once sync.Once
		var phase int32
		verifhook.SetHandler(func(name, arg string) {
			if arg != op.Ds {
				return
			}
			if atomic.LoadInt32(&phase) == 0 && name == "lock.wait" {
				fired := false
				once.Do(func() { fired = true })
				if fired {
					atomic.StoreInt32(&phase, 1)
					close(held)
					<-release
				}
			}
		})
		defer verifhook.SetHandler(nil)
		done1 := make(chan error, 1)
		if op.FirstTxn {
			txn := &Transaction{DatasetEntities: map[string][]*Entity{op.Ds: e1}}
			go func() { done1 <- store.ExecuteTransaction(txn) }()
		} else {
			go func() { done1 <- ds.StoreEntities(e1) }()
		}
		select {
		case <-held:
		case err := <-done1:
			oo.Err = fmt.Sprintf("writer 1 never reached lock.wait (err=%v)", err)
			return
		case <-time.After(10 * time.Second):
			oo.Err = "writer 1 hang"
			return
		}
		time.Sleep(time.Microsecond)
		times[1<<20+2*idx] = time.Now().UnixNano()
		time.Sleep(time.Microsecond)
		for _, sub := range op.Pre {
			oo.PreObs = append(oo.PreObs, verifDoOp(h, sub, idx, times, tokens))
		}
		if err := ds.StoreEntities(e2); err != nil {
			oo.Err = "writer 2: " + err.Error()
		}
		var wm1 uint64
		oo.Time2, wm1 = newTime(wm0)
		time.Sleep(time.Microsecond)
		times[1<<20+2*idx+1] = time.Now().UnixNano()
		time.Sleep(time.Microsecond)
		for _, sub := range op.Mid {
			oo.MidObs = append(oo.MidObs, verifDoOp(h, sub, idx, times, tokens))
		}
		close(release)
		select {
		case err := <-done1:
			if err != nil && oo.Err == "" {
				oo.Err = "writer 1: " + err.Error()
			}
		case <-time.After(20 * time.Second):
			oo.Err = "writer 1 hang after release"
			return
		}
		oo.Time1, _ = newTime(wm1)
		oo.Time = verifLastTime(ds)
		verifStamp(idx, times, oo.Time, times[1<<30])
		times[1<<30] = times[idx]
	case "refkeys":
		oo.OutKeys = verifRefKeys(store, OutgoingRefIndex)
		oo.InKeys = verifRefKeys(store, IncomingRefIndex)
	case "restart":
		h.close()
		h.open()
	case "batch":
		ds := h.dsm.GetDataset(op.Ds)
		if ds == nil {
			oo.Err = "no dataset"
			return
		}
		ents, err := verifParse(store, op.Ents)
		if err != nil {
			oo.Err = "parse: " + err.Error()
			return
		}
		for _, e := range ents {
			oo.Lens = append(oo.Lens, verifLen(e))
		}
		before, _ := ds.GetChangesWatermark2()
		if err := ds.StoreEntities(ents); err != nil {
			oo.Err = err.Error()
		}
		after, _ := ds.GetChangesWatermark2()
		oo.NewSeqs = int(after - before)
		oo.Time = verifLastTime(ds)
		verifStamp(idx, times, oo.Time, times[1<<30])
		times[1<<30] = times[idx]
	case "txn":
		txn := &Transaction{DatasetEntities: make(map[string][]*Entity)}
		for _, s := range op.Sets {
			ents, err := verifParse(store, s.Ents)
			if err != nil {
				oo.Err = "parse: " + err.Error()
				return
			}
			for _, e := range ents {
				oo.Lens = append(oo.Lens, verifLen(e))
			}
			txn.DatasetEntities[s.Ds] = append(txn.DatasetEntities[s.Ds], ents...)
		}
		if err := store.ExecuteTransaction(txn); err != nil {
			oo.Err = err.Error()
		}
		var t int64
		for _, s := range op.Sets {
			if ds := h.dsm.GetDataset(s.Ds); ds != nil {
				if x := verifLastTime(ds); x > t {
					t = x
				}
			}
		}
		oo.Time = t
		verifStamp(idx, times, t, times[1<<30])
		times[1<<30] = times[idx]
	case "changes":
		ds := h.dsm.GetDataset(op.Ds)
		if ds == nil {
			oo.Err = "no dataset"
			return
		}
		since := op.Since
		if op.Reader != "" {
			since = tokens[op.Reader+"@"+op.Ds]
		}
		oo.Ents = []VerifEnt{}
		next, err := ds.ProcessChanges(uint64(since), op.Limit, op.Latest, func(e *Entity) {
			oo.Ents = append(oo.Ents, verifOutEnt(e))
		})
		if err != nil {
			oo.Err = err.Error()
			return
		}
		oo.Next = int64(next)
		if op.Reader != "" {
			tokens[op.Reader+"@"+op.Ds] = int64(next)
		}
	case "entities":
		ds := h.dsm.GetDataset(op.Ds)
		if ds == nil {
			oo.Err = "no dataset"
			return
		}
		oo.Pages = [][]VerifEnt{}
		from := ""
		for p := 0; p < 10000; p++ {
			lim := 0
			if len(op.Limits) > 0 {
				if p < len(op.Limits) {
					lim = op.Limits[p]
				} else {
					lim = op.Limits[len(op.Limits)-1]
				}
			}
			page := []VerifEnt{}
			tok, err := ds.MapEntities(from, lim, func(e *Entity) error {
				page = append(page, verifOutEnt(e))
				return nil
			})
			if err != nil {
				oo.Err = err.Error()
				return
			}
			oo.Pages = append(oo.Pages, page)
			if len(page) == 0 || lim <= 0 {
				break
			}
			from = tok
		}
	case "get":
		var e *Entity
		var err error
		if at, ok := verifAt(op, times); ok {
			rtxn := store.database.NewTransaction(false)
			curie, err2 := store.GetNamespacedIdentifierFromURI(op.ID)
			if err2 != nil {
				rtxn.Discard()
				oo.Err = err2.Error()
				return
			}
			rid, exists, _ := store.getIDForURI(rtxn, curie)
			rtxn.Discard()
			if !exists {
				return
			}
			e, err = store.GetEntityAtPointInTimeWithInternalID(rid, at, store.DatasetsToInternalIDs(op.Datasets), op.Merge)
		} else {
			e, err = store.GetEntity(op.ID, op.Datasets, op.Merge)
		}
		if err != nil {
			oo.Err = err.Error()
			return
		}
		if e != nil {
			oo.Found = true
			oo.Ents = []VerifEnt{verifOutEnt(e)}
		}
	case "related":
		at, hasAt := verifAt(op, times)
		oo.RPages = [][]VerifRel{}
		var froms []*RelatedFrom
		var err error
		qt := at
		if !hasAt {
			qt = 1 << 62
		}
		froms, err = store.ToRelatedFrom(op.Starts, op.Pred, op.Inverse, op.Datasets, qt)
		if err != nil {
			oo.Err = err.Error()
			return
		}
		for _, f := range froms {
			if f == nil {
				oo.Err = "unknown start"
				return
			}
		}
		for p := 0; p < 10000; p++ {
			lim := 0
			if len(op.Limits) > 0 {
				if p < len(op.Limits) {
					lim = op.Limits[p]
				} else {
					lim = op.Limits[len(op.Limits)-1]
				}
			}
			res, err := store.GetManyRelatedEntitiesAtTime(froms, lim, !op.Bodies) // bodies: unmerged partials, one per dataset
			if err != nil {
				oo.Err = err.Error()
				return
			}
			page := []VerifRel{}
			for _, r := range res.Relations {
				id := ""
				if r.RelatedEntity != nil {
					id = r.RelatedEntity.ID
				}
				vr := VerifRel{Start: r.StartURI, Pred: r.PredicateURI, ID: id}
				if op.Bodies && r.RelatedEntity != nil {
					b := verifOutEnt(r.RelatedEntity)
					vr.Body = &b
				}
				page = append(page, vr)
			}
			oo.RPages = append(oo.RPages, page)
			if len(res.Cont) == 0 || lim <= 0 || p > 2000 {
				break
			}
			froms = res.Cont
		}
	case "relq", "relcont":
		// a paged store-level query split in two: relq = the first page (GetManyRelatedEntitiesBatch-like, "now" or op.at),
		// relcont = all further pages from the kept continuation list (other ops, e.g. delete_ds, may come in between)
		if verifRelSessions == nil {
			verifRelSessions = map[string][]*RelatedFrom{}
		}
		oo.RPages = [][]VerifRel{}
		var froms []*RelatedFrom
		if op.Op == "relq" {
			at, hasAt := verifAt(op, times)
			if !hasAt {
				at = 1 << 62
			}
			var err error
			froms, err = store.ToRelatedFrom(op.Starts, op.Pred, op.Inverse, op.Datasets, at)
			if err != nil {
				oo.Err = err.Error()
				return
			}
			if froms == nil {
				oo.RPages = append(oo.RPages, []VerifRel{})
				verifRelSessions[op.ID] = nil
				return
			}
		} else {
			froms = verifRelSessions[op.ID]
		}
		for p := 0; len(froms) > 0 && p < 60; p++ {
			res, err := store.GetManyRelatedEntitiesAtTime(froms, op.Limit, true)
			if err != nil {
				oo.Err = err.Error()
				return
			}
			page := []VerifRel{}
			for _, r := range res.Relations {
				id := ""
				if r.RelatedEntity != nil {
					id = r.RelatedEntity.ID
				}
				page = append(page, VerifRel{Start: r.StartURI, Pred: r.PredicateURI, ID: id})
			}
			oo.RPages = append(oo.RPages, page)
			froms = res.Cont
			if op.Op == "relq" {
				break
			}
		}
		verifRelSessions[op.ID] = froms
	case "delete_ds":
		if err := h.dsm.DeleteDataset(op.Ds); err != nil {
			oo.Err = err.Error()
		}
	default:
		if f, ok := VerifExtOps[op.Op]; ok {
			// the instant the op refers to, resolved here (the extension ops do not see the table of instants)
			if at, ok := verifAt(op, times); ok {
				tokens["@at"], tokens["@hasat"] = at, 1
			} else {
				tokens["@at"], tokens["@hasat"] = 0, 0
			}
			return f(h.store, h.dsm, op, tokens)
		}
		oo.Err = "unknown op " + op.Op
	}
	return
}

var verifRelSessions map[string][]*RelatedFrom

// VerifExtOps lets the driver's main package add operations that need packages which import package server
// (jobs: relationship queries from inside a job's javascript transform; web: POST /query with continuation tokens)
var VerifExtOps = map[string]func(store *Store, dsm *DsManager, op VerifOp, tokens map[string]int64) VerifOpObs{}

// GetChangesWatermark2: number of change-log entries (robust on an empty dataset, unlike GetChangesWatermark)
func (ds *Dataset) GetChangesWatermark2() (uint64, error) {
	var n uint64
	_, err := ds.ProcessChangesRaw(0, 0, false, func(b []byte) error {
		n++
		return nil
	})
	return n, err
}

var _ = sort.Strings
var _ = strings.HasPrefix
