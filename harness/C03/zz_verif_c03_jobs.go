//go:build verif

// Injected into package jobs: a relationship query run the way a JOB runs it - from inside a javascript transform that the
// scheduler builds (Scheduler.parseTransform -> server.NewContextualStore), through the JS helpers Query / PagedQuery.
package jobs

import (
	"encoding/base64"
	"encoding/json"
	"fmt"

	"github.com/DataDog/datadog-go/v5/statsd"
	"go.uber.org/zap"

	"github.com/mimiro-io/datahub/internal/server"
)

// A paged query that a transform starts, interrupts after the first page (callback returns false -> continuation tokens)
// and continues LATER by adding the tokens as Continuations to the SAME parameter object (DOCUMENTATION.md: Continuations
// "overrides all other attributes when set").  The transform (its goja runtime with the parameter object and the tokens)
// lives across the two calls.
var verifSessions = map[string]*JavascriptTransform{}

func verifPagesOf(r []*server.Entity) ([][]server.VerifRel, error) {
	if len(r) != 1 {
		return nil, fmt.Errorf("expected one result entity, got %d", len(r))
	}
	var raw string
	for k, v := range r[0].Properties {
		if len(k) >= 5 && k[len(k)-5:] == "pages" {
			raw, _ = v.(string)
		}
	}
	var pages [][][3]string
	if err := json.Unmarshal([]byte(raw), &pages); err != nil {
		return nil, fmt.Errorf("unparsable pages %q", raw)
	}
	out := make([][]server.VerifRel, 0, len(pages))
	for _, pg := range pages {
		page := []server.VerifRel{}
		for _, row := range pg {
			page = append(page, server.VerifRel{Start: row[0], Pred: row[1], ID: row[2]})
		}
		out = append(out, page)
	}
	return out, nil
}

// VerifC03JobSessionStart runs the first page; VerifC03JobSessionCont the rest.
func VerifC03JobSessionStart(store *server.Store, dsm *server.DsManager, id string, starts []string, pred string, inverse bool, datasets []string, pageSize int) ([][]server.VerifRel, error) {
	if datasets == nil {
		datasets = []string{}
	}
	sj, _ := json.Marshal(starts)
	pj, _ := json.Marshal(pred)
	dj, _ := json.Marshal(datasets)
	js := fmt.Sprintf(`var params = {StartURIs: %s, Via: %s, Inverse: %t, Datasets: %s};
	var pageSize = %d;
	var toks = null;
	var started = false;
	function transform_entities(entities) {
		var pages = [];
		var collect = function (more) { return function (batch) {
			var pg = [];
			for (const item of batch) { pg.push([item.StartURI, item.PredicateURI, GetId(item.RelatedEntity)]); }
			pages.push(pg);
			return more && pages.length < 60;
		}; };
		if (!started) {
			started = true;
			toks = PagedQuery(params, pageSize, collect(false));
		} else if (toks && toks.length > 0) {
			params.Continuations = toks;            // the same object, start parameters still set
			toks = PagedQuery(params, pageSize, collect(true));
		}
		var res = NewEntity();
		SetId(res, "http://v/verifresult");
		SetProperty(res, "http://v/", "pages", JSON.stringify(pages));
		return [res];
	}`, string(sj), string(pj), inverse, string(dj), pageSize)
	sched := &Scheduler{Logger: zap.NewNop().Sugar(), Store: store, DatasetManager: dsm}
	tr, err := sched.parseTransform(&JobConfiguration{Transform: map[string]interface{}{
		"Type": "JavascriptTransform",
		"Code": base64.StdEncoding.EncodeToString([]byte(js)),
	}})
	if err != nil || tr == nil {
		return nil, fmt.Errorf("could not build transform: %v", err)
	}
	jt, ok := tr.(*JavascriptTransform)
	if !ok {
		return nil, fmt.Errorf("not a javascript transform")
	}
	verifSessions[id] = jt
	r, err := jt.transformEntities(&Runner{statsdClient: &statsd.NoOpClient{}}, []*server.Entity{{ID: "http://v/verifinput"}}, "verif")
	if err != nil {
		return nil, err
	}
	return verifPagesOf(r)
}

func VerifC03JobSessionCont(id string) ([][]server.VerifRel, error) {
	jt := verifSessions[id]
	if jt == nil {
		return nil, fmt.Errorf("no session %s", id)
	}
	delete(verifSessions, id)
	r, err := jt.transformEntities(&Runner{statsdClient: &statsd.NoOpClient{}}, []*server.Entity{{ID: "http://v/verifinput"}}, "verif")
	if err != nil {
		return nil, err
	}
	return verifPagesOf(r)
}

// VerifC03JobQuery returns the pages of (start, predicate, related id); pageSize 0 = Query (one page), else PagedQuery.
func VerifC03JobQuery(store *server.Store, dsm *server.DsManager, starts []string, pred string, inverse bool, datasets []string, pageSize int) ([][]server.VerifRel, error) {
	if datasets == nil {
		datasets = []string{}
	}
	sj, _ := json.Marshal(starts)
	pj, _ := json.Marshal(pred)
	dj, _ := json.Marshal(datasets)
	js := fmt.Sprintf(`function transform_entities(entities) {
		var starts = %s, pred = %s, inverse = %t, dss = %s, pageSize = %d;
		var pages = [];
		if (pageSize == 0) {
			var pg = [];
			var rows = Query(starts, pred, inverse, dss);
			if (rows) { for (const row of rows) { pg.push([row[0], row[1], GetId(row[2])]); } }
			pages.push(pg);
		} else {
			var n = 0;
			PagedQuery({StartURIs: starts, Via: pred, Inverse: inverse, Datasets: dss}, pageSize, function (batch) {
				var pg = [];
				for (const item of batch) { pg.push([item.StartURI, item.PredicateURI, GetId(item.RelatedEntity)]); }
				pages.push(pg);
				n++;
				return n < 60;
			});
		}
		var res = NewEntity();
		SetId(res, "http://v/verifresult");
		SetProperty(res, "http://v/", "pages", JSON.stringify(pages));
		return [res];
	}`, string(sj), string(pj), inverse, string(dj), pageSize)
	sched := &Scheduler{Logger: zap.NewNop().Sugar(), Store: store, DatasetManager: dsm}
	tr, err := sched.parseTransform(&JobConfiguration{Transform: map[string]interface{}{
		"Type": "JavascriptTransform",
		"Code": base64.StdEncoding.EncodeToString([]byte(js)),
	}})
	if err != nil || tr == nil {
		return nil, fmt.Errorf("could not build transform: %v", err)
	}
	r, err := tr.transformEntities(&Runner{statsdClient: &statsd.NoOpClient{}}, []*server.Entity{{ID: "http://v/verifinput"}}, "verif")
	if err != nil {
		return nil, err
	}
	if len(r) != 1 {
		return nil, fmt.Errorf("expected one result entity, got %d", len(r))
	}
	var raw string
	for k, v := range r[0].Properties {
		if len(k) >= 5 && k[len(k)-5:] == "pages" {
			raw, _ = v.(string)
		}
	}
	var pages [][][3]string
	if err := json.Unmarshal([]byte(raw), &pages); err != nil {
		return nil, fmt.Errorf("unparsable pages %q", raw)
	}
	out := make([][]server.VerifRel, 0, len(pages))
	for _, pg := range pages {
		page := []server.VerifRel{}
		for _, row := range pg {
			page = append(page, server.VerifRel{Start: row[0], Pred: row[1], ID: row[2]})
		}
		out = append(out, page)
	}
	return out, nil
}
