//go:build verif

// Injected into package server by `go build -overlay` (never committed to /repo).
// Property C04: a history is executed in a CHILD process that dies (os.Exit(137)) at a named hook
// point / hit count (or is SIGKILLed by the parent); the parent reopens the same directory, dumps the
// store (sequence keys, id table, change log, latest view, listing, reference keys, counters), runs a
// tail of further writes and dumps again.
package server

import (
	"bufio"
	"encoding/binary"
	"encoding/json"
	"fmt"
	"os"
	"reflect"
	"runtime/debug"
	"sort"
	"strconv"
	"strings"

	"github.com/dgraph-io/badger/v4"

	"github.com/mimiro-io/datahub/internal/verifhook"
)

type VerifCrash struct {
	Point    string `json:"point,omitempty"`     // hook point name; the child exits 137 at its Hit-th occurrence
	Hit      int    `json:"hit,omitempty"`       //
	KillLine int    `json:"kill_line,omitempty"` // parent SIGKILLs the child once the trace has this many lines ...
	KillUs   int    `json:"kill_us,omitempty"`   // ... plus this many microseconds
}

type VerifC04Case struct {
	Datasets []string    `json:"datasets"`
	Ops      []VerifOp   `json:"ops"`  // executed by the child (batch | txn | restart)
	Crash    *VerifCrash `json:"crash,omitempty"`
	Tail     []VerifOp   `json:"tail"` // executed by the parent after reopening
	Pool     []string    `json:"pool"` // entity ids to look up
	Mgmt     *VerifMgmt  `json:"mgmt,omitempty"` // dataset-management case: after Ops the child runs this op and dies inside it
	Public   bool        `json:"public,omitempty"` // the datasets of the case are created with publicNamespaces
	Long     *VerifLong  `json:"long,omitempty"`   // long-batch case: after Ops the child stores ONE batch of N generated entities
	Refuse   *VerifRefuse `json:"refuse,omitempty"` // refused-batch case: while the LAST op of Ops stands at a hook point, another writer's batch is refused
}

// one batch of N small generated entities L0..L(N-1) through Dataset.StoreEntities (Go API), optionally ending in an entity with
// a nil reference (the whole batch must then be refused)
type VerifLong struct {
	Ds  string `json:"ds"`
	N   int    `json:"n"`
	Bad bool   `json:"bad,omitempty"`
}

// while the last write of Ops (on another dataset) stands at hook point At, a batch [Ents..., poison] on Ds is refused
type VerifRefuse struct {
	Ds   string     `json:"ds"`
	At   string     `json:"at"`
	Ents []VerifEnt `json:"ents"`
}

// counts of a dataset (long-batch cases: never list 65536+ entities)
type VerifCounts struct {
	Changes int    `json:"changes"`
	Latest  int    `json:"latest"`
	Dseq    int64  `json:"dseq"`
	MaxSeq  int64  `json:"maxseq"`
	First   string `json:"first,omitempty"` // id of the first / last entity of the latest view
	Last    string `json:"last,omitempty"`
	Found   bool   `json:"found"` // the LAST generated entity is found through its URI
}

type VerifLongObs struct {
	Base   int         `json:"base"`    // change entries before the long batch (from the child's trace)
	Err    string      `json:"err"`     // what the child's StoreEntities returned ("" = acknowledged, "?" = never returned)
	After  VerifCounts `json:"after"`   // after reopen
	Retry  string      `json:"retry"`   // error of storing the (repaired) long batch again
	Final  VerifCounts `json:"final"`
}

// dataset-management operation of a management case
type VerifMgmt struct {
	Op string `json:"op"` // create | delete | rename
	Ds string `json:"ds"`
	To string `json:"to,omitempty"`
}

type VerifReg struct {
	Name string `json:"name"`
	ID   uint32 `json:"id"`
}

// what the parent sees of the dataset registry
type VerifRegistry struct {
	Datasets []VerifReg `json:"datasets"` // registered datasets (without core.Dataset), by name
	Deleted  []uint32   `json:"deleted"`  // persisted deleted-datasets set
	NextID   uint32     `json:"next_id"`
}

type VerifMgmtObs struct {
	Err      string         `json:"err,omitempty"`
	Reg      VerifRegistry  `json:"reg"`      // after reopen
	After    *VerifDump     `json:"after"`    // registered datasets of the case, after reopen
	NewErr   string         `json:"new_err,omitempty"`
	Recreated bool          `json:"recreated"` // the deleted name was not registered after reopen and has been created again (+ one write)
	Reg2     VerifRegistry  `json:"reg2"`     // after creating the fresh dataset "zz" and writing one entity into it
	After2   *VerifDump     `json:"after2"`
	GcErr    string         `json:"gc_err,omitempty"`
	After3   *VerifDump     `json:"after3"`   // after GarbageCollector.Cleandeleted()
	Ref      *VerifDump     `json:"ref"`      // crash-free reference: the same writes on a fresh store, no management op
}

// one line of the child's trace file
type VerifTrace struct {
	Kind string `json:"k"`             // armed | op | share | hit | done | closed
	Op   int    `json:"op,omitempty"`  // op index
	Name string `json:"n,omitempty"`   // hook point
	Arg  string `json:"a,omitempty"`   // hook argument
	Lens []int  `json:"lens,omitempty"`
	Err  string `json:"err,omitempty"`
}

type VerifRefKey struct {
	Out  bool   `json:"out"` // outgoing family (else incoming)
	Src  string `json:"src"`
	Pred string `json:"pred"`
	Tgt  string `json:"tgt"`
	Del  bool   `json:"del"`
	Ds   string `json:"ds"`
	Time int64  `json:"time"`
}

type VerifDsDump struct {
	Name    string     `json:"name"`
	Dseq    int64      `json:"dseq"`  // raw value of the dataset's change-sequence key (-1: absent)
	Items   int64      `json:"items"` // items counter of the core.Dataset meta entity (-1: absent)
	Seqs    []int64    `json:"seqs"`  // raw change-log positions
	SeqTimes []int64   `json:"seqtimes"` // time in the version key each change entry points to
	SeqIds  []uint64   `json:"seqids"`
	Changes []VerifEnt `json:"changes"`
	Next    int64      `json:"next"`
	Latest  []VerifEnt `json:"latest"`
	Listing []VerifEnt `json:"listing"`
	Gets    []VerifEnt `json:"gets"` // scoped lookups of the pool ids that exist here
}

type VerifDump struct {
	Err      string            `json:"err,omitempty"`
	Idp      int64             `json:"idp"`      // raw value of the "uriids" sequence key after Open
	IdNext   int64             `json:"idnext"`   // volatile id sequence after Open
	IdLeased int64             `json:"idleased"` //
	Ids      map[string]uint64 `json:"ids"`      // URI -> internal id (whole table)
	Inv      map[string]string `json:"inv"`      // internal id -> URI (whole inverse table)
	Ds       []VerifDsDump     `json:"ds"`
	Refs     []VerifRefKey     `json:"refs"`
	Rel      [][]VerifRel      `json:"rel"` // per pool id: outgoing then incoming, all predicates, all datasets
	Ns       map[string]string `json:"ns"`
}

type VerifC04Obs struct {
	Outcome string       `json:"outcome"` // ok | setup-error | child-error
	Detail  string       `json:"detail,omitempty"`
	Exit    int          `json:"exit"`   // child's exit code (137 = died at the crash point, -1 = killed, 0 = ran to the end and closed)
	Trace   []VerifTrace `json:"trace"`  // the child's trace
	Base    *VerifDump   `json:"base,omitempty"`
	After   *VerifDump   `json:"after,omitempty"` // after reopen
	Tail    []VerifOpObs `json:"tail"`
	Final   *VerifDump   `json:"final,omitempty"` // after the tail
	InProg  int          `json:"inprog"`          // index of the write that was in progress when the child went away (-1: none)
	NDone   int          `json:"ndone"`           // number of ops the child had finished
	FirstOpen string     `json:"first_open,omitempty"` // the first NewStore after the child's death panicked: what was logged / raised
	TailShares [][]string `json:"tail_shares"`    // per tail op: datasets in the order ExecuteTransaction processed them
	RefA    *VerifDump   `json:"refA,omitempty"`  // crash-free run of the acknowledged prefix on a fresh store
	RefB    *VerifDump   `json:"refB,omitempty"`  // ... plus the interrupted write
	Mgmt    *VerifMgmtObs `json:"mgmt,omitempty"`
	Long    *VerifLongObs `json:"long,omitempty"`
	Refused string        `json:"refused,omitempty"` // refused-batch case: the error the refused writer got
}

// index of the op that was started but not finished according to the trace, else -1
func verifInProgress(tr []VerifTrace) int {
	cur := -1
	for _, t := range tr {
		switch t.Kind {
		case "op":
			cur = t.Op
		case "done":
			cur = -1
		}
	}
	return cur
}

// crash-free reference: the same ops on a fresh store in this process
func verifReference(c VerifC04Case, dir string, ndone int, inprog int) (a *VerifDump, b *VerifDump) {
	_ = os.MkdirAll(dir, 0o755)
	defer os.RemoveAll(dir)
	h := &verifHub{dir: dir}
	h.open()
	defer h.close()
	for _, d := range c.Datasets {
		if _, err := h.dsm.CreateDataset(d, verifCreateCfg(c.Public)); err != nil {
			return nil, nil
		}
	}
	times := make(map[int]int64)
	tokens := make(map[string]int64)
	n := ndone
	if inprog >= 0 {
		n = inprog
	}
	for i := 0; i < n && i < len(c.Ops); i++ {
		if c.Ops[i].Op == "restart" || c.Ops[i].RejectIn != "" {
			continue // a refused transaction must leave nothing: the reference run does not even attempt it
		}
		verifDoOp(h, c.Ops[i], i, times, tokens)
	}
	a = verifDump(h, c)
	if inprog >= 0 {
		verifDoOp(h, c.Ops[inprog], inprog, times, tokens)
		b = verifDump(h, c)
	}
	return
}

// the frames of package server on the panicking goroutine's stack
func verifStackTop() string {
	lines := strings.Split(string(debug.Stack()), "\n")
	out := []string{}
	for i := 0; i+1 < len(lines); i++ {
		if strings.Contains(lines[i], "internal/server.") && !strings.Contains(lines[i], "verifStackTop") {
			out = append(out, strings.TrimSpace(lines[i])+" "+strings.TrimSpace(lines[i+1]))
		}
	}
	if len(out) > 6 {
		out = out[:6]
	}
	return strings.Join(out, " <- ")
}

func verifCreateCfg(public bool) *CreateDatasetConfig {
	if !public {
		return nil
	}
	return &CreateDatasetConfig{PublicNamespaces: []string{"http://v/"}}
}

// the generated entities of a long batch
func verifLongEnts(store *Store, l *VerifLong, bad bool) []*Entity {
	prefix, _ := store.NamespaceManager.AssertPrefixMappingForExpansion("http://v/")
	ents := make([]*Entity, 0, l.N+1)
	for i := 0; i < l.N; i++ {
		e := NewEntity(fmt.Sprintf("%s:L%d", prefix, i), 0)
		e.Properties[prefix+":p1"] = i
		ents = append(ents, e)
	}
	if bad {
		p := NewEntity(prefix+":poison", 0)
		p.References[prefix+":r1"] = nil
		ents = append(ents, p)
	}
	return ents
}

func verifCounts(h *verifHub, name string, l *VerifLong) (c VerifCounts) {
	c.Dseq, c.MaxSeq = -1, -1
	ds := h.dsm.GetDataset(name)
	if ds == nil {
		return
	}
	key := make([]byte, 6)
	binary.BigEndian.PutUint16(key, SysDatasetsSequences)
	binary.BigEndian.PutUint32(key[2:], ds.InternalID)
	c.Dseq = verifRawU64(h.store, key)
	_ = h.store.database.View(func(txn *badger.Txn) error {
		prefix := make([]byte, 6)
		binary.BigEndian.PutUint16(prefix, DatasetEntityChangeLog)
		binary.BigEndian.PutUint32(prefix[2:], ds.InternalID)
		opts := badger.DefaultIteratorOptions
		opts.PrefetchValues = false
		it := txn.NewIterator(opts)
		defer it.Close()
		for it.Seek(prefix); it.ValidForPrefix(prefix); it.Next() {
			k := it.Item().Key()
			if len(k) == 22 {
				c.Changes++
				c.MaxSeq = int64(binary.BigEndian.Uint64(k[6:]))
			}
		}
		return nil
	})
	_, _ = ds.MapEntities("", 0, func(e *Entity) error {
		if c.Latest == 0 {
			c.First = e.ID
		}
		c.Last = e.ID
		c.Latest++
		return nil
	})
	if l != nil && l.N > 0 {
		if e, err := h.store.GetEntity(fmt.Sprintf("http://v/L%d", l.N-1), []string{name}, true); err == nil && e != nil && len(e.Properties) > 0 {
			c.Found = true
		}
	}
	return
}

func verifTraceAppend(f *os.File, t VerifTrace) {
	b, _ := json.Marshal(t)
	_, _ = f.Write(append(b, '\n'))
}

// VerifC04Child runs the prefix history; never returns.
func VerifC04Child(c VerifC04Case, dir string) {
	tf, err := os.OpenFile(dir+"/trace.jsonl", os.O_CREATE|os.O_WRONLY|os.O_APPEND, 0o644)
	if err != nil {
		fmt.Fprintln(os.Stderr, err)
		os.Exit(3)
	}
	h := &verifHub{dir: dir}
	h.open()
	for _, d := range c.Datasets {
		if _, err := h.dsm.CreateDataset(d, verifCreateCfg(c.Public)); err != nil {
			fmt.Fprintln(os.Stderr, "setup:", err)
			os.Exit(4)
		}
	}
	// base dump (before the history), then restart so that the history starts from a clean lease
	b, _ := json.Marshal(verifDump(h, c))
	_ = os.WriteFile(dir+"/base.json", b, 0o644)

	point, hit := "", 0
	if c.Crash != nil {
		point, hit = c.Crash.Point, c.Crash.Hit
	}
	if env := os.Getenv("VERIF_CRASH"); env != "" {
		if i := strings.LastIndex(env, ":"); i > 0 {
			point = env[:i]
			hit, _ = strconv.Atoi(env[i+1:])
		}
	}
	count := 0
	verifhook.SetHandler(func(name, arg string) {
		if strings.HasPrefix(name, "lock.") {
			return
		}
		verifTraceAppend(tf, VerifTrace{Kind: "hit", Name: name, Arg: arg})
		if name == point {
			count++
			if count == hit {
				os.Exit(137)
			}
		}
	})
	h.shares = func(ds string) {
		if ds != "core.Dataset" {
			verifTraceAppend(tf, VerifTrace{Kind: "share", Arg: ds})
		}
	}
	verifTraceAppend(tf, VerifTrace{Kind: "armed"})
	times := make(map[int]int64)
	tokens := make(map[string]int64)
	curOp := -1
	if c.Refuse != nil {
		// at the hook point of the LAST op (a writer on another dataset holding uncommitted new ids) a second writer's batch on
		// c.Refuse.Ds is refused - run inside the hook, i.e. exactly at that instant of the first writer
		inside := false
		fired := false
		verifhook.SetHandler(func(name, arg string) {
			if strings.HasPrefix(name, "lock.") || inside {
				return
			}
			verifTraceAppend(tf, VerifTrace{Kind: "hit", Name: name, Arg: arg})
			if name == c.Refuse.At && !fired && curOp == len(c.Ops)-1 && arg != c.Refuse.Ds && arg != "core.Dataset" {
				fired = true
				inside = true
				e := "no dataset"
				if ds := h.dsm.GetDataset(c.Refuse.Ds); ds != nil {
					e = ""
					ents, err := verifParse(h.store, c.Refuse.Ents)
					if err != nil {
						e = "parse: " + err.Error()
					} else {
						bad := NewEntity("ns3:poison", 0)
						bad.References["ns3:r1"] = nil
						if err := ds.StoreEntities(append(ents, bad)); err != nil {
							e = err.Error()
						}
					}
				}
				inside = false
				verifTraceAppend(tf, VerifTrace{Kind: "refused", Arg: c.Refuse.Ds, Err: e})
			}
		})
	}
	for i, op := range c.Ops {
		curOp = i
		verifTraceAppend(tf, VerifTrace{Kind: "op", Op: i, Lens: verifLens(h, op)})
		oo := verifDoOp(h, op, i, times, tokens)
		verifTraceAppend(tf, VerifTrace{Kind: "done", Op: i, Err: oo.Err + oo.Panic})
	}
	if c.Long != nil {
		if ds := h.dsm.GetDataset(c.Long.Ds); ds != nil {
			n, _ := ds.GetChangesWatermark2()
			ents := verifLongEnts(h.store, c.Long, c.Long.Bad)
			verifTraceAppend(tf, VerifTrace{Kind: "long", Op: int(n)})
			e := ""
			if err := ds.StoreEntities(ents); err != nil {
				e = err.Error()
			}
			verifTraceAppend(tf, VerifTrace{Kind: "longdone", Err: e})
		}
	}
	if c.Mgmt != nil {
		verifTraceAppend(tf, VerifTrace{Kind: "mgmt", Arg: c.Mgmt.Op})
		var err error
		switch c.Mgmt.Op {
		case "create":
			_, err = h.dsm.CreateDataset(c.Mgmt.Ds, verifCreateCfg(c.Public))
		case "delete":
			err = h.dsm.DeleteDataset(c.Mgmt.Ds)
		case "rename":
			_, err = h.dsm.UpdateDataset(c.Mgmt.Ds, &UpdateDatasetConfig{ID: c.Mgmt.To})
		}
		e := ""
		if err != nil {
			e = err.Error()
		}
		verifTraceAppend(tf, VerifTrace{Kind: "mgmtdone", Err: e})
	}
	verifhook.SetHandler(nil)
	h.close()
	verifTraceAppend(tf, VerifTrace{Kind: "closed"})
	os.Exit(0)
}

// serialized lengths of the entities an op posts (the model's c_len), computed before the op runs
func verifLens(h *verifHub, op VerifOp) []int {
	lens := []int{}
	add := func(ents []VerifEnt) {
		es, err := verifParse(h.store, ents)
		if err != nil {
			return
		}
		for _, e := range es {
			lens = append(lens, verifLen(e))
		}
	}
	switch op.Op {
	case "batch":
		add(op.Ents)
	case "txn":
		for _, s := range op.Sets {
			add(s.Ents)
		}
	}
	return lens
}

func verifReadTrace(dir string) []VerifTrace {
	res := []VerifTrace{}
	f, err := os.Open(dir + "/trace.jsonl")
	if err != nil {
		return res
	}
	defer f.Close()
	sc := bufio.NewScanner(f)
	sc.Buffer(make([]byte, 1<<20), 1<<26)
	for sc.Scan() {
		var t VerifTrace
		if json.Unmarshal(sc.Bytes(), &t) == nil {
			res = append(res, t)
		}
	}
	return res
}

func verifRawU64(store *Store, key []byte) int64 {
	var v int64 = -1
	_ = store.database.View(func(txn *badger.Txn) error {
		item, err := txn.Get(key)
		if err != nil {
			return nil
		}
		return item.Value(func(val []byte) error {
			if len(val) == 8 {
				v = int64(binary.BigEndian.Uint64(val))
			}
			return nil
		})
	})
	return v
}

func verifSeqField(seq *badger.Sequence, name string) int64 {
	defer func() { _ = recover() }()
	return int64(reflect.ValueOf(seq).Elem().FieldByName(name).Uint())
}

func verifDump(h *verifHub, c VerifC04Case) *VerifDump {
	store := h.store
	d := &VerifDump{Ids: map[string]uint64{}, Inv: map[string]string{}}
	d.Idp = verifRawU64(store, []byte("uriids"))
	d.IdNext = verifSeqField(store.idseq, "next")
	d.IdLeased = verifSeqField(store.idseq, "leased")
	// id tables
	_ = store.database.View(func(txn *badger.Txn) error {
		for _, fam := range []uint16{URIToIDIndexID, IDToURIIndexID} {
			prefix := make([]byte, 2)
			binary.BigEndian.PutUint16(prefix, fam)
			it := txn.NewIterator(badger.DefaultIteratorOptions)
			for it.Seek(prefix); it.ValidForPrefix(prefix); it.Next() {
				k := it.Item().KeyCopy(nil)
				v, _ := it.Item().ValueCopy(nil)
				if fam == URIToIDIndexID {
					if len(v) == 8 {
						d.Ids[string(k[2:])] = binary.BigEndian.Uint64(v)
					}
				} else if len(k) == 10 {
					d.Inv[strconv.FormatUint(binary.BigEndian.Uint64(k[2:]), 10)] = string(v)
				}
			}
			it.Close()
		}
		return nil
	})
	uriOf := func(id uint64) string {
		if u, ok := d.Inv[strconv.FormatUint(id, 10)]; ok {
			return u
		}
		return "?" + strconv.FormatUint(id, 10)
	}
	dsName := map[uint32]string{}
	for _, name := range c.Datasets {
		ds := h.dsm.GetDataset(name)
		dd := VerifDsDump{Name: name, Dseq: -1, Items: -1, Seqs: []int64{}, SeqIds: []uint64{}, Changes: []VerifEnt{},
			Latest: []VerifEnt{}, Listing: []VerifEnt{}, Gets: []VerifEnt{}}
		if ds == nil {
			d.Err += "no dataset " + name + ";"
			d.Ds = append(d.Ds, dd)
			continue
		}
		dsName[ds.InternalID] = name
		key := make([]byte, 6)
		binary.BigEndian.PutUint16(key, SysDatasetsSequences)
		binary.BigEndian.PutUint32(key[2:], ds.InternalID)
		dd.Dseq = verifRawU64(store, key)
		// counter
		if info, err := store.NamespaceManager.GetDatasetNamespaceInfo(); err == nil {
			if e, err := store.GetEntity(info.DatasetPrefix+":"+name, []string{"core.Dataset"}, true); err == nil && e != nil {
				if f, ok := e.Properties[info.ItemsKey].(float64); ok {
					dd.Items = int64(f)
				}
			}
		}
		// raw change log keys
		_ = store.database.View(func(txn *badger.Txn) error {
			prefix := make([]byte, 6)
			binary.BigEndian.PutUint16(prefix, DatasetEntityChangeLog)
			binary.BigEndian.PutUint32(prefix[2:], ds.InternalID)
			it := txn.NewIterator(badger.DefaultIteratorOptions)
			defer it.Close()
			for it.Seek(prefix); it.ValidForPrefix(prefix); it.Next() {
				k := it.Item().Key()
				if len(k) == 22 {
					dd.Seqs = append(dd.Seqs, int64(binary.BigEndian.Uint64(k[6:])))
					dd.SeqIds = append(dd.SeqIds, binary.BigEndian.Uint64(k[14:]))
					var kt int64 = -1
					if v, err := it.Item().ValueCopy(nil); err == nil && len(v) == 24 {
						kt = int64(binary.BigEndian.Uint64(v[14:]))
					}
					dd.SeqTimes = append(dd.SeqTimes, kt)
				}
			}
			return nil
		})
		next, err := ds.ProcessChanges(0, 0, false, func(e *Entity) { dd.Changes = append(dd.Changes, verifOutEnt(e)) })
		if err != nil {
			d.Err += "changes " + name + ": " + err.Error() + ";"
		}
		dd.Next = int64(next)
		if _, err := ds.ProcessChanges(0, 0, true, func(e *Entity) { dd.Latest = append(dd.Latest, verifOutEnt(e)) }); err != nil {
			d.Err += "latest " + name + ": " + err.Error() + ";"
		}
		if _, err := ds.MapEntities("", 0, func(e *Entity) error { dd.Listing = append(dd.Listing, verifOutEnt(e)); return nil }); err != nil {
			d.Err += "listing " + name + ": " + err.Error() + ";"
		}
		for _, id := range c.Pool {
			e, err := store.GetEntity("http://v/"+id, []string{name}, true)
			if err != nil {
				d.Err += "get " + id + ": " + err.Error() + ";"
			} else if e != nil && (len(e.Properties) > 0 || len(e.References) > 0 || e.IsDeleted) {
				dd.Gets = append(dd.Gets, verifOutEnt(e))
			}
		}
		d.Ds = append(d.Ds, dd)
	}
	// reference keys of both families
	_ = store.database.View(func(txn *badger.Txn) error {
		for _, fam := range []uint16{OutgoingRefIndex, IncomingRefIndex} {
			prefix := make([]byte, 2)
			binary.BigEndian.PutUint16(prefix, fam)
			opts := badger.DefaultIteratorOptions
			opts.PrefetchValues = false
			it := txn.NewIterator(opts)
			for it.Seek(prefix); it.ValidForPrefix(prefix); it.Next() {
				k := it.Item().Key()
				if len(k) != 40 {
					continue
				}
				dsid := binary.BigEndian.Uint32(k[36:])
				name, ok := dsName[dsid]
				if !ok {
					continue // core.Dataset etc.
				}
				r := VerifRefKey{Out: fam == OutgoingRefIndex, Del: binary.BigEndian.Uint16(k[34:]) != 0, Ds: name}
				if r.Out {
					r.Src = uriOf(binary.BigEndian.Uint64(k[2:]))
					r.Time = int64(binary.BigEndian.Uint64(k[10:]))
					r.Pred = uriOf(binary.BigEndian.Uint64(k[18:]))
					r.Tgt = uriOf(binary.BigEndian.Uint64(k[26:]))
				} else {
					r.Tgt = uriOf(binary.BigEndian.Uint64(k[2:]))
					r.Src = uriOf(binary.BigEndian.Uint64(k[10:]))
					r.Time = int64(binary.BigEndian.Uint64(k[18:]))
					r.Pred = uriOf(binary.BigEndian.Uint64(k[26:]))
				}
				d.Refs = append(d.Refs, r)
			}
			it.Close()
		}
		return nil
	})
	// relationship queries, all predicates, all datasets of the case
	for _, id := range c.Pool {
		for _, inverse := range []bool{false, true} {
			page := []VerifRel{}
			func() {
				defer func() {
					if r := recover(); r != nil {
						d.Err += fmt.Sprint("related panic ", r, ";")
					}
				}()
				froms, err := store.ToRelatedFrom([]string{"http://v/" + id}, "*", inverse, c.Datasets, 1<<62)
				if err != nil {
					return
				}
				for _, f := range froms {
					if f == nil {
						return
					}
				}
				res, err := store.GetManyRelatedEntitiesAtTime(froms, 0, true)
				if err != nil {
					d.Err += "related " + id + ": " + err.Error() + ";"
					return
				}
				for _, r := range res.Relations {
					rid := ""
					if r.RelatedEntity != nil {
						rid = r.RelatedEntity.ID
					}
					page = append(page, VerifRel{Start: r.StartURI, Pred: r.PredicateURI, ID: rid})
				}
			}()
			sort.Slice(page, func(i, j int) bool {
				if page[i].Pred != page[j].Pred {
					return page[i].Pred < page[j].Pred
				}
				return page[i].ID < page[j].ID
			})
			d.Rel = append(d.Rel, page)
		}
	}
	ns := h.store.NamespaceManager.GetPrefixToExpansionMap()
	d.Ns = make(map[string]string)
	for k, v := range ns {
		d.Ns[k] = v
	}
	return d
}

// VerifC04Parent is called after the child is gone: reopen, dump, run the tail, dump.
func VerifC04Parent(c VerifC04Case, dir string, exit int) (obs VerifC04Obs) {
	obs.Outcome = "ok"
	obs.Exit = exit
	obs.Trace = verifReadTrace(dir)
	obs.Tail = []VerifOpObs{}
	obs.InProg = verifInProgress(obs.Trace)
	for _, t := range obs.Trace {
		if t.Kind == "done" {
			obs.NDone++
		}
	}
	if exit == 0 {
		obs.InProg = -1
		obs.NDone = len(c.Ops)
	}
	if b, err := os.ReadFile(dir + "/base.json"); err == nil {
		var bd VerifDump
		if json.Unmarshal(b, &bd) == nil {
			obs.Base = &bd
		}
	}
	if obs.Base == nil {
		obs.Outcome = "child-error"
		obs.Detail = "no base dump"
		return
	}
	defer func() {
		if r := recover(); r != nil {
			obs.Outcome = "reopen-panic"
			obs.Detail = fmt.Sprint(r) + " | " + verifStackTop()
			// NewStore swallows the error of badger.Open: ask badger directly why it does not open
			if db, err := badger.Open(badger.DefaultOptions(dir + "/store").WithLogger(nil)); err != nil {
				obs.Detail += " | badger.Open: " + err.Error()
			} else {
				_ = db.Close()
				obs.Detail += " | badger.Open alone succeeds"
			}
		}
	}()
	h := &verifHub{dir: dir}
	first := func() (msg string) {
		defer func() {
			if r := recover(); r != nil {
				msg = fmt.Sprint(r)
				if h.errlog != nil {
					l := h.errlog.String()
					if i := strings.Index(l, "\n"); i > 0 {
						l = l[:i]
					}
					msg += " | hub error log: " + l
				}
				if msg == "" {
					msg = "panic"
				}
			}
		}()
		h.open()
		return ""
	}()
	if first != "" {
		// NewStore swallowed an error of badger.Open and went on with a nil database; try once more, as a supervisor would
		obs.FirstOpen = first
		h = &verifHub{dir: dir}
		h.open()
	}
	defer h.close()
	var cur []string
	h.shares = func(ds string) {
		if ds != "core.Dataset" {
			cur = append(cur, ds)
		}
	}
	obs.After = verifDump(h, c)
	times := make(map[int]int64)
	tokens := make(map[string]int64)
	for i, op := range c.Tail {
		if op.Op == "retry" { // the client repeats the write that was never acknowledged
			if obs.InProg < 0 {
				obs.Tail = append(obs.Tail, VerifOpObs{Err: "nothing to retry"})
				obs.TailShares = append(obs.TailShares, nil)
				continue
			}
			op = c.Ops[obs.InProg]
		}
		lens := verifLens(h, op)
		cur = nil
		oo := verifDoOp(h, op, i, times, tokens)
		oo.Lens = lens
		obs.Tail = append(obs.Tail, oo)
		obs.TailShares = append(obs.TailShares, cur)
	}
	obs.Final = verifDump(h, c)
	h.close()
	obs.RefA, obs.RefB = verifReference(c, dir+"-ref", obs.NDone, obs.InProg)
	return
}

func verifRegistry(h *verifHub) VerifRegistry {
	r := VerifRegistry{Datasets: []VerifReg{}, Deleted: []uint32{}, NextID: h.store.nextDatasetID}
	for _, n := range h.dsm.GetDatasetNames() {
		if n.Name == "core.Dataset" {
			continue
		}
		if ds := h.dsm.GetDataset(n.Name); ds != nil {
			r.Datasets = append(r.Datasets, VerifReg{Name: n.Name, ID: ds.InternalID})
		}
	}
	sort.Slice(r.Datasets, func(i, j int) bool { return r.Datasets[i].Name < r.Datasets[j].Name })
	for id, del := range h.store.deletedDatasets {
		if del {
			r.Deleted = append(r.Deleted, id)
		}
	}
	sort.Slice(r.Deleted, func(i, j int) bool { return r.Deleted[i] < r.Deleted[j] })
	return r
}

func verifRegNames(r VerifRegistry) []string {
	names := []string{}
	for _, d := range r.Datasets {
		names = append(names, d.Name)
	}
	return names
}

// VerifC04ParentMgmt: the child died inside (or finished) a dataset-management op: reopen, look at the registry and at every
// registered dataset, create a fresh dataset and write to it, run the garbage collector, look again.
func VerifC04ParentMgmt(c VerifC04Case, dir string, exit int) (obs VerifC04Obs) {
	obs.Outcome = "ok"
	obs.Exit = exit
	obs.Trace = verifReadTrace(dir)
	obs.Tail = []VerifOpObs{}
	obs.InProg = -1
	m := &VerifMgmtObs{}
	obs.Mgmt = m
	defer func() {
		if r := recover(); r != nil {
			obs.Outcome = "reopen-panic"
			obs.Detail = fmt.Sprint(r) + " | " + verifStackTop()
		}
	}()
	h := &verifHub{dir: dir}
	first := func() (msg string) {
		defer func() {
			if r := recover(); r != nil {
				msg = fmt.Sprint(r)
				if h.errlog != nil {
					msg += " | hub error log: " + strings.SplitN(h.errlog.String(), "\n", 2)[0]
				}
			}
		}()
		h.open()
		return ""
	}()
	if first != "" {
		obs.FirstOpen = first
		h = &verifHub{dir: dir}
		h.open()
	}
	defer h.close()
	cc := c
	m.Reg = verifRegistry(h)
	cc.Datasets = verifRegNames(m.Reg)
	m.After = verifDump(h, cc)
	// an acknowledged-or-completed delete: the name is free again; a client that creates it again and writes into it must keep that batch
	if c.Mgmt != nil && c.Mgmt.Op == "delete" && h.dsm.GetDataset(c.Mgmt.Ds) == nil {
		if ds, err := h.dsm.CreateDataset(c.Mgmt.Ds, verifCreateCfg(c.Public)); err != nil {
			m.NewErr = "re-create: " + err.Error()
		} else {
			ents, err := verifParse(h.store, []VerifEnt{{ID: "w1", Props: map[string]interface{}{"p1": "w"}, Refs: map[string]interface{}{}}})
			if err == nil {
				err = ds.StoreEntities(ents)
			}
			if err != nil {
				m.NewErr = "re-create write: " + err.Error()
			}
			m.Recreated = true
		}
	}
	// a fresh dataset must get a fresh internal id and hold exactly what is written into it
	if _, err := h.dsm.CreateDataset("zz", nil); err != nil {
		m.NewErr = "create: " + err.Error()
	} else if ds := h.dsm.GetDataset("zz"); ds != nil {
		ents, err := verifParse(h.store, []VerifEnt{{ID: "z1", Props: map[string]interface{}{"p1": "z"}, Refs: map[string]interface{}{}}})
		if err == nil {
			err = ds.StoreEntities(ents)
		}
		if err != nil {
			m.NewErr = "write: " + err.Error()
		}
	}
	m.Reg2 = verifRegistry(h)
	cc.Datasets = verifRegNames(m.Reg2)
	m.After2 = verifDump(h, cc)
	gc := NewGarbageCollector(h.store, h.cfg)
	if err := gc.Cleandeleted(); err != nil {
		m.GcErr = err.Error()
	}
	m.After3 = verifDump(h, cc)
	h.close()
	// reference: the writes alone
	func() {
		rd := dir + "-ref"
		_ = os.MkdirAll(rd, 0o755)
		defer os.RemoveAll(rd)
		rh := &verifHub{dir: rd}
		rh.open()
		defer rh.close()
		for _, d := range c.Datasets {
			if _, err := rh.dsm.CreateDataset(d, verifCreateCfg(c.Public)); err != nil {
				m.Err += "ref setup: " + err.Error() + ";"
				return
			}
		}
		times := make(map[int]int64)
		tokens := make(map[string]int64)
		for i, op := range c.Ops {
			if op.Op == "restart" {
				continue
			}
			verifDoOp(rh, op, i, times, tokens)
		}
		rc := c
		m.Ref = verifDump(rh, rc)
	}()
	return
}

// VerifC04ParentLong: the child stored (or died in, or was refused) one long batch: reopen, count, store the repaired batch, count.
func VerifC04ParentLong(c VerifC04Case, dir string, exit int) (obs VerifC04Obs) {
	obs.Outcome = "ok"
	obs.Exit = exit
	obs.Trace = verifReadTrace(dir)
	obs.Tail = []VerifOpObs{}
	obs.InProg = -1
	l := &VerifLongObs{Err: "?", Base: -1}
	obs.Long = l
	for _, t := range obs.Trace {
		if t.Kind == "long" {
			l.Base = t.Op
		}
		if t.Kind == "longdone" {
			l.Err = t.Err
		}
	}
	defer func() {
		if r := recover(); r != nil {
			obs.Outcome = "reopen-panic"
			obs.Detail = fmt.Sprint(r) + " | " + verifStackTop()
		}
	}()
	h := &verifHub{dir: dir}
	first := func() (msg string) {
		defer func() {
			if r := recover(); r != nil {
				msg = fmt.Sprint(r)
				if h.errlog != nil {
					msg += " | hub error log: " + strings.SplitN(h.errlog.String(), "\n", 2)[0]
				}
			}
		}()
		h.open()
		return ""
	}()
	if first != "" {
		obs.FirstOpen = first
		h = &verifHub{dir: dir}
		h.open()
	}
	defer h.close()
	l.After = verifCounts(h, c.Long.Ds, c.Long)
	if ds := h.dsm.GetDataset(c.Long.Ds); ds != nil {
		if err := ds.StoreEntities(verifLongEnts(h.store, c.Long, false)); err != nil {
			l.Retry = err.Error()
		}
	} else {
		l.Retry = "no dataset"
	}
	l.Final = verifCounts(h, c.Long.Ds, c.Long)
	return
}
