//go:build verif

// Injected into package server by `go build -overlay` (never committed to /repo).
// Own copy of harness/store/zz_verif_store.go (the interpreter for histories of store operations)
// for property C04; the crash / reopen / dump machinery is in zz_verif_c04_crash.go.
package server

import (
	"bytes"
	"encoding/json"
	"fmt"
	"os"
	"sort"
	"strings"
	"time"

	"github.com/DataDog/datadog-go/v5/statsd"
	"go.uber.org/zap"
	"go.uber.org/zap/zapcore"

	"github.com/mimiro-io/datahub/internal/conf"
)

type VerifEnt struct {
	ID      string                 `json:"id"`
	Deleted bool                   `json:"deleted,omitempty"`
	Props   map[string]interface{} `json:"props"`
	Refs    map[string]interface{} `json:"refs"`
	Iid     uint64                 `json:"iid,omitempty"` // internal id (observations only)
	Rec     int64                  `json:"rec,omitempty"` // recorded = commit time (observations only)
}

type VerifSet struct {
	Ds   string     `json:"ds"`
	Ents []VerifEnt `json:"ents"`
}

type VerifTimeRef struct {
	AfterOp int  `json:"after_op"` // index of a write op of this history
	Exact   bool `json:"exact"`    // exactly the commit time of that op (if it stored anything), else an instant after it
}

type VerifOp struct {
	Op       string        `json:"op"` // batch | txn | changes | entities | get | related | create | restart
	Ds       string        `json:"ds,omitempty"`
	Ents     []VerifEnt    `json:"ents,omitempty"`
	Sets     []VerifSet    `json:"sets,omitempty"`
	Since    int64         `json:"since,omitempty"`
	Reader   string        `json:"reader,omitempty"` // token-carrying reader: since is taken from its last token
	Limit    int           `json:"limit,omitempty"`
	Limits   []int         `json:"limits,omitempty"` // entities/related: limit per page, last one repeated
	Latest   bool          `json:"latest,omitempty"`
	Reverse  bool          `json:"reverse,omitempty"`
	RejectIn string        `json:"reject_in,omitempty"` // txn: an entity with a nil reference is appended to THIS dataset's list; the whole transaction must be refused
	ID       string        `json:"id,omitempty"`
	Datasets []string      `json:"datasets,omitempty"`
	Merge    bool          `json:"merge,omitempty"`
	Pred     string        `json:"pred,omitempty"`
	Inverse  bool          `json:"inverse,omitempty"`
	Starts   []string      `json:"starts,omitempty"`
	At       *VerifTimeRef `json:"at,omitempty"`
}

type VerifCase struct {
	Datasets []string  `json:"datasets"`
	Ops      []VerifOp `json:"ops"`
}

type VerifOut struct {
	Ent *VerifEnt `json:"ent,omitempty"`
}

type VerifRel struct {
	Start string `json:"start"`
	Pred  string `json:"pred"`
	ID    string `json:"id"`
}

type VerifOpObs struct {
	Err     string       `json:"err,omitempty"`
	Panic   string       `json:"panic,omitempty"`
	Lens    []int        `json:"lens,omitempty"`  // batch/txn: serialized length of each posted entity (internalId, recorded zeroed)
	Time    int64        `json:"time,omitempty"`  // batch/txn: commit time (recorded) if anything was stored
	Ents    []VerifEnt   `json:"ents,omitempty"`  // changes / get
	Next    int64        `json:"next,omitempty"`  // changes: next token
	Pages   [][]VerifEnt `json:"pages,omitempty"` // entities
	RPages  [][]VerifRel `json:"rpages,omitempty"`
	Found   bool         `json:"found,omitempty"`
	NewSeqs int          `json:"newseqs,omitempty"`
}

type VerifObs struct {
	Outcome string            `json:"outcome"`
	Detail  string            `json:"detail,omitempty"`
	Ops     []VerifOpObs      `json:"ops"`
	Ns      map[string]string `json:"ns"`
}

func verifPayload(ents []VerifEnt) []byte {
	var b bytes.Buffer
	b.WriteString(`[{"id":"@context","namespaces":{"_":"http://v/"}}`)
	for _, e := range ents {
		if e.Props == nil {
			e.Props = map[string]interface{}{}
		}
		if e.Refs == nil {
			e.Refs = map[string]interface{}{}
		}
		rec := e.Rec
		e.Rec, e.Iid = 0, 0
		j, _ := json.Marshal(e)
		if rec != 0 { // as a hub-to-hub sync sends it: the body parser keeps "recorded" on the entity
			j = append([]byte(fmt.Sprintf(`{"recorded":%d,`, rec)), j[1:]...)
		}
		b.WriteString(",")
		b.Write(j)
	}
	b.WriteString("]")
	return b.Bytes()
}

func verifParse(store *Store, ents []VerifEnt) ([]*Entity, error) {
	esp := NewEntityStreamParser(store)
	res := make([]*Entity, 0)
	err := esp.ParseStream(bytes.NewReader(verifPayload(ents)), func(e *Entity) error {
		res = append(res, e)
		return nil
	})
	return res, err
}

func verifLen(e *Entity) int {
	c := *e
	c.InternalID = 0
	c.Recorded = 0
	j, _ := json.Marshal(&c)
	return len(j)
}

func verifOutEnt(e *Entity) VerifEnt {
	// round trip through JSON so that nested entities etc. come out as plain maps
	j, _ := json.Marshal(e)
	var m struct {
		ID      string                 `json:"id"`
		Deleted bool                   `json:"deleted"`
		Props   map[string]interface{} `json:"props"`
		Refs    map[string]interface{} `json:"refs"`
	}
	_ = json.Unmarshal(j, &m)
	return VerifEnt{ID: m.ID, Deleted: m.Deleted, Props: m.Props, Refs: m.Refs, Iid: e.InternalID, Rec: int64(e.Recorded)}
}

type verifHub struct {
	dir    string
	store  *Store
	dsm    *DsManager
	errlog *bytes.Buffer // error-level log lines of the hub (NewStore swallows badger.Open's error)
	shares func(ds string) // called when StoreEntitiesWithTransaction starts on a dataset (via the statsd client)
	cfg    *conf.Config
}

// statsd client that reports the "ds.added.items" counter StoreEntitiesWithTransaction emits first thing: the only way to
// see in which order ExecuteTransaction's `range datasets` (a Go map) processes the datasets of a transaction
type verifStatsd struct {
	statsd.NoOpClient
	h *verifHub
}

func (c *verifStatsd) Count(name string, value int64, tags []string, rate float64) error {
	if name == "ds.added.items" && c.h.shares != nil {
		for _, t := range tags {
			if strings.HasPrefix(t, "dataset:") {
				c.h.shares(t[len("dataset:"):])
			}
		}
	}
	return nil
}

type verifSyncBuf struct{ b *bytes.Buffer }

func (w verifSyncBuf) Write(p []byte) (int, error) { return w.b.Write(p) }
func (w verifSyncBuf) Sync() error                 { return nil }

func (h *verifHub) open() {
	h.errlog = &bytes.Buffer{}
	core := zapcore.NewCore(zapcore.NewConsoleEncoder(zap.NewDevelopmentEncoderConfig()), verifSyncBuf{h.errlog}, zapcore.ErrorLevel)
	cfg := &conf.Config{Logger: zap.New(core).Sugar(), StoreLocation: h.dir + "/store"}
	h.cfg = cfg
	h.store = NewStore(cfg, &verifStatsd{h: h})
	h.dsm = NewDsManager(cfg, h.store, NoOpBus())
}

func (h *verifHub) close() {
	if h.store != nil {
		_ = h.store.Close()
		h.store = nil
	}
}

func verifAt(op VerifOp, times map[int]int64) (int64, bool) {
	if op.At == nil {
		return 0, false
	}
	if op.At.Exact {
		if t, ok := times[-1-op.At.AfterOp]; ok && t > 0 {
			return t, true
		}
	}
	return times[op.At.AfterOp], true
}

// record the instants of write op idx: times[idx] = an instant after it, times[-1-idx] = its commit time (0 if it stored nothing)
func verifStamp(idx int, times map[int]int64, last int64, prevAfter int64) {
	if last > prevAfter {
		times[-1-idx] = last
	} else {
		times[-1-idx] = 0
	}
	time.Sleep(time.Microsecond)
	times[idx] = time.Now().UnixNano()
	time.Sleep(time.Microsecond)
}

func verifLastTime(ds *Dataset) int64 {
	var t int64
	_, _ = ds.ProcessChanges(0, 0, false, func(e *Entity) {
		if int64(e.Recorded) > t {
			t = int64(e.Recorded)
		}
	})
	return t
}

func verifDoOp(h *verifHub, op VerifOp, idx int, times map[int]int64, tokens map[string]int64) (oo VerifOpObs) {
	defer func() {
		if r := recover(); r != nil {
			oo.Panic = fmt.Sprint(r)
		}
	}()
	store := h.store
	switch op.Op {
	case "create":
		if _, err := h.dsm.CreateDataset(op.Ds, nil); err != nil {
			oo.Err = err.Error()
		}
	case "restart":
		h.close()
		h.open()
	case "batch":
		ds := h.dsm.GetDataset(op.Ds)
		if ds == nil {
			oo.Err = "no dataset"
			return
		}
		ents, err := verifParse(store, op.Ents)
		if err != nil {
			oo.Err = "parse: " + err.Error()
			return
		}
		for _, e := range ents {
			oo.Lens = append(oo.Lens, verifLen(e))
		}
		before, _ := ds.GetChangesWatermark2()
		if err := ds.StoreEntities(ents); err != nil {
			oo.Err = err.Error()
		}
		after, _ := ds.GetChangesWatermark2()
		oo.NewSeqs = int(after - before)
		oo.Time = verifLastTime(ds)
		verifStamp(idx, times, oo.Time, times[1<<30])
		times[1<<30] = times[idx]
	case "txn":
		txn := &Transaction{DatasetEntities: make(map[string][]*Entity)}
		for _, s := range op.Sets {
			ents, err := verifParse(store, s.Ents)
			if err != nil {
				oo.Err = "parse: " + err.Error()
				return
			}
			for _, e := range ents {
				oo.Lens = append(oo.Lens, verifLen(e))
			}
			txn.DatasetEntities[s.Ds] = append(txn.DatasetEntities[s.Ds], ents...)
			if op.RejectIn == s.Ds {
				bad := NewEntity("ns3:poison", 0)
				bad.References["ns3:r1"] = nil
				txn.DatasetEntities[s.Ds] = append(txn.DatasetEntities[s.Ds], bad)
			}
		}
		if err := store.ExecuteTransaction(txn); err != nil {
			oo.Err = err.Error()
		}
		var t int64
		for _, s := range op.Sets {
			if ds := h.dsm.GetDataset(s.Ds); ds != nil {
				if x := verifLastTime(ds); x > t {
					t = x
				}
			}
		}
		oo.Time = t
		verifStamp(idx, times, t, times[1<<30])
		times[1<<30] = times[idx]
	case "changes":
		ds := h.dsm.GetDataset(op.Ds)
		if ds == nil {
			oo.Err = "no dataset"
			return
		}
		since := op.Since
		if op.Reader != "" {
			since = tokens[op.Reader+"@"+op.Ds]
		}
		oo.Ents = []VerifEnt{}
		next, err := ds.ProcessChanges(uint64(since), op.Limit, op.Latest, func(e *Entity) {
			oo.Ents = append(oo.Ents, verifOutEnt(e))
		})
		if err != nil {
			oo.Err = err.Error()
			return
		}
		oo.Next = int64(next)
		if op.Reader != "" {
			tokens[op.Reader+"@"+op.Ds] = int64(next)
		}
	case "entities":
		ds := h.dsm.GetDataset(op.Ds)
		if ds == nil {
			oo.Err = "no dataset"
			return
		}
		oo.Pages = [][]VerifEnt{}
		from := ""
		for p := 0; p < 10000; p++ {
			lim := 0
			if len(op.Limits) > 0 {
				if p < len(op.Limits) {
					lim = op.Limits[p]
				} else {
					lim = op.Limits[len(op.Limits)-1]
				}
			}
			page := []VerifEnt{}
			tok, err := ds.MapEntities(from, lim, func(e *Entity) error {
				page = append(page, verifOutEnt(e))
				return nil
			})
			if err != nil {
				oo.Err = err.Error()
				return
			}
			oo.Pages = append(oo.Pages, page)
			if len(page) == 0 || lim <= 0 {
				break
			}
			from = tok
		}
	case "get":
		var e *Entity
		var err error
		if at, ok := verifAt(op, times); ok {
			rtxn := store.database.NewTransaction(false)
			curie, err2 := store.GetNamespacedIdentifierFromURI(op.ID)
			if err2 != nil {
				rtxn.Discard()
				oo.Err = err2.Error()
				return
			}
			rid, exists, _ := store.getIDForURI(rtxn, curie)
			rtxn.Discard()
			if !exists {
				return
			}
			e, err = store.GetEntityAtPointInTimeWithInternalID(rid, at, store.DatasetsToInternalIDs(op.Datasets), op.Merge)
		} else {
			e, err = store.GetEntity(op.ID, op.Datasets, op.Merge)
		}
		if err != nil {
			oo.Err = err.Error()
			return
		}
		if e != nil {
			oo.Found = true
			oo.Ents = []VerifEnt{verifOutEnt(e)}
		}
	case "related":
		at, hasAt := verifAt(op, times)
		oo.RPages = [][]VerifRel{}
		var froms []*RelatedFrom
		var err error
		qt := at
		if !hasAt {
			qt = 1 << 62
		}
		froms, err = store.ToRelatedFrom(op.Starts, op.Pred, op.Inverse, op.Datasets, qt)
		if err != nil {
			oo.Err = err.Error()
			return
		}
		for _, f := range froms {
			if f == nil {
				oo.Err = "unknown start"
				return
			}
		}
		for p := 0; p < 10000; p++ {
			lim := 0
			if len(op.Limits) > 0 {
				if p < len(op.Limits) {
					lim = op.Limits[p]
				} else {
					lim = op.Limits[len(op.Limits)-1]
				}
			}
			res, err := store.GetManyRelatedEntitiesAtTime(froms, lim, true)
			if err != nil {
				oo.Err = err.Error()
				return
			}
			page := []VerifRel{}
			for _, r := range res.Relations {
				id := ""
				if r.RelatedEntity != nil {
					id = r.RelatedEntity.ID
				}
				page = append(page, VerifRel{Start: r.StartURI, Pred: r.PredicateURI, ID: id})
			}
			oo.RPages = append(oo.RPages, page)
			if len(res.Cont) == 0 || lim <= 0 || p > 2000 {
				break
			}
			froms = res.Cont
		}
	default:
		oo.Err = "unknown op " + op.Op
	}
	return
}

// GetChangesWatermark2: number of change-log entries (robust on an empty dataset, unlike GetChangesWatermark)
func (ds *Dataset) GetChangesWatermark2() (uint64, error) {
	var n uint64
	_, err := ds.ProcessChangesRaw(0, 0, false, func(b []byte) error {
		n++
		return nil
	})
	return n, err
}

var _ = sort.Strings
var _ = os.Getenv
var _ = strings.HasPrefix
