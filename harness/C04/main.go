//go:build verif

// verif driver for property C04: one JSON case per stdin line -> one "@@OBS <json>" line.
// Every case re-executes this binary as a CHILD (`-child <dir>`, case on stdin, VERIF_CRASH=<point>:<hit>) that runs the
// history prefix and dies at the crash point (os.Exit(137) from the hook handler) or is SIGKILLed by this
// parent; the parent then reopens the same directory, dumps the store, runs the tail and dumps again.
package main

import (
	"bufio"
	"bytes"
	"context"
	"encoding/json"
	"fmt"
	"os"
	"os/exec"
	"time"

	"github.com/mimiro-io/datahub/internal/server"
)

func countLines(path string) int {
	b, err := os.ReadFile(path)
	if err != nil {
		return 0
	}
	return bytes.Count(b, []byte{'\n'})
}

func runCase(c server.VerifC04Case, raw []byte, dir string) server.VerifC04Obs {
	_ = os.MkdirAll(dir, 0o755)
	defer os.RemoveAll(dir)
	ctx, cancel := context.WithTimeout(context.Background(), 60*time.Second)
	defer cancel()
	cmd := exec.CommandContext(ctx, os.Args[0], "-child", dir)
	cmd.Stdin = bytes.NewReader(append(raw, '\n'))
	var errb bytes.Buffer
	cmd.Stdout = nil
	cmd.Stderr = &errb
	cmd.Env = os.Environ()
	if c.Crash != nil && c.Crash.Point != "" {
		cmd.Env = append(cmd.Env, fmt.Sprintf("VERIF_CRASH=%s:%d", c.Crash.Point, c.Crash.Hit))
	}
	exit := 0
	if err := cmd.Start(); err != nil {
		return server.VerifC04Obs{Outcome: "child-error", Detail: err.Error()}
	}
	if c.Crash != nil && c.Crash.KillLine > 0 {
		done := make(chan struct{})
		go func() {
			defer close(done)
			deadline := time.Now().Add(30 * time.Second)
			for time.Now().Before(deadline) {
				if countLines(dir+"/trace.jsonl") >= c.Crash.KillLine {
					if c.Crash.KillUs > 0 {
						time.Sleep(time.Duration(c.Crash.KillUs) * time.Microsecond)
					}
					_ = cmd.Process.Kill()
					return
				}
				if cmd.ProcessState != nil {
					return
				}
				time.Sleep(20 * time.Microsecond)
			}
		}()
		err := cmd.Wait()
		<-done
		_ = err
	} else {
		_ = cmd.Wait()
	}
	if cmd.ProcessState != nil {
		exit = cmd.ProcessState.ExitCode()
	}
	if ctx.Err() != nil {
		return server.VerifC04Obs{Outcome: "child-error", Detail: "child hang", Exit: exit}
	}
	if exit != 0 && exit != 137 && exit != -1 {
		return server.VerifC04Obs{Outcome: "child-error", Detail: errb.String(), Exit: exit}
	}
	if c.Long != nil {
		return server.VerifC04ParentLong(c, dir, exit)
	}
	if c.Mgmt != nil {
		return server.VerifC04ParentMgmt(c, dir, exit)
	}
	return server.VerifC04Parent(c, dir, exit)
}

func main() {
	if len(os.Args) >= 3 && os.Args[1] == "-child" {
		in := bufio.NewReaderSize(os.Stdin, 1<<20)
		var raw []byte
		for {
			chunk, isPrefix, err := in.ReadLine()
			raw = append(raw, chunk...)
			if err != nil || !isPrefix {
				break
			}
		}
		var c server.VerifC04Case
		if err := json.Unmarshal(raw, &c); err != nil {
			fmt.Fprintln(os.Stderr, "bad case:", err)
			os.Exit(3)
		}
		server.VerifC04Child(c, os.Args[2])
		return
	}
	dir := os.Args[1]
	in := bufio.NewScanner(os.Stdin)
	in.Buffer(make([]byte, 1<<20), 1<<28)
	out := bufio.NewWriter(os.Stdout)
	defer out.Flush()
	i := 0
	for in.Scan() {
		var c server.VerifC04Case
		raw := append([]byte{}, in.Bytes()...)
		if err := json.Unmarshal(raw, &c); err != nil {
			fmt.Fprintln(os.Stderr, "bad case:", err)
			os.Exit(2)
		}
		obs := runCase(c, raw, fmt.Sprintf("%s/c%d", dir, i))
		b, _ := json.Marshal(obs)
		out.WriteString("@@OBS ")
		out.Write(b)
		out.WriteString("\n")
		out.Flush()
		i++
	}
}
