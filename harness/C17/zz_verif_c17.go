//go:build verif

// Injected into package jobs by `go build -overlay` (never committed to /repo).
// Property C17: a scripted inner sink (fails on a set of entity indices and/or on given call numbers)
// wrapped by the real error-handling code (verifyErrorHandlers, instrumentErrorHandling, wrappedSink,
// LogFailingEntityHandler, handleJobError), run through the real job.Run for job-level cases.
package jobs

import (
	"context"
	"encoding/base64"
	"fmt"
	"os"
	"strconv"
	"strings"
	"sync"
	"time"

	"github.com/DataDog/datadog-go/v5/statsd"
	"go.uber.org/zap"
	"go.uber.org/zap/zapcore"

	"github.com/mimiro-io/datahub/internal/conf"
	"github.com/mimiro-io/datahub/internal/security"
	"github.com/mimiro-io/datahub/internal/server"
)

type VerifC17Case struct {
	Kind      string `json:"kind"` // "sink" | "job"
	N         int    `json:"n"`
	Bad       []int  `json:"bad"`
	FailCalls []int  `json:"failcalls"`
	MaxItems  int    `json:"maxItems"`
	// sink level: state of the wrapped sink / handler before the call
	PreLast  int `json:"preLast"` // -1 = nil, else code of a stale inner error
	PreDepth int `json:"preDepth"`
	PreCount int `json:"preCount"`
	// job level
	Batch      int   `json:"batch"`
	Log        bool  `json:"log"`
	Rerun      bool  `json:"rerun"`
	MaxRetries int   `json:"maxRetries"`
	RetryDelay int   `json:"retryDelay"`
	KillAt     int   `json:"killAt"` // inner sink call number at which the job is killed (-1: never)
	Adds       []int `json:"adds"`   // entities appended to the source before run 2, 3, ...
	Crons      int   `json:"crons"`  // further externally triggered runs once no re-run is pending
	Timer      bool  `json:"timer"`  // let the real time.AfterFunc fire (40 ms) instead of simulating the timer
	Transform  bool  `json:"transform"` // the job has an (identity) JavascriptTransform, so the transform gets wrapped too
	PokeAt     int   `json:"pokeAt"`    // inner sink call number during which the same job object is started once more (-1: never)
	Full       bool  `json:"full"`   // trigger with jobType fullsync (FullSyncPipeline)
	Burst      int   `json:"burst"`  // > 0: that many externally triggered runs 10 ms apart while re-runs are pending (real timer, 200 ms)
}

type VerifC17Run struct {
	Err       int     `json:"err"` // -1 ok | -2 max items | -3 interrupt | -4 other | >= 0 code of the inner sink error
	Processed int     `json:"processed"`
	Token     int     `json:"token"`
	Ev        [][]int `json:"ev"` // [0, i...] = batch delivered ; [1, i] = entity reported to the handler
	Retries   int     `json:"retries"`
	Pending   bool    `json:"pending"` // a re-run was scheduled by this run
	Panic     bool    `json:"panic"`
	Killed    bool    `json:"killed"` // the kill was issued during this run
}

type VerifC17Obs struct {
	Outcome string        `json:"outcome"`
	Detail  string        `json:"detail,omitempty"`
	Res     int           `json:"res"` // sink level: 0 nil | 1 MaxItemsExceededError | 2 other
	Ev      [][]int       `json:"ev"`
	Last    int           `json:"last"`
	LastSet bool          `json:"lastSet"`
	Depth   int           `json:"depth"`
	Count   int           `json:"count"`
	Calls   int           `json:"calls"`
	Delay   int           `json:"delay"` // RetryDelay after verifyErrorHandlers, in seconds
	Runs    []VerifC17Run `json:"runs"`
	DelayOk bool          `json:"delayOk"`
	Starts  int           `json:"starts"` // burst mode: number of executions of the pipeline
}

type verifC17Err struct{ code int }

func (e *verifC17Err) Error() string { return "verif-sink:" + strconv.Itoa(e.code) }

func verifC17Code(err error) int {
	if err == nil {
		return -1
	}
	if e, ok := err.(*verifC17Err); ok {
		return e.code
	}
	if err == MaxItemsExceededError {
		return -2
	}
	return verifC17CodeStr(err.Error())
}

func verifC17CodeStr(s string) int {
	switch {
	case s == "":
		return -1
	case s == MaxItemsExceededError.Error():
		return -2
	case s == "got job interrupt":
		return -3
	case strings.HasPrefix(s, "verif-sink:"):
		n, err := strconv.Atoi(s[len("verif-sink:"):])
		if err == nil {
			return n
		}
	}
	return -4
}

func verifC17Idx(id string) int {
	j := len(id)
	for j > 0 && id[j-1] >= '0' && id[j-1] <= '9' {
		j--
	}
	n, err := strconv.Atoi(id[j:])
	if err != nil {
		return -1
	}
	return n
}

// event log shared by the scripted sink and the log core
type verifC17Log struct {
	mu sync.Mutex
	ev [][]int
}

func (l *verifC17Log) add(e []int) {
	l.mu.Lock()
	l.ev = append(l.ev, e)
	l.mu.Unlock()
}

func (l *verifC17Log) take() [][]int {
	l.mu.Lock()
	defer l.mu.Unlock()
	r := l.ev
	l.ev = nil
	if r == nil {
		r = [][]int{}
	}
	return r
}

// zap core that turns LogFailingEntityHandler's warning into a "reported" event
// the handler logs With("job.jobId", id): the report goes to the event log of THAT job (a run of an earlier case that is
// still finishing in a timer goroutine can then never write into the log of the case that is running now)
type verifC17Core struct {
	env   *VerifC17Env
	jobID string
}

func (c verifC17Core) Enabled(l zapcore.Level) bool           { return l >= zapcore.WarnLevel }
func (c verifC17Core) With(f []zapcore.Field) zapcore.Core {
	for _, fl := range f {
		if fl.Key == "job.jobId" && fl.Type == zapcore.StringType {
			return verifC17Core{env: c.env, jobID: fl.String}
		}
	}
	return c
}
func (c verifC17Core) Sync() error                            { return nil }
func (c verifC17Core) Check(e zapcore.Entry, ce *zapcore.CheckedEntry) *zapcore.CheckedEntry {
	if c.Enabled(e.Level) {
		return ce.AddCore(e, c)
	}
	return ce
}
func (c verifC17Core) Write(e zapcore.Entry, f []zapcore.Field) error {
	const pre, mid = "entity ", " failed to process"
	if strings.HasPrefix(e.Message, pre) {
		if k := strings.Index(e.Message, mid); k > 0 {
			c.env.mu.Lock()
			l := c.env.cur
			if c.jobID != "" && c.jobID != c.env.curID {
				l = nil
			}
			c.env.mu.Unlock()
			if l != nil {
				l.add([]int{1, verifC17Idx(e.Message[len(pre):k])})
			}
		}
	}
	return nil
}

type verifC17Sink struct {
	log       *verifC17Log
	bad       map[int]bool
	failCalls map[int]bool
	calls     int
	killAt    int
	kill      func()
	killed    bool
	pokeAt    int
	poke      func()
}

func (s *verifC17Sink) GetConfig() map[string]interface{} {
	return map[string]interface{}{"Type": "VerifC17Sink"}
}
func (s *verifC17Sink) startFullSync(runner *Runner) error                     { return nil }
func (s *verifC17Sink) endFullSync(ctx context.Context, runner *Runner) error { return nil }
func (s *verifC17Sink) processEntities(runner *Runner, entities []*server.Entity) error {
	call := s.calls
	s.calls++
	if call == s.pokeAt && s.poke != nil {
		// a second start of the same job object while this run is in progress (cron tick, event, overlapping re-run):
		// it gets no ticket and is skipped
		p := s.poke
		s.poke = nil
		p()
	}
	if call == s.killAt && s.kill != nil {
		s.killed = true
		s.kill()
	}
	if s.failCalls[call] {
		return &verifC17Err{1000 + call}
	}
	b := []int{0}
	for _, e := range entities {
		i := verifC17Idx(e.ID)
		if s.bad[i] {
			return &verifC17Err{i}
		}
		b = append(b, i)
	}
	s.log.add(b)
	return nil
}

// pipeline wrapper: counts the runs (the job's own pipeline does the work)
type verifC17Pipeline struct {
	p       Pipeline
	mu      sync.Mutex
	starts  int
	ends    int
	startAt []time.Time
	endAt   []time.Time
	onStart func(run int)
}

func (c *verifC17Pipeline) sync(job *job, ctx context.Context) (int, error) {
	c.mu.Lock()
	run := c.starts
	c.starts++
	c.startAt = append(c.startAt, time.Now())
	f := c.onStart
	c.mu.Unlock()
	if f != nil {
		f(run)
	}
	n, err := c.p.sync(job, ctx)
	c.mu.Lock()
	c.ends++
	c.endAt = append(c.endAt, time.Now())
	c.mu.Unlock()
	return n, err
}
func (c *verifC17Pipeline) spec() *PipelineSpec { return c.p.spec() }
func (c *verifC17Pipeline) isFullSync() bool    { return c.p.isFullSync() }

type VerifC17Env struct {
	dir    string
	store  *server.Store
	dsm    *server.DsManager
	runner *Runner
	sched  *Scheduler
	logger *zap.SugaredLogger
	seq    int
	mu     sync.Mutex
	cur    *verifC17Log
	curID  string
}

func VerifC17Setup(dir string) *VerifC17Env {
	env := &VerifC17Env{dir: dir}
	_ = os.MkdirAll(dir, 0o755)
	env.logger = zap.New(verifC17Core{env: env}).Sugar()
	cfg := &conf.Config{
		Logger:        env.logger,
		StoreLocation: dir,
		RunnerConfig:  &conf.RunnerConfig{PoolIncremental: 10, PoolFull: 5, Concurrent: 0},
	}
	sd := &statsd.NoOpClient{}
	env.store = server.NewStore(cfg, sd)
	pm := security.NewProviderManager(cfg, env.store, env.logger)
	tps := security.NewTokenProviders(env.logger, pm, nil)
	env.runner = NewRunner(cfg, env.store, tps, server.NoOpBus(), sd)
	env.dsm = server.NewDsManager(cfg, env.store, server.NoOpBus())
	env.sched = NewScheduler(cfg, env.store, env.dsm, env.runner)
	return env
}

func (env *VerifC17Env) Close() {
	env.runner.Stop()
	_ = env.store.Close()
	_ = os.RemoveAll(env.dir)
}

func (env *VerifC17Env) setLog(l *verifC17Log) {
	env.mu.Lock()
	env.cur = l
	if l == nil {
		env.curID = ""
	}
	env.mu.Unlock()
}

func verifC17Set(l []int) map[int]bool {
	m := map[int]bool{}
	for _, x := range l {
		m[x] = true
	}
	return m
}

func (env *VerifC17Env) Run(c VerifC17Case) (obs VerifC17Obs) {
	env.seq++
	defer func() {
		if r := recover(); r != nil {
			obs.Outcome = "panic"
			obs.Detail = fmt.Sprint(r)
		}
		if obs.Ev == nil {
			obs.Ev = [][]int{}
		}
		if obs.Runs == nil {
			obs.Runs = []VerifC17Run{}
		}
		env.setLog(nil)
	}()
	switch c.Kind {
	case "sink":
		return env.runSink(c)
	case "job":
		return env.runJob(c)
	}
	obs.Outcome = "setup-error"
	obs.Detail = "unknown kind"
	return
}

// one call of the real wrappedSink.processEntities from a chosen state
func (env *VerifC17Env) runSink(c VerifC17Case) (obs VerifC17Obs) {
	id := fmt.Sprintf("c17s-%d", env.seq)
	trigger := JobTrigger{TriggerType: TriggerTypeCron, JobType: JobTypeIncremental, Schedule: "@every 2000s",
		ErrorHandlers: ErrorHandlers{&ErrorHandler{Type: "Log", MaxItems: c.MaxItems}}}
	if err := verifyErrorHandlers(trigger, id, id); err != nil {
		obs.Outcome = "setup-error"
		obs.Detail = err.Error()
		return
	}
	log := &verifC17Log{}
	env.setLog(log)
	env.mu.Lock()
	env.curID = id
	env.mu.Unlock()
	sink := &verifC17Sink{log: log, bad: verifC17Set(c.Bad), failCalls: verifC17Set(c.FailCalls), killAt: -1, pokeAt: -1}
	j := &job{id: id, title: id, pipeline: &IncrementalPipeline{PipelineSpec{sink: sink, batchSize: 1000}},
		runner: env.runner, errorHandlers: trigger.ErrorHandlers, dsm: env.dsm}
	j.instrumentErrorHandling()
	w, ok := j.pipeline.spec().sink.(*wrappedSink)
	if !ok {
		obs.Outcome = "setup-error"
		obs.Detail = "sink not wrapped"
		return
	}
	h, ok := trigger.ErrorHandlers[0].failingEntityHandler.(*LogFailingEntityHandler)
	if !ok {
		obs.Outcome = "setup-error"
		obs.Detail = "no log handler"
		return
	}
	if c.PreLast >= 0 {
		w.lastError = &verifC17Err{c.PreLast}
	}
	w.recursionDepth = c.PreDepth
	h.count = c.PreCount
	ents := make([]*server.Entity, c.N)
	for i := range ents {
		ents[i] = server.NewEntity("http://v/e"+strconv.Itoa(i), 0)
	}
	err := w.processEntities(env.runner, ents)
	switch {
	case err == nil:
		obs.Res = 0
	case err == MaxItemsExceededError:
		obs.Res = 1
	default:
		obs.Res = 2
		obs.Detail = err.Error()
	}
	obs.Outcome = "ok"
	obs.Ev = log.take()
	obs.Last = verifC17Code(w.lastError)
	obs.LastSet = w.lastError != nil
	obs.Depth = w.recursionDepth
	obs.Count = h.count
	obs.Calls = sink.calls
	return
}

func (env *VerifC17Env) runJob(c VerifC17Case) (obs VerifC17Obs) {
	id := fmt.Sprintf("c17j-%d", env.seq)
	dsName := "src-" + id
	ds, err := env.dsm.CreateDataset(dsName, nil)
	if err != nil {
		obs.Outcome = "setup-error"
		obs.Detail = err.Error()
		return
	}
	next := 0
	appendEnts := func(k int) error {
		if k <= 0 {
			return nil
		}
		ents := make([]*server.Entity, k)
		for i := 0; i < k; i++ {
			ents[i] = server.NewEntity("http://v/e"+strconv.Itoa(next), 0)
			ents[i].Properties["ns3:idx"] = next
			next++
		}
		return ds.StoreEntities(ents)
	}
	if err := appendEnts(c.N); err != nil {
		obs.Outcome = "setup-error"
		obs.Detail = err.Error()
		return
	}
	var hs []string
	if c.Log {
		hs = append(hs, fmt.Sprintf(`{"errorHandler":"log","maxItems":%d}`, c.MaxItems))
	}
	if c.Rerun {
		hs = append(hs, fmt.Sprintf(`{"errorHandler":"reRun","maxRetries":%d,"retryDelay":%d}`, c.MaxRetries, c.RetryDelay))
	}
	transform := ""
	if c.Transform {
		transform = `"transform":{"Type":"JavascriptTransform","Code":"` +
			base64.StdEncoding.EncodeToString([]byte(`function transform_entities(entities) { return entities; }`)) + `"},`
	}
	jobType := JobTypeIncremental
	if c.Full {
		jobType = JobTypeFull
	}
	jobJSON := fmt.Sprintf(`{"id":"%s","title":"%s","batchSize":%d,
		"triggers":[{"triggerType":"cron","jobType":"%s","schedule":"@every 2000s","onError":[%s]}],
		"source":{"Type":"DatasetSource","Name":"%s"},%s
		"sink":{"Type":"DevNullSink"}}`, id, id, c.Batch, jobType, strings.Join(hs, ","), dsName, transform)
	jc, err := env.sched.Parse([]byte(jobJSON))
	if err != nil {
		obs.Outcome = "setup-error"
		obs.Detail = "parse: " + err.Error()
		return
	}
	if err := env.sched.verify(jc); err != nil {
		obs.Outcome = "rejected"
		obs.Detail = err.Error()
		return
	}
	tj, err := env.sched.toTriggeredJobs(jc)
	if err != nil || len(tj) != 1 {
		obs.Outcome = "setup-error"
		obs.Detail = fmt.Sprint("toTriggeredJobs: ", err)
		return
	}
	j := tj[0]
	log := &verifC17Log{}
	env.setLog(log)
	env.mu.Lock()
	env.curID = id
	env.mu.Unlock()
	sink := &verifC17Sink{log: log, bad: verifC17Set(c.Bad), failCalls: verifC17Set(c.FailCalls), killAt: c.KillAt}
	sink.kill = func() { env.runner.killJob(id) }
	sink.pokeAt = -1
	if !c.Full && c.Burst == 0 && !c.Timer {
		sink.pokeAt = c.PokeAt
		sink.poke = func() { j.Run() }
	}
	j.pipeline.spec().sink = sink
	pl := &verifC17Pipeline{p: j.pipeline}
	j.pipeline = pl
	var reh *ErrorHandler
	for _, eh := range j.errorHandlers {
		if eh.Type == ErrorHandlerReRun {
			reh = eh
		}
	}
	retries := func() int {
		if reh == nil {
			return 0
		}
		return reh.MaxRetries
	}
	if reh != nil {
		obs.Delay = int(reh.RetryDelay / int64(time.Second))
		if c.Timer {
			reh.RetryDelay = int64(40 * time.Millisecond)
		} else {
			reh.RetryDelay = int64(100 * time.Hour)
		}
	}
	snapshot := func(before int) VerifC17Run {
		r := VerifC17Run{}
		res := &jobResult{}
		_ = env.store.GetObject(server.JobResultIndex, id, res)
		if res.ID == "" {
			r.Err = -5
		} else {
			r.Err = verifC17CodeStr(res.LastError)
		}
		r.Processed = res.Processed
		st := &SyncJobState{}
		_ = env.store.GetObject(server.JobDataIndex, id, st)
		r.Token, _ = strconv.Atoi(st.ContinuationToken)
		r.Ev = log.take()
		r.Retries = retries()
		r.Pending = r.Retries < before
		r.Killed = sink.killed
		sink.killed = false
		return r
	}
	runOnce := func() (panicked bool) {
		defer func() {
			if r := recover(); r != nil {
				panicked = true
				obs.Detail = fmt.Sprint(r)
			}
		}()
		j.Run()
		return false
	}
	obs.Outcome = "ok"
	obs.DelayOk = true
	if c.Burst > 0 {
		// externally triggered runs arrive while re-runs are pending; count the executions
		delay := 200 * time.Millisecond
		if reh != nil {
			reh.RetryDelay = int64(delay)
		}
		panicked := false
		for i := 0; i < c.Burst; i++ {
			if runOnce() {
				panicked = true
			}
			time.Sleep(10 * time.Millisecond)
		}
		last := -1
		for i := 0; i < 40; i++ {
			pl.mu.Lock()
			started, ended := pl.starts, pl.ends
			pl.mu.Unlock()
			if started == last && ended == started && env.runner.raffle.runningJob(id) == nil {
				break
			}
			last = started
			time.Sleep(delay + 300*time.Millisecond)
		}
		rec := snapshot(retries())
		rec.Panic = panicked
		obs.Runs = append(obs.Runs, rec)
		pl.mu.Lock()
		obs.Starts = pl.starts
		pl.mu.Unlock()
		return
	}
	if c.Timer {
		before := retries()
		p := runOnce()
		for run := 0; run < 40; run++ {
			time.Sleep(10 * time.Millisecond)
			rec := snapshot(before)
			rec.Panic = p
			p = false
			obs.Runs = append(obs.Runs, rec)
			if !rec.Pending {
				break
			}
			before = rec.Retries
			// a timer is pending: wait for the next run to start and to finish
			deadline := time.Now().Add(20 * time.Second)
			for time.Now().Before(deadline) {
				pl.mu.Lock()
				started, ended := pl.starts, pl.ends
				pl.mu.Unlock()
				if started > run+1 && ended == started && env.runner.raffle.runningJob(id) == nil {
					break
				}
				time.Sleep(5 * time.Millisecond)
			}
			// the deferred handleJobError of the timer run (result rewrite, then the decrement that schedules the next re-run)
			// gives no signal when it is done: wait until the decrement is seen, or 3 s
			for t0 := time.Now(); retries() >= before && time.Since(t0) < 3*time.Second; {
				time.Sleep(5 * time.Millisecond)
			}
			pl.mu.Lock()
			if len(pl.startAt) > run+1 && len(pl.endAt) > run {
				if pl.startAt[run+1].Sub(pl.endAt[run]) < 40*time.Millisecond {
					obs.DelayOk = false
				}
			} else {
				obs.DelayOk = false
			}
			pl.mu.Unlock()
		}
		return
	}
	crons := c.Crons
	for run := 0; run < 60; run++ {
		before := retries()
		p := runOnce()
		rec := snapshot(before)
		rec.Panic = p
		obs.Runs = append(obs.Runs, rec)
		if !rec.Pending {
			if crons <= 0 {
				break
			}
			crons--
		}
		if run < len(c.Adds) {
			if err := appendEnts(c.Adds[run]); err != nil {
				obs.Outcome = "setup-error"
				obs.Detail = err.Error()
				return
			}
		}
	}
	return
}
