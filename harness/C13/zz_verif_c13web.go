//go:build verif

// Injected into package web by `go build -overlay`: the real dataset and namespace handlers behind an echo
// router, so that property C13 can read contexts the way requests get them (page @context, /namespaces) and
// serve a JSON-LD page (convertContextToJSONLD).
package web

import (
	"github.com/labstack/echo/v4"
	"go.uber.org/zap"

	"github.com/mimiro-io/datahub/internal/server"
)

func VerifC13Echo(store *server.Store, dsm *server.DsManager) *echo.Echo {
	e := echo.New()
	e.HideBanner = true
	e.HidePort = true
	log := zap.NewNop().Sugar()
	e.Use(setupRecovery(log))
	h := &datasetHandler{datasetManager: dsm, store: store, eventBus: server.NoOpBus(), tokenProviders: nil}
	e.GET("/datasets/:dataset/entities", h.getEntitiesHandler)
	e.GET("/datasets/:dataset/changes", h.getChangesHandler)
	n := &namespaceHandler{store: store}
	e.GET("/namespaces", n.getNamespaces)
	return e
}
