//go:build verif

// Injected into package jobs by `go build -overlay`: a URI that comes back from an HttpTransform with
// SupportContext (the real HTTPTransform.transformEntities against an httptest service that answers with a
// context of its own) - one more path by which an identifier enters the hub and is compacted.
package jobs

import (
	"encoding/json"
	"errors"
	"net/http"
	"net/http/httptest"
	"strings"

	"github.com/mimiro-io/datahub/internal/server"
)

// VerifC13HttpTransform returns the id the hub gives the entity whose id the transform service reports as uri
// (written by the service as a CURIE in the service's own context when the uri has a path).
func VerifC13HttpTransform(store *server.Store, uri0 string) (string, error) {
	uri := strings.TrimPrefix(uri0, "FULL!")
	srv := httptest.NewServer(http.HandlerFunc(func(w http.ResponseWriter, r *http.Request) {
		ns := map[string]string{}
		id := uri
		if i := strings.Index(uri, "://"); i > 0 && !strings.HasSuffix(r.URL.Path, "/full") {
			if j := strings.Index(uri[i+3:], "/"); j >= 0 {
				cut := i + 3 + j + 1
				ns["svc"] = uri[:cut]
				id = "svc:" + uri[cut:]
			}
		}
		out := []interface{}{
			map[string]interface{}{"id": "@context", "namespaces": ns},
			map[string]interface{}{"id": id, "props": map[string]interface{}{}, "refs": map[string]interface{}{}},
		}
		b, _ := json.Marshal(out)
		w.Header().Set("Content-Type", "application/json")
		_, _ = w.Write(b)
	}))
	defer srv.Close()
	url := srv.URL
	if strings.HasPrefix(uri0, "FULL!") {
		// the service reports the id as a full URI instead of a CURIE in its own context
		url += "/full"
	}
	t := &HTTPTransform{URL: url, SupportContext: true, NamespaceManager: store.NamespaceManager, TimeOut: 10}
	res, err := t.transformEntities(nil, []*server.Entity{server.NewEntity("ns0:in", 0)}, "verif")
	if err != nil {
		return "", err
	}
	if len(res) != 1 {
		return "", errors.New("transform returned a different number of entities")
	}
	return res[0].ID, nil
}
