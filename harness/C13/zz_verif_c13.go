//go:build verif

// Injected into package server by `go build -overlay` (never committed to /repo).
// Drives the real NamespaceManager, Dataset.StoreEntities, Store.ExecuteTransaction,
// NewContextualStore and Close/NewStore for property C13.
package server

import (
	"bytes"
	"encoding/binary"
	"encoding/json"
	"fmt"
	"io"
	"os"
	"os/exec"
	"path/filepath"
	"sort"
	"strings"
	"sync"
	"time"

	"github.com/DataDog/datadog-go/v5/statsd"
	"github.com/dgraph-io/badger/v4"
	"go.uber.org/zap"

	"github.com/mimiro-io/datahub/internal/conf"
	"github.com/mimiro-io/datahub/internal/service/types"
	"github.com/mimiro-io/datahub/internal/verifhook"
)

type VerifC13Ent struct {
	ID  string `json:"id"`
	Ref bool   `json:"ref"`
	P   string `json:"p"`
	T   string `json:"t"`
}

type VerifC13Op struct {
	Op     string            `json:"op"` // assert compact nsid expand getprefix fetch read batch ctxnew ctxtxn restart dump
	S      string            `json:"s"`
	Locals map[string]string `json:"locals"`
	H      int               `json:"h"`
	K      int               `json:"k"`
	Txn    bool              `json:"txn"`
	Ds     string            `json:"ds"`
	Ents   []VerifC13Ent     `json:"ents"`
	Crash  bool              `json:"crash"`
	// write ops only: the process dies at this hook point of the write (0 before the id commit, 1 between the
	// two commits, 2 after both commits), if the write gets that far; nil = no crash
	CrashPt *int `json:"crashpt,omitempty"`
}

type VerifC13Conc struct {
	Readers   int `json:"readers"`
	Asserters int `json:"asserters"`
	Iters     int `json:"iters"`
	// burst family (Rounds > 0): per round K goroutines introduce the SAME new namespace while one goroutine
	// introduces a stream of other namespaces, then K goroutines introduce K DIFFERENT new namespaces
	K      int `json:"k"`
	Rounds int `json:"rounds"`
	// before the rounds: Resolvers goroutines resolve namespaces through BadgerAccess (the adaptor behind
	// entity.Lookup / POST /query by full URI) while Grow new namespaces are introduced
	Resolvers int `json:"resolvers"`
	Grow      int `json:"grow"`
}

// VerifC13HTTPGet is set by the driver's main package: a GET through the real handlers of internal/web.
var VerifC13HTTPGet func(store *Store, dsm *DsManager, path, accept string) (int, []byte)

// set by the driver's main package: the HttpTransform path (package jobs) and the HTTP dataset source (package source)
var VerifC13TCompact func(store *Store, uri string) (string, error)
var VerifC13SrcRead func(store *Store, locals map[string]string, key string) (string, string, error)

type VerifC13Pub struct {
	Name string   `json:"name"`
	Exps []string `json:"exps"`
}

type VerifC13Case struct {
	// datasets created after Dss, with publicNamespaces
	Pub  []VerifC13Pub `json:"pub,omitempty"`
	Dss  []string      `json:"dss"`
	Ops  []VerifC13Op  `json:"ops"`
	Conc *VerifC13Conc `json:"conc,omitempty"`
}

type VerifC13Out struct {
	K   string      `json:"k"` // str err ctx none batch unit dump
	S   string      `json:"s,omitempty"`
	M   [][2]string `json:"m,omitempty"`
	Oc  string      `json:"oc,omitempty"`
	Ids []uint64    `json:"ids,omitempty"`
	P2E [][2]string `json:"p2e,omitempty"`
	E2P [][2]string `json:"e2p,omitempty"`
	U2I []verifUI   `json:"u2i,omitempty"`
	I2U []verifUI   `json:"i2u,omitempty"`
	// (identifier, internal id) pairs carried by stored entity versions (entity id) and their reference keys
	Stored []verifUI `json:"stored,omitempty"`
	Msg    string    `json:"msg,omitempty"`
}

type verifUI struct {
	U string `json:"u"`
	I uint64 `json:"i"`
}

type VerifC13Obs struct {
	Outcome string        `json:"outcome"`
	Outs    []VerifC13Out `json:"outs"`
	Conc    string        `json:"conc,omitempty"` // "" | survived | died-map | died-other | hang
	Detail  string        `json:"detail,omitempty"`
}

func verifC13Open(dir string) (*Store, *DsManager) {
	cfg := &conf.Config{Logger: zap.NewNop().Sugar(), StoreLocation: dir}
	s := NewStore(cfg, &statsd.NoOpClient{})
	dsm := NewDsManager(cfg, s, NoOpBus())
	return s, dsm
}

func verifPairs(m map[string]string) [][2]string {
	out := make([][2]string, 0, len(m))
	for k, v := range m {
		out = append(out, [2]string{k, v})
	}
	sort.Slice(out, func(i, j int) bool { return out[i][0] < out[j][0] })
	return out
}

func verifC13Dump(s *Store) VerifC13Out {
	o := VerifC13Out{K: "dump"}
	s.NamespaceManager.lock.Lock()
	o.P2E = verifPairs(s.NamespaceManager.prefixToExpansionMapping)
	o.E2P = verifPairs(s.NamespaceManager.expansionToPrefixMapping)
	s.NamespaceManager.lock.Unlock()
	o.U2I = []verifUI{}
	o.I2U = []verifUI{}
	_ = s.database.View(func(txn *badger.Txn) error {
		for _, idx := range []uint16{URIToIDIndexID, IDToURIIndexID} {
			p := make([]byte, 2)
			binary.BigEndian.PutUint16(p, idx)
			it := txn.NewIterator(badger.DefaultIteratorOptions)
			for it.Seek(p); it.ValidForPrefix(p); it.Next() {
				k := it.Item().KeyCopy(nil)
				v, _ := it.Item().ValueCopy(nil)
				if idx == URIToIDIndexID {
					// the id of every identifier that has an index record, as the READ side resolves it (GetPredicateID
					// for CURIEs, getIDForURI otherwise - the lookup GetEntity and relation queries start with); an
					// identifier the read side cannot resolve is left out, an id that differs from the record is reported
					u := string(k[2:])
					raw := binary.BigEndian.Uint64(v)
					if rid, ok := verifC13ReadID(s, u); ok {
						o.U2I = append(o.U2I, verifUI{u, rid})
						if rid != raw {
							o.Msg += fmt.Sprintf("read side gives %d for %s, the record says %d; ", rid, u, raw)
						}
					} else {
						o.Msg += fmt.Sprintf("read side cannot resolve %s (record: %d); ", u, raw)
					}
				} else {
					o.I2U = append(o.I2U, verifUI{string(v), binary.BigEndian.Uint64(k[2:])})
				}
			}
			it.Close()
		}
		return nil
	})
	o.Stored = verifC13Stored(s)
	return o
}

func verifC13ReadID(s *Store, u string) (uint64, bool) {
	if strings.HasPrefix(u, "ns") {
		rid, err := s.GetPredicateID(u, nil)
		return rid, err == nil
	}
	txn := s.database.NewTransaction(false)
	defer txn.Discard()
	rid, exists, err := s.getIDForURI(txn, u)
	return rid, err == nil && exists
}

// verifC13Stored scans every stored entity version: the internal id in its key belongs to the identifier in
// its JSON; the predicate / target ids of its outgoing reference key belong to its (single) reference.
func verifC13Stored(s *Store) []verifUI {
	seen := map[verifUI]bool{}
	_ = s.database.View(func(txn *badger.Txn) error {
		p := make([]byte, 2)
		binary.BigEndian.PutUint16(p, EntityIDToJSONIndexID)
		it := txn.NewIterator(badger.DefaultIteratorOptions)
		defer it.Close()
		for it.Seek(p); it.ValidForPrefix(p); it.Next() {
			k := it.Item().KeyCopy(nil)
			if len(k) < 24 {
				continue
			}
			v, _ := it.Item().ValueCopy(nil)
			e := &Entity{}
			if err := json.Unmarshal(v, e); err != nil {
				continue
			}
			rid := binary.BigEndian.Uint64(k[2:10])
			seen[verifUI{e.ID, rid}] = true
			if len(e.References) != 1 || e.IsDeleted {
				continue
			}
			op := make([]byte, 18)
			binary.BigEndian.PutUint16(op, OutgoingRefIndex)
			copy(op[2:10], k[2:10])
			copy(op[10:18], k[14:22])
			it2 := txn.NewIterator(badger.DefaultIteratorOptions)
			for it2.Seek(op); it2.ValidForPrefix(op); it2.Next() {
				ok := it2.Item().KeyCopy(nil)
				if len(ok) < 40 || !bytes.Equal(ok[36:40], k[10:14]) || binary.BigEndian.Uint16(ok[34:36]) != 0 {
					continue
				}
				for pred, tgt := range e.References {
					if t, isStr := tgt.(string); isStr {
						seen[verifUI{pred, binary.BigEndian.Uint64(ok[18:26])}] = true
						seen[verifUI{t, binary.BigEndian.Uint64(ok[26:34])}] = true
					}
				}
			}
			it2.Close()
		}
		return nil
	})
	out := make([]verifUI, 0, len(seen))
	for x := range seen {
		out = append(out, x)
	}
	sort.Slice(out, func(i, j int) bool {
		if out[i].I != out[j].I {
			return out[i].I < out[j].I
		}
		return out[i].U < out[j].U
	})
	return out
}

type verifC13Died struct{}

func verifC13Ents(es []VerifC13Ent, pad *int) []*Entity {
	out := make([]*Entity, 0, len(es))
	for _, e := range es {
		ent := NewEntity(e.ID, 0)
		if e.Ref {
			ent.References[e.P] = e.T
		}
		// every version written by one op differs in serialised length from the versions written by every other op
		ent.Properties["v"] = strings.Repeat("x", *pad)
		out = append(out, ent)
	}
	return out
}

func verifC13Write(f func() error, ents []*Entity) VerifC13Out {
	o := VerifC13Out{K: "batch"}
	func() {
		defer func() {
			if r := recover(); r != nil {
				if _, died := r.(verifC13Died); died {
					o.Oc = "crashed"
				} else {
					o.Oc = "panic"
					o.Msg = fmt.Sprint(r)
				}
			}
		}()
		err := f()
		switch {
		case err == nil:
			o.Oc = "ok"
		case err.Error() == "URI cannot be empty":
			o.Oc = "empty"
		case err.Error() == "Trying to commit a discarded txn":
			o.Oc = "discarded"
		default:
			o.Oc = "other"
			o.Msg = err.Error()
		}
	}()
	o.Ids = make([]uint64, len(ents))
	for i, e := range ents {
		o.Ids[i] = e.InternalID
	}
	return o
}

// VerifC13Run executes one case on a fresh store under dir.
func VerifC13Run(c VerifC13Case, dir string) (obs VerifC13Obs) {
	if c.Conc != nil {
		return verifC13ConcParent(c, dir)
	}
	_ = os.RemoveAll(dir)
	cur := dir
	defer func() { _ = os.RemoveAll(dir); _ = os.RemoveAll(cur) }()
	s, dsm := verifC13Open(cur)
	defer func() {
		if r := recover(); r != nil {
			obs.Outcome = "driver-panic"
			obs.Detail = fmt.Sprint(r)
		}
		_ = s.Close()
	}()
	for _, d := range c.Dss {
		if _, err := dsm.CreateDataset(d, nil); err != nil {
			return VerifC13Obs{Outcome: "setup-error", Detail: err.Error()}
		}
	}
	for _, p := range c.Pub {
		if _, err := dsm.CreateDataset(p.Name, &CreateDatasetConfig{PublicNamespaces: p.Exps}); err != nil {
			return VerifC13Obs{Outcome: "setup-error", Detail: err.Error()}
		}
	}
	var handles []*Context
	var ctxStores []*Store
	pad := 0
	ncrash := 0
	// a write during which the process dies at a hook point: the directory image taken at that point is what
	// the next process opens; the dying process is unwound with a panic and abandoned
	crashImage := ""
	crashErr := ""
	armCrash := func(op VerifC13Op, txnPath bool) {
		if op.CrashPt == nil {
			return
		}
		names := []string{"batch.beforeIdCommit", "batch.afterIdCommit", "batch.afterCommit"}
		arg := op.Ds
		if txnPath {
			names = []string{"txn.beforeIdCommit", "txn.afterIdCommit", "txn.afterCommit"}
			arg = ""
		}
		pt := *op.CrashPt
		if pt > 2 {
			pt = 2
		}
		want := names[pt]
		fired := false
		verifhook.SetHandler(func(name, a string) {
			if fired || name != want || a != arg {
				return
			}
			fired = true
			ncrash++
			next := fmt.Sprintf("%s.crash%d", dir, ncrash)
			_ = os.RemoveAll(next)
			if err := verifC13CopyDir(cur, next); err != nil {
				crashErr = "copy: " + err.Error()
				return
			}
			crashImage = next
			panic(verifC13Died{})
		})
	}
	afterCrash := func(o *VerifC13Out) string {
		verifhook.SetHandler(nil)
		if crashErr != "" {
			return crashErr
		}
		if crashImage == "" {
			return ""
		}
		if o.Oc != "crashed" {
			return "crash image taken but the write did not die: " + o.Oc
		}
		_ = s.Close()
		_ = os.RemoveAll(cur)
		cur = crashImage
		crashImage = ""
		s, dsm = verifC13Open(cur)
		verifC13Settle(cur)
		ctxStores = nil
		return ""
	}
	for _, op := range c.Ops {
		pad += 64
		var o VerifC13Out
		strOut := func(r string, err error) {
			if err != nil {
				o = VerifC13Out{K: "err", Msg: err.Error()}
			} else {
				o = VerifC13Out{K: "str", S: r}
			}
		}
		switch op.Op {
		case "assert":
			strOut(s.NamespaceManager.AssertPrefixMappingForExpansion(op.S))
		case "compact":
			strOut(s.GetNamespacedIdentifierFromURI(op.S))
		case "nsid":
			strOut(s.GetNamespacedIdentifier(op.S, op.Locals))
		case "expand":
			strOut(s.ExpandCurie(op.S))
		case "getprefix":
			strOut(s.NamespaceManager.GetPrefixMappingForExpansion(op.S))
		case "fetch":
			h := s.GetGlobalContext(false)
			handles = append(handles, h)
			o = VerifC13Out{K: "ctx", M: verifPairs(h.Namespaces)}
		case "read":
			if op.H < len(handles) {
				// what a serialiser of the earlier response would write now
				b, _ := json.Marshal(handles[op.H])
				var back Context
				_ = json.Unmarshal(b, &back)
				o = VerifC13Out{K: "ctx", M: verifPairs(back.Namespaces)}
			} else {
				o = VerifC13Out{K: "err"}
			}
		case "tcompact":
			strOut(VerifC13TCompact(s, op.S))
		case "srcpage":
			id, key, err := VerifC13SrcRead(s, op.Locals, op.S)
			if err == nil && id != key {
				// the page's entity id and its property key are the same identifier
				o = VerifC13Out{K: "str", S: key, Msg: "entity id compacted to " + id}
			} else {
				strOut(key, err)
			}
		case "jsonld":
			// a page of the dataset rendered as JSON-LD by the real handler
			code, body := VerifC13HTTPGet(s, dsm, "/datasets/"+op.Ds+"/entities", "application/ld+json")
			if code != 200 {
				o = VerifC13Out{K: "err", Msg: fmt.Sprintf("status %d: %.200s", code, body)}
			} else {
				o = VerifC13Out{K: "none"}
			}
		case "page":
			// the @context a plain JSON page of the dataset carries
			path := "/datasets/" + op.Ds + "/entities"
			if op.Txn {
				path = "/datasets/" + op.Ds + "/changes"
			}
			code, body := VerifC13HTTPGet(s, dsm, path, "")
			var arr []map[string]interface{}
			if code != 200 || json.Unmarshal(body, &arr) != nil || len(arr) == 0 || arr[0]["id"] != "@context" {
				o = VerifC13Out{K: "err", Msg: fmt.Sprintf("status %d: %.200s", code, body)}
			} else {
				m := map[string]string{}
				if ns, ok := arr[0]["namespaces"].(map[string]interface{}); ok {
					for k, v := range ns {
						m[k], _ = v.(string)
					}
				}
				o = VerifC13Out{K: "ctx", M: verifPairs(m)}
			}
		case "namespaces":
			code, body := VerifC13HTTPGet(s, dsm, "/namespaces", "")
			m := map[string]string{}
			if code != 200 || json.Unmarshal(body, &m) != nil {
				o = VerifC13Out{K: "err", Msg: fmt.Sprintf("status %d: %.200s", code, body)}
			} else {
				o = VerifC13Out{K: "ctx", M: verifPairs(m)}
			}
		case "batch":
			ents := verifC13Ents(op.Ents, &pad)
			armCrash(op, op.Txn)
			if op.Txn {
				o = verifC13Write(func() error {
					return s.ExecuteTransaction(&Transaction{DatasetEntities: map[string][]*Entity{op.Ds: ents}})
				}, ents)
			} else {
				ds := dsm.GetDataset(op.Ds)
				o = verifC13Write(func() error { return ds.StoreEntities(ents) }, ents)
			}
			if msg := afterCrash(&o); msg != "" {
				return VerifC13Obs{Outcome: "setup-error", Detail: msg}
			}
		case "ctxnew":
			ctxStores = append(ctxStores, NewContextualStore(s))
			o = VerifC13Out{K: "unit"}
		case "ctxtxn":
			ents := verifC13Ents(op.Ents, &pad)
			if op.K < len(ctxStores) {
				cs := ctxStores[op.K]
				armCrash(op, true)
				o = verifC13Write(func() error {
					return cs.ExecuteTransaction(&Transaction{DatasetEntities: map[string][]*Entity{op.Ds: ents}})
				}, ents)
				if msg := afterCrash(&o); msg != "" {
					return VerifC13Obs{Outcome: "setup-error", Detail: msg}
				}
			} else {
				o = VerifC13Out{K: "err"}
			}
		case "restart":
			if op.Crash {
				// the process dies: what is on disk right now is what the next process finds
				ncrash++
				next := fmt.Sprintf("%s.crash%d", dir, ncrash)
				_ = os.RemoveAll(next)
				if err := verifC13CopyDir(cur, next); err != nil {
					return VerifC13Obs{Outcome: "setup-error", Detail: "copy: " + err.Error()}
				}
				_ = s.Close()
				_ = os.RemoveAll(cur)
				cur = next
			} else {
				if err := s.Close(); err != nil {
					return VerifC13Obs{Outcome: "setup-error", Detail: "close: " + err.Error()}
				}
			}
			s, dsm = verifC13Open(cur)
			if op.Crash {
				verifC13Settle(cur)
			}
			ctxStores = nil
			o = VerifC13Out{K: "unit"}
		case "dump":
			o = verifC13Dump(s)
		default:
			return VerifC13Obs{Outcome: "setup-error", Detail: "unknown op " + op.Op}
		}
		obs.Outs = append(obs.Outs, o)
	}
	obs.Outcome = "ok"
	return obs
}

// badger replays the copied memtable log and flushes it in the background; let that finish so that crash
// images taken later do not accumulate replay work (harness cost only)
func verifC13Settle(dir string) {
	for i := 0; i < 400; i++ {
		ms, _ := filepath.Glob(filepath.Join(dir, "*.mem"))
		if len(ms) <= 1 {
			return
		}
		time.Sleep(5 * time.Millisecond)
	}
}

// verifC13CopyDir copies the (flat) store directory, skipping the holes of badger's preallocated files.
func verifC13CopyDir(src, dst string) error {
	if err := os.MkdirAll(dst, 0o755); err != nil {
		return err
	}
	des, err := os.ReadDir(src)
	if err != nil {
		return err
	}
	for _, de := range des {
		if de.IsDir() || de.Name() == "LOCK" {
			continue
		}
		if err := verifC13CopySparse(filepath.Join(src, de.Name()), filepath.Join(dst, de.Name())); err != nil {
			return err
		}
	}
	return nil
}

func verifC13CopySparse(src, dst string) error {
	in, err := os.Open(src)
	if err != nil {
		return err
	}
	defer in.Close()
	st, err := in.Stat()
	if err != nil {
		return err
	}
	out, err := os.Create(dst)
	if err != nil {
		return err
	}
	defer out.Close()
	if err := out.Truncate(st.Size()); err != nil {
		return err
	}
	const seekData, seekHole = 3, 4
	off := int64(0)
	for off < st.Size() {
		d, err := in.Seek(off, seekData)
		if err != nil { // ENXIO: no more data
			break
		}
		h, err := in.Seek(d, seekHole)
		if err != nil {
			h = st.Size()
		}
		if _, err := in.Seek(d, io.SeekStart); err != nil {
			return err
		}
		if _, err := out.Seek(d, io.SeekStart); err != nil {
			return err
		}
		if _, err := io.CopyN(out, in, h-d); err != nil {
			return err
		}
		off = h
	}
	return nil
}

// ---- the concurrent reader/asserter workload (child process, watchdog in the parent) ----

func verifC13ConcParent(c VerifC13Case, dir string) VerifC13Obs {
	b, _ := json.Marshal(c)
	cmd := exec.Command(os.Args[0], dir, "conc", string(b))
	var stderr, stdout bytes.Buffer
	cmd.Stderr = &stderr
	cmd.Stdout = &stdout
	if err := cmd.Start(); err != nil {
		return VerifC13Obs{Outcome: "setup-error", Detail: err.Error()}
	}
	done := make(chan error, 1)
	go func() { done <- cmd.Wait() }()
	defer os.RemoveAll(dir)
	select {
	case err := <-done:
		if err == nil && strings.Contains(stdout.String(), "@@CONC-SURVIVED") {
			return VerifC13Obs{Outcome: "ok", Conc: "survived"}
		}
		e := stderr.String()
		if i := strings.Index(e, "inconsistent answers:"); i >= 0 {
			d := e[i:]
			if len(d) > 500 {
				d = d[:500]
			}
			return VerifC13Obs{Outcome: "ok", Conc: "inconsistent", Detail: strings.TrimSpace(d)}
		}
		// the live map is read by a serialiser while an asserter writes it: either Go's detector fires
		// ("fatal error: concurrent map ...") or encoding/json's map encoder trips over the map that grew
		// under it (index out of range in mapEncoder.encode)
		if c.Conc.Rounds > 0 && strings.Contains(e, "concurrent map") {
			// the burst workload has no context readers: a concurrent-map death here is an unlocked access to the
			// manager's own maps, never the (recorded) live-context alias
			i := strings.Index(e, "fatal error")
			if i < 0 {
				i = 0
			}
			j := i + 300
			if j > len(e) {
				j = len(e)
			}
			return VerifC13Obs{Outcome: "ok", Conc: "died-map-burst", Detail: strings.TrimSpace(e[i:j])}
		}
		if strings.Contains(e, "concurrent map") || strings.Contains(e, "encoding/json.mapEncoder.encode") {
			i := strings.Index(e, "fatal error")
			if i < 0 {
				i = strings.Index(e, "panic:")
			}
			if i < 0 {
				i = 0
			}
			j := i + 80
			if j > len(e) {
				j = len(e)
			}
			return VerifC13Obs{Outcome: "ok", Conc: "died-map", Detail: strings.TrimSpace(strings.SplitN(e[i:j], "\n", 2)[0])}
		}
		if len(e) > 600 {
			e = e[:600]
		}
		return VerifC13Obs{Outcome: "ok", Conc: "died-other", Detail: e}
	case <-time.After(120 * time.Second):
		_ = cmd.Process.Kill()
		return VerifC13Obs{Outcome: "ok", Conc: "hang"}
	}
}

// VerifC13ConcChild: asserters introduce new namespaces and store entities with new ids while
// readers fetch the global context and serialise it, expand and compact.  Every answer is checked
// for consistency; the process prints @@CONC-SURVIVED at the end.
func VerifC13ConcChild(c VerifC13Case, dir string) {
	if c.Conc.Rounds > 0 {
		verifC13BurstChild(c, dir)
		return
	}
	_ = os.RemoveAll(dir)
	s, dsm := verifC13Open(dir)
	for _, d := range c.Dss {
		_, _ = dsm.CreateDataset(d, nil)
	}
	var wg sync.WaitGroup
	var mu sync.Mutex
	bad := []string{}
	fail := func(m string) { mu.Lock(); bad = append(bad, m); mu.Unlock() }
	stop := make(chan struct{})
	for a := 0; a < c.Conc.Asserters; a++ {
		wg.Add(1)
		go func(a int) {
			defer wg.Done()
			ds := dsm.GetDataset(c.Dss[a%len(c.Dss)])
			for i := 0; i < c.Conc.Iters; i++ {
				// two asserters share every namespace and every entity id: both must get the same answers
				uri := fmt.Sprintf("http://conc.example/n%d/%d#e%d", a/2, i, i)
				curie, err := s.GetNamespacedIdentifierFromURI(uri)
				if err != nil {
					fail("compact: " + err.Error())
					continue
				}
				back, err := s.ExpandCurie(curie)
				if err != nil || back != uri {
					fail("roundtrip " + uri + " -> " + curie + " -> " + back)
				}
				e := NewEntity(curie, 0)
				e.Properties["v"] = i
				if err := ds.StoreEntities([]*Entity{e}); err != nil {
					fail("store: " + err.Error())
				}
			}
		}(a)
	}
	var rg sync.WaitGroup
	for r := 0; r < c.Conc.Readers; r++ {
		rg.Add(1)
		go func() {
			defer rg.Done()
			for {
				select {
				case <-stop:
					return
				default:
				}
				ctx := s.GetGlobalContext(false)
				b, _ := json.Marshal(ctx) // what web/namespacehandler.go and the query handler do
				var back Context
				if err := json.Unmarshal(b, &back); err != nil {
					fail("context does not parse: " + err.Error())
				}
				for p, e := range back.Namespaces {
					if q, err := s.NamespaceManager.GetPrefixMappingForExpansion(e); err != nil || q != p {
						fail("context entry " + p + "=" + e + " is not the manager's mapping")
					}
				}
			}
		}()
	}
	wg.Wait()
	close(stop)
	rg.Wait()
	// both indexes must be each other's inverse and every namespace unique
	d := verifC13Dump(s)
	u2i := map[string]uint64{}
	for _, x := range d.U2I {
		u2i[x.U] = x.I
	}
	seen := map[uint64]string{}
	for _, x := range d.I2U {
		if o, dup := seen[x.I]; dup {
			fail(fmt.Sprintf("id %d maps to %s and %s", x.I, o, x.U))
		}
		seen[x.I] = x.U
		if u2i[x.U] != x.I {
			fail(fmt.Sprintf("id index disagrees for %s: %d vs %d", x.U, x.I, u2i[x.U]))
		}
	}
	if len(d.U2I) != len(d.I2U) || len(d.P2E) != len(d.E2P) {
		fail("index sizes differ")
	}
	_ = s.Close()
	_ = os.RemoveAll(dir)
	if len(bad) > 0 {
		fmt.Fprintln(os.Stderr, "inconsistent answers:", bad[0], "(", len(bad), ")")
		os.Exit(3)
	}
	fmt.Println("@@CONC-SURVIVED")
}

// ---- bounded concurrent bursts on the namespace manager ----
// Only schedule-independent facts are checked: (a) all callers introducing the same namespace get the same
// CURIE and it expands back; (b) the live maps are mutually inverse and contain every handed-out pair;
// (c) the persisted state object (exactly what Open would load) contains every handed-out pair once all
// callers have their answers; (d) after Close + NewStore every handed-out pair is still there and a brand
// new namespace gets a prefix nobody was given before.
func verifC13BurstChild(c VerifC13Case, dir string) {
	_ = os.RemoveAll(dir)
	s, dsm := verifC13Open(dir)
	_ = dsm
	var mu sync.Mutex
	handed := map[string]string{} // prefix -> expansion, every pair any caller was given
	bad := []string{}
	fail := func(m string) { mu.Lock(); bad = append(bad, m); mu.Unlock() }
	give := func(prefix, exp string) {
		mu.Lock()
		defer mu.Unlock()
		if old, ok := handed[prefix]; ok && old != exp {
			bad = append(bad, fmt.Sprintf("prefix %s handed out for %s and for %s", prefix, old, exp))
		}
		handed[prefix] = exp
	}
	compact := func(uri, exp string) string {
		curie, err := s.GetNamespacedIdentifierFromURI(uri)
		if err != nil {
			fail("compact: " + err.Error())
			return ""
		}
		i := strings.Index(curie, ":")
		if i < 0 {
			fail("not a curie: " + curie)
			return ""
		}
		give(curie[:i], exp)
		if back, err := s.ExpandCurie(curie); err != nil || back != uri {
			fail("roundtrip " + uri + " -> " + curie + " -> " + back)
		}
		return curie
	}
	checkLive := func(when string) {
		s.NamespaceManager.lock.Lock()
		p2e := verifPairs(s.NamespaceManager.prefixToExpansionMapping)
		e2p := map[string]string{}
		for k, v := range s.NamespaceManager.expansionToPrefixMapping {
			e2p[k] = v
		}
		s.NamespaceManager.lock.Unlock()
		if len(p2e) != len(e2p) {
			fail(fmt.Sprintf("%s: %d prefixes for %d expansions", when, len(p2e), len(e2p)))
		}
		live := map[string]string{}
		for _, pe := range p2e {
			live[pe[0]] = pe[1]
			if e2p[pe[1]] != pe[0] {
				fail(fmt.Sprintf("%s: prefix %s -> %s but that expansion maps back to %q", when, pe[0], pe[1], e2p[pe[1]]))
			}
		}
		mu.Lock()
		for p, e := range handed {
			if live[p] != e {
				bad = append(bad, fmt.Sprintf("%s: handed-out %s = %s is now %q", when, p, e, live[p]))
			}
		}
		mu.Unlock()
	}
	checkPersisted := func(when string) {
		st := &NamespacesState{}
		if err := s.GetObject(NamespacesIndex, "namespacestate", st); err != nil {
			fail("persisted state unreadable: " + err.Error())
			return
		}
		mu.Lock()
		for p, e := range handed {
			if st.PrefixToExpansionMapping[p] != e || st.ExpansionToPrefixMapping[e] != p {
				bad = append(bad, fmt.Sprintf("%s: handed-out %s = %s is not in the persisted state (a restart now loses it)", when, p, e))
				break
			}
		}
		mu.Unlock()
	}
	if c.Conc.Resolvers > 0 {
		ba := NewBadgerAccess(s, dsm)
		stopR := make(chan struct{})
		var rg sync.WaitGroup
		for i := 0; i < c.Conc.Resolvers; i++ {
			rg.Add(1)
			go func() {
				defer rg.Done()
				for {
					select {
					case <-stopR:
						return
					default:
					}
					if p, err := ba.LookupExpansionPrefix(types.URI("http://data.mimiro.io/core/dataset/")); err != nil || string(p) != "ns0" {
						fail(fmt.Sprintf("LookupExpansionPrefix(core dataset namespace) = %q, %v", p, err))
						return
					}
					if e, err := ba.LookupNamespaceExpansion(types.Prefix("ns1")); err != nil || string(e) != "http://data.mimiro.io/core/" {
						fail(fmt.Sprintf("LookupNamespaceExpansion(ns1) = %q, %v", e, err))
						return
					}
				}
			}()
		}
		for n := 0; n < c.Conc.Grow; n++ {
			exp := fmt.Sprintf("http://burst.example/grow/%d/", n)
			compact(exp+"x", exp)
		}
		close(stopR)
		rg.Wait()
	}
	bgN := 0
	for r := 0; r < c.Conc.Rounds && len(bad) == 0; r++ {
		// phase A: the same new namespace from K callers while another request stream holds the write lock
		stop := make(chan struct{})
		var bg sync.WaitGroup
		bg.Add(1)
		go func() {
			defer bg.Done()
			for {
				select {
				case <-stop:
					return
				default:
				}
				bgN++
				exp := fmt.Sprintf("http://burst.example/bg/%d/", bgN)
				compact(exp+"x", exp)
			}
		}()
		var wg sync.WaitGroup
		start := make(chan struct{})
		same := fmt.Sprintf("http://burst.example/same/%d/", r)
		got := make([]string, c.Conc.K)
		for i := 0; i < c.Conc.K; i++ {
			wg.Add(1)
			go func(i int) {
				defer wg.Done()
				<-start
				got[i] = compact(same+"item", same)
			}(i)
		}
		time.Sleep(200 * time.Microsecond) // let the background stream get going
		close(start)
		wg.Wait()
		close(stop)
		bg.Wait()
		for i := 1; i < len(got); i++ {
			if got[i] != got[0] {
				fail(fmt.Sprintf("round %d: the same URI was compacted to %s and to %s by concurrent callers", r, got[0], got[i]))
				break
			}
		}
		// phase B: K different new namespaces at once, nothing afterwards
		start2 := make(chan struct{})
		for i := 0; i < c.Conc.K; i++ {
			wg.Add(1)
			go func(i int) {
				defer wg.Done()
				<-start2
				exp := fmt.Sprintf("http://burst.example/diff/%d/%d/", r, i)
				compact(exp+"item", exp)
			}(i)
		}
		close(start2)
		wg.Wait()
		when := fmt.Sprintf("round %d", r)
		checkLive(when)
		checkPersisted(when)
		if len(bad) == 0 && (r%6 == 5 || r == c.Conc.Rounds-1) {
			if err := s.Close(); err != nil {
				fail("close: " + err.Error())
				break
			}
			s, _ = verifC13Open(dir)
			checkLive(when + " after restart")
			exp := fmt.Sprintf("http://burst.example/fresh/%d/", r)
			mu.Lock()
			n := len(handed)
			mu.Unlock()
			curie := compact(exp+"x", exp)
			mu.Lock()
			if len(handed) != n+1 {
				bad = append(bad, fmt.Sprintf("%s after restart: the new namespace %s was given %s, a prefix handed out before", when, exp, curie))
			}
			mu.Unlock()
			checkLive(when + " after restart+assert")
		}
	}
	_ = s.Close()
	_ = os.RemoveAll(dir)
	if len(bad) > 0 {
		fmt.Fprintln(os.Stderr, "inconsistent answers:", bad[0], "(", len(bad), ")")
		os.Exit(3)
	}
	fmt.Println("@@CONC-SURVIVED")
}
