//go:build verif

// Injected into package source by `go build -overlay`: ONE HTTPDatasetSource object read several times against
// an httptest remote whose context differs from response to response.
package source

import (
	"context"
	"encoding/json"
	"errors"
	"net/http"
	"net/http/httptest"
	"sync"

	"go.uber.org/zap"

	"github.com/mimiro-io/datahub/internal/server"
)

type VerifC13Source struct {
	mu   sync.Mutex
	body []byte
	srv  *httptest.Server
	src  *HTTPDatasetSource
	n    int
}

func VerifC13NewSource(store *server.Store) *VerifC13Source {
	v := &VerifC13Source{}
	v.srv = httptest.NewServer(http.HandlerFunc(func(w http.ResponseWriter, r *http.Request) {
		v.mu.Lock()
		b := v.body
		v.mu.Unlock()
		w.Header().Set("Content-Type", "application/json")
		_, _ = w.Write(b)
	}))
	v.src = &HTTPDatasetSource{Endpoint: v.srv.URL + "/datasets/remote/changes", Store: store, Logger: zap.NewNop().Sugar()}
	return v
}

func (v *VerifC13Source) Close() { v.srv.Close() }

// Read serves one page whose context is locals and whose single entity has id key and one property named key,
// and returns the hub's CURIE for the id and for the property key.
func (v *VerifC13Source) Read(locals map[string]string, key string) (string, string, error) {
	ns := map[string]interface{}{}
	for k, e := range locals {
		ns[k] = e
	}
	page := []interface{}{
		map[string]interface{}{"id": "@context", "namespaces": ns},
		map[string]interface{}{"id": key, "props": map[string]interface{}{key: "x"}, "refs": map[string]interface{}{}},
	}
	b, _ := json.Marshal(page)
	v.mu.Lock()
	v.body = b
	v.n++
	since := &StringDatasetContinuation{}
	if v.n > 1 {
		since.Token = "p"
	}
	v.mu.Unlock()
	var got []*server.Entity
	err := v.src.ReadEntities(context.Background(), since, 100, func(es []*server.Entity, _ DatasetContinuation) error {
		got = append(got, es...)
		return nil
	})
	if err != nil {
		return "", "", err
	}
	if len(got) != 1 || len(got[0].Properties) != 1 {
		return "", "", errors.New("unexpected page content")
	}
	for k := range got[0].Properties {
		return got[0].ID, k, nil
	}
	return "", "", nil
}
