//go:build verif

// verif driver for property C13: reads one JSON case per line on stdin, writes one "@@OBS <json>" line per case.
// With argv[2] == "conc" it runs the concurrent reader/asserter workload once (child process of the driver).
package main

import (
	"bufio"
	"encoding/json"
	"fmt"
	"os"

	"net/http/httptest"

	"github.com/mimiro-io/datahub/internal/jobs"
	"github.com/mimiro-io/datahub/internal/jobs/source"
	"github.com/mimiro-io/datahub/internal/server"
	"github.com/mimiro-io/datahub/internal/web"
)

// one HTTPDatasetSource per store object, kept across the reads of a case
var srcOf = map[*server.Store]*source.VerifC13Source{}

func srcRead(store *server.Store, locals map[string]string, key string) (string, string, error) {
	v, ok := srcOf[store]
	if !ok {
		for s, old := range srcOf {
			old.Close()
			delete(srcOf, s)
		}
		v = source.VerifC13NewSource(store)
		srcOf[store] = v
	}
	return v.Read(locals, key)
}

// requests through the real handlers of internal/web (package server cannot import package web)
func httpGet(store *server.Store, dsm *server.DsManager, path, accept string) (int, []byte) {
	e := web.VerifC13Echo(store, dsm)
	req := httptest.NewRequest("GET", path, nil)
	if accept != "" {
		req.Header.Set("Accept", accept)
	}
	rec := httptest.NewRecorder()
	e.ServeHTTP(rec, req)
	return rec.Code, rec.Body.Bytes()
}

func main() {
	server.VerifC13HTTPGet = httpGet
	server.VerifC13TCompact = jobs.VerifC13HttpTransform
	server.VerifC13SrcRead = srcRead
	dir := os.Args[1]
	if len(os.Args) > 2 && os.Args[2] == "conc" {
		var c server.VerifC13Case
		if err := json.Unmarshal([]byte(os.Args[3]), &c); err != nil {
			fmt.Fprintln(os.Stderr, "bad case:", err)
			os.Exit(2)
		}
		server.VerifC13ConcChild(c, dir)
		return
	}
	in := bufio.NewScanner(os.Stdin)
	in.Buffer(make([]byte, 1<<20), 1<<26)
	out := bufio.NewWriter(os.Stdout)
	defer out.Flush()
	i := 0
	for in.Scan() {
		var c server.VerifC13Case
		if err := json.Unmarshal(in.Bytes(), &c); err != nil {
			fmt.Fprintln(os.Stderr, "bad case:", err)
			os.Exit(2)
		}
		obs := server.VerifC13Run(c, fmt.Sprintf("%s/c%d", dir, i))
		b, _ := json.Marshal(obs)
		out.WriteString("@@OBS ")
		out.Write(b)
		out.WriteString("\n")
		out.Flush()
		i++
	}
}
