"""Histories of store operations: generator, canonicaliser (observed JSON -> codes) and Coq term printer,
shared by the store-core properties (C01, C02, ...).  The Go side is harness/store/zz_verif_store.go."""
import json
import re

import vlib

NS = "http://v/"
DS_NAMES = ["a", "b", "c"]

# ---------------------------------------------------------------- content catalogue
NESTED1 = {"id": "n1", "props": {"q": 1}, "refs": {}}
NESTED2 = {"id": "n2", "props": {"q": "zz"}, "refs": {"r1": "e1"}}
VALUES = ["a", "b", "bb", "xyz", "uvw", 1, 2, 22, True, False, [1, 2], ["a", "b"], [], NESTED1, NESTED2, [NESTED1], "aaaaaaaaaaaaaaa",
          1.5, 1.2, -3, 0, "", "\u00e9", [[1, 2], [3]], [1.5, "a"]]
PKEYS = ["p1", "p2", "p3", "p4"]
RKEYS = ["r1", "r2"]
IDS = ["e1", "e2", "e3", "e4", "e5"]


def has_obj(v):
    if isinstance(v, dict):
        return True
    if isinstance(v, list):
        return any(has_obj(x) for x in v)
    return False


_BASE = [NS]     # the expansion relative ids / keys of POSTED entities get (an hbatch with its own context changes it for that op)


def expand(s, ns=None):
    """CURIE or relative id -> full URI"""
    if s.startswith("http://") or s.startswith("https://"):
        return s
    m = re.match(r"^(ns\d+):(.*)$", s)
    if m and ns is not None and m.group(1) in ns:
        return ns[m.group(1)] + m.group(2)
    return (_BASE[0] if ns is None else NS) + s


def canon_value(v, ns=None):
    if isinstance(v, dict):
        if "id" in v or "props" in v or "refs" in v:
            out = {"id": expand(v.get("id", ""), ns)}
            out["props"] = {expand(k, ns): canon_value(x, ns) for k, x in (v.get("props") or {}).items()}
            out["refs"] = {expand(k, ns): canon_ref(x, ns) for k, x in (v.get("refs") or {}).items()}
            if v.get("deleted"):
                out["deleted"] = True
            return out
        return {k: canon_value(x, ns) for k, x in v.items()}
    if isinstance(v, list):
        return [canon_value(x, ns) for x in v]
    if isinstance(v, float) and v == int(v):
        return int(v)
    if v == "@@null":
        return None      # a nil property value stored through the Go API (marker understood by the driver)
    return v


def canon_ref(v, ns=None):
    if isinstance(v, list):
        return [expand(x, ns) if isinstance(x, str) else x for x in v]
    return expand(v, ns) if isinstance(v, str) else v


class Codes:
    """stable integer codes for URIs, keys and values within one check run"""

    def __init__(self):
        self.val = {}
        self.uri = {}

    def vcode(self, cv):
        k = json.dumps(cv, sort_keys=True)
        if k not in self.val:
            self.val[k] = len(self.val) + 1
        return self.val[k]

    def ucode(self, full):
        m = re.match(r"^http://v/([a-z]+)(\d+)$", full)
        if m:
            base = {"e": 0, "p": 1000, "r": 2000, "n": 3000}.get(m.group(1))
            if base is not None:
                return base + int(m.group(2))
        if full not in self.uri:
            self.uri[full] = 5000 + len(self.uri)
        return self.uri[full]


def content_term(codes, ent, ns, length):
    """ent: {id, deleted, props, refs} posted (ns=None) or observed (ns=map) -> Coq content"""
    props = []
    for k, v in (ent.get("props") or {}).items():
        cv = canon_value(v, ns)
        props.append((codes.ucode(expand(k, ns)), codes.vcode(cv), has_obj(v)))
    props.sort()
    refs = []
    for k, v in (ent.get("refs") or {}).items():
        cv = canon_ref(v, ns)
        arr = isinstance(cv, list)
        tg = cv if arr else [cv]
        refs.append((codes.ucode(expand(k, ns)), arr, [codes.ucode(t) if isinstance(t, str) else -1 for t in tg]))
    refs.sort()
    ps = vlib.coq_list(["(%d, {| pv_code := %d; pv_obj := %s |})" % (k, c, vlib.coq_bool(o)) for k, c, o in props])
    rs = vlib.coq_list(["(%d, {| rv_arr := %s; rv_tgts := %s |})" % (k, vlib.coq_bool(a), vlib.coq_list([vlib.zlit(t) for t in tg]))
                        for k, a, tg in refs])
    return "{| c_del := %s; c_props := %s; c_refs := %s; c_len := %d |}" % (
        vlib.coq_bool(bool(ent.get("deleted"))), ps, rs, length)


def items_of(codes, v, ns):
    cv = canon_value(v, ns)
    if isinstance(cv, list):
        return True, [codes.vcode(x) for x in cv]
    return False, [codes.vcode(cv)]


def value_table(codes, case):
    """value code -> (is a list, item codes) for every property value posted in the case"""
    tbl = {}
    for op in case["ops"]:
        groups = [op.get("ents") or [], op.get("second") or []] + [s_.get("ents") or [] for s_ in (op.get("sets") or [])]
        for g in groups:
            for e in g:
                for v in (e.get("props") or {}).values():
                    tbl[codes.vcode(canon_value(v, None))] = items_of(codes, v, None)
    return vlib.coq_list(["(%d, {| rv_arr := %s; rv_tgts := %s |})" % (k, vlib.coq_bool(a), vlib.coq_list([vlib.zlit(t) for t in tg]))
                          for k, (a, tg) in sorted(tbl.items())])


def ent_term(codes, ent, length):
    return "{| e_id := %d; e_c := %s |}" % (codes.ucode(expand(ent["id"])), content_term(codes, ent, None, length))


def oent_term(codes, ent, ns):
    return "(%d, %s)" % (codes.ucode(expand(ent["id"], ns)), content_term(codes, ent, ns, 0))


def ds_code(case, name):
    name = (case.get("proxies") or {}).get(name, name)     # a proxy dataset answers like the dataset it points at
    return case["datasets"].index(name) + 1 if name in case["datasets"] else 99


def write_ticks(case):
    """logical time of every write op (tick number), by op index"""
    t = 0
    ticks = {}
    for i, op in enumerate(case["ops"]):
        if (op["op"] == "batch" and op.get("reject")) or op.get("pre"):
            pass
        elif op["op"] == "par":
            t += len(op["sets"])
            ticks[i] = t
        elif op["op"] in ("batch", "txn", "htxn", "jstxn"):
            t += 1
            ticks[i] = t
        elif op["op"] == "race":
            t += 2
            ticks[i] = t
        elif op["op"] == "hbatch" and op.get("reject"):
            t += len(op["ents"]) // 10
            ticks[i] = t
        elif op["op"] == "hbatch":
            t += (len(op["ents"]) + 9) // 10     # the HTTP handler stores batches of 10
            ticks[i] = t
    return ticks


def rank_maps(case, obs):
    """Histories with a refused batch: Badger's sequence hands out numbers also for the entries of a batch that is then refused,
    so the change log has holes and continuation tokens (opaque to a client) are no longer list positions.  The final `seqs` op of
    each dataset reports the sequence numbers really present; tokens are renumbered to their rank among them (a monotone map)."""
    if not any(op.get("reject") for op in case["ops"]):
        return {}
    maps = {}
    for i, op in enumerate(case["ops"]):
        if op["op"] == "seqs" and i < len(obs.get("ops", [])):
            maps[op["ds"]] = sorted(obs["ops"][i].get("seqs") or [])
    return maps


def case_term(codes, case, obs):
    """(case, observation) -> Coq term of type StoreCheck.tcase; reader tokens are resolved from the observation"""
    rmaps = rank_maps(case, obs)
    if rmaps:
        import bisect
        case = json.loads(json.dumps(case))
        obs = json.loads(json.dumps(obs))

        prox = case.get("proxies") or {}

        def rk(ds, t):
            ds = prox.get(ds, ds)
            return bisect.bisect_left(rmaps.get(ds, []), t) if isinstance(t, int) and t > 0 and ds in rmaps else t
        rawtok = {}
        for i, op in enumerate(case["ops"]):
            oo = obs["ops"][i] if i < len(obs.get("ops", [])) and isinstance(obs["ops"][i], dict) else {}
            rev = op["op"] == "changes_rev" or (op["op"] == "hchanges" and op.get("reverse"))
            if rev:
                # a reverse token t > 0 below every sequence number present says "nothing below"; no dense token says
                # that (0 = from the end): such reads are left out
                key = (op["op"], op.get("reader"), op["ds"])
                raw = rawtok.get(key, 0) if op.get("reader") else op.get("since", 0)
                if op.get("reader") and "next" in oo:
                    rawtok[key] = oo["next"]
                if raw > 0 and rk(op["ds"], raw) == 0:
                    op["op"] = "seqs"
                    continue
            if "since" in op:
                op["since"] = rk(op["ds"], op["since"])
            if "next" in oo:
                oo["next"] = rk(op["ds"], oo["next"])
    ns = obs.get("ns") or {}
    ticks = write_ticks(case)
    terms = []
    tokens = {}
    for i, op in enumerate(case["ops"]):
        oo = obs["ops"][i] if i < len(obs.get("ops", [])) else {}
        k = op["op"]
        _BASE[0] = op.get("ctx") or NS
        if op.get("pre") or k == "recreate":
            # `pre`: an operation on an EARLIER incarnation of a dataset that `recreate` then deletes and creates anew; the
            # model starts with the new incarnation (deleting a dataset is C07's subject), the implementation ran all of it
            continue
        if k in ("hquery", "jsfind"):      # the lookup through POST /query {entityId} / the JS binding FindById (always merged)
            k = "get"
            if op["op"] == "jsfind":
                op = dict(op, merge=True)
        elif k in ("htxn", "jstxn"):       # POST /transactions / a transaction built in JavaScript
            k = "txn"
        elif k == "jschanges":             # the JS binding GetDatasetChanges: always latest-only
            k = "changes"
            op = dict(op, latest=True, reader=("js:" + op["reader"]) if op.get("reader") else None)
        if k == "batch" and op.get("reject") and oo.get("err"):
            # a batch the store refuses as a whole (nil reference in its last entity): no write in the model.  When the
            # store ACCEPTS it instead, it is an accepted write like any other: every entity of it must then be there
            pass
        elif k == "batch":
            lens = oo.get("lens") or [0] * len(op["ents"])
            ents = vlib.coq_list([ent_term(codes, e, l) for e, l in zip(op["ents"], lens)])
            bad = bool(oo.get("err") or oo.get("panic"))
            terms.append("SWrite (WBatch %d %s) %s" % (ds_code(case, op["ds"]), ents, vlib.zlit(-2 if bad else oo.get("newseqs", 0))))
        elif k == "txn":
            lens = list(oo.get("lens") or [])
            sets = []
            for s in op["sets"]:
                ls = lens[:len(s["ents"])] + [0] * (len(s["ents"]) - len(lens[:len(s["ents"])]))
                lens = lens[len(s["ents"]):]
                sets.append("(%d, %s)" % (ds_code(case, s["ds"]), vlib.coq_list([ent_term(codes, e, l) for e, l in zip(s["ents"], ls)])))
            terms.append("SWrite (WTxn %s) (-1)" % vlib.coq_list(sets))
        elif k == "changes":
            since = tokens.get((op.get("reader"), op["ds"]), 0) if op.get("reader") else op.get("since", 0)
            ents = vlib.coq_list([oent_term(codes, e, ns) for e in (oo.get("ents") or [])])
            nxt = oo.get("next", 0) if not (oo.get("err") or oo.get("panic")) else -7
            if op.get("reader"):
                tokens[(op["reader"], op["ds"])] = oo.get("next", 0)
            terms.append("SChanges %d %d %d %s %s %s" % (ds_code(case, op["ds"]), since, op.get("limit", 0),
                                                        vlib.coq_bool(op.get("latest", False)), ents, vlib.zlit(nxt)))
        elif k == "entities":
            pages = vlib.coq_list([vlib.coq_list([oent_term(codes, e, ns) for e in pg]) for pg in (oo.get("pages") or [])])
            terms.append("SEntities %d %s %s" % (ds_code(case, op["ds"]), vlib.coq_list([vlib.zlit(x) for x in op.get("limits", [])]), pages))
        elif k == "get" and op.get("merge") and len(op.get("datasets", [])) != 1 and not op.get("at"):
            # merged lookup over several datasets: the merged references are compared (Store.mergeInto on refs)
            refs = []
            if oo.get("found"):
                e = oo["ents"][0]
                for kk, v in (e.get("refs") or {}).items():
                    cv = canon_ref(v, ns)
                    arr = isinstance(cv, list)
                    tg = cv if arr else [cv]
                    refs.append((codes.ucode(expand(kk, ns)), arr, [codes.ucode(t) if isinstance(t, str) else -1 for t in tg]))
            refs.sort()
            rs = vlib.coq_list(["(%d, {| rv_arr := %s; rv_tgts := %s |})" % (kk, vlib.coq_bool(a), vlib.coq_list([vlib.zlit(t) for t in tg]))
                                for kk, a, tg in refs])
            scope = vlib.coq_list([str(ds_code(case, d)) for d in op.get("datasets", [])])
            # merged properties (Store.mergeInto): every value as (is a list, item codes)
            mprops = []
            if oo.get("found"):
                for kk, v in (oo["ents"][0].get("props") or {}).items():
                    mprops.append((codes.ucode(expand(kk, ns)),) + items_of(codes, v, ns))
            mprops.sort()
            ps = vlib.coq_list(["(%d, {| rv_arr := %s; rv_tgts := %s |})" % (kk, vlib.coq_bool(a), vlib.coq_list([vlib.zlit(t) for t in tg]))
                                for kk, a, tg in mprops])
            terms.append("SGetM %d %s %s %s %s" % (codes.ucode(expand(op["id"])), scope, rs, value_table(codes, case), ps))
        elif k == "get":
            at = "None"
            if op.get("at"):
                at = "(Some %d)" % ticks.get(op["at"]["after_op"], 0)
            scope = vlib.coq_list([str(ds_code(case, d)) for d in op.get("datasets", [])])
            found = bool(oo.get("found"))
            parts, deleted = [], False
            if found:
                e = oo["ents"][0]
                plist = (e.get("props") or {}).get("http://data.mimiro.io/core/partials")
                if plist is not None and not op.get("merge"):
                    for pe in plist:
                        pe = dict(pe)
                        pp = dict(pe.get("props") or {})
                        dsn = pp.pop("http://data.mimiro.io/core/datasetname", None)
                        pe["props"] = pp
                        parts.append("(%d, %s)" % (ds_code(case, dsn), content_term(codes, pe, ns, 0)))
                elif e.get("props") or e.get("refs"):
                    # merged body: attributed to the single dataset in scope if there is exactly one
                    dsn = op["datasets"][0] if len(op.get("datasets", [])) == 1 else None
                    parts.append("(%d, %s)" % (ds_code(case, dsn) if dsn else 0, content_term(codes, e, ns, 0)))
                    deleted = bool(e.get("deleted"))
                else:
                    deleted = bool(e.get("deleted"))
            terms.append("SGet %d %s %s %s %s %s %s" % (codes.ucode(expand(op["id"])), at, scope, vlib.coq_bool(op.get("merge", False)),
                                                      vlib.coq_bool(found), vlib.coq_list(parts), vlib.coq_bool(deleted)))
        elif k == "hbatch":
            # POST through the HTTP handler: StoreEntities is called once per 10 entities (and once for the rest)
            lens = (list(oo.get("lens") or []) + [0] * len(op["ents"]))[:len(op["ents"])]
            upto = len(op["ents"])
            if op.get("reject") and oo.get("err"):
                # an id-less entity ends the request: the batches of 10 before it are stored, the last partial batch is refused.
                # A request answered 200 instead is an accepted write: all of its entities must then be there
                upto = (len(op["ents"]) // 10) * 10
            for c0 in range(0, upto, 10):
                chunk = vlib.coq_list([ent_term(codes, e, l) for e, l in zip(op["ents"][c0:c0 + 10], lens[c0:c0 + 10])])
                terms.append("SWrite (WBatch %d %s) (-1)" % (ds_code(case, op["ds"]), chunk))
        elif k == "hchanges":
            key = ("hrev" if op.get("reverse") else "h", op.get("reader"), op["ds"])
            since = tokens.get(key, 0) if op.get("reader") else op.get("since", 0)
            ents = vlib.coq_list([oent_term(codes, e, ns) for e in (oo.get("ents") or [])])
            nxt = oo.get("next", 0) if not (oo.get("err") or oo.get("panic")) else -7
            if op.get("since_str"):
                # a position given as a decimal string (up to 2^64-1); the answer's position comes back as a string too
                since = int(op["since_str"])
                if nxt != -7:
                    nxt = int(oo["next_str"]) if (oo.get("next_str") or "").isdigit() else -7
            if op.get("reader"):
                tokens[key] = oo.get("next", 0)
            if op.get("reverse"):
                terms.append("SRev %d %s %d %s %s" % (ds_code(case, op["ds"]), vlib.zlit(since), op.get("limit", 0), ents, vlib.zlit(nxt)))
            else:
                terms.append("SChanges %d %d %d %s %s %s" % (ds_code(case, op["ds"]), since, op.get("limit", 0),
                                                            vlib.coq_bool(op.get("latest", False)), ents, vlib.zlit(nxt)))
        elif k == "hentities":
            pages = vlib.coq_list([vlib.coq_list([oent_term(codes, e, ns) for e in pg]) for pg in (oo.get("pages") or [])])
            terms.append("SEntities %d %s %s" % (ds_code(case, op["ds"]), vlib.coq_list([vlib.zlit(x) for x in op.get("limits", [])]), pages))
        elif k == "race":
            # two writers on one dataset under a forced schedule; with a correct lock the outcome is one of two sequential orders
            lens = list(oo.get("lens") or [])
            n1 = len(op["ents"])
            l1 = (lens[:n1] + [0] * n1)[:n1]
            l2 = (lens[n1:] + [0] * len(op["second"]))[:len(op["second"])]
            w1 = "SWrite (WBatch %d %s) (-1)" % (ds_code(case, op["ds"]), vlib.coq_list([ent_term(codes, e, l) for e, l in zip(op["ents"], l1)]))
            w2 = "SWrite (WBatch %d %s) (-1)" % (ds_code(case, op["ds"]), vlib.coq_list([ent_term(codes, e, l) for e, l in zip(op["second"], l2)]))
            since = tokens.get((op.get("reader"), op["ds"]), 0)
            ents = vlib.coq_list([oent_term(codes, e, ns) for e in (oo.get("ents") or [])])
            nxt = oo.get("next", 0) if not (oo.get("err") or oo.get("panic")) else -7
            tokens[(op.get("reader"), op["ds"])] = oo.get("next", 0)
            rd = "SChanges %d %d %d false %s %s" % (ds_code(case, op["ds"]), since, op.get("limit", 0), ents, vlib.zlit(nxt))
            if op.get("first_txn"):
                w1 = w1.replace("SWrite (WBatch %d " % ds_code(case, op["ds"]), "SWrite (WTxn [(%d, " % ds_code(case, op["ds"]), 1)
                w1 = w1[:-len(" (-1)")][:-1] + ")]) (-1)"
            if op["pause_at"] == "lock.wait":
                terms += [w2, rd, w1]      # writer 1 is held before it takes the lock: writer 2 runs first
            else:
                terms += [rd, w1, w2]      # writer 1 is held inside its critical section: the reader sees neither, then 1, then 2
        elif k == "changes_rev":
            key = ("rev", op.get("reader"), op["ds"])
            since = tokens.get(key, 0) if op.get("reader") else op.get("since", 0)
            ents = vlib.coq_list([oent_term(codes, e, ns) for e in (oo.get("ents") or [])])
            nxt = oo.get("next", 0) if not (oo.get("err") or oo.get("panic")) else -7
            if op.get("reader"):
                tokens[key] = oo.get("next", 0)
            terms.append("SRev %d %s %d %s %s" % (ds_code(case, op["ds"]), vlib.zlit(since), op.get("limit", 0), ents, vlib.zlit(nxt)))
        elif k in ("seqs", "burn", "restart", "mkproxy"):
            pass
        elif k == "par":
            # batches into different datasets stored at the same moment: independent, so any order is THE outcome
            lens = list(oo.get("lens") or [])
            for s_ in op["sets"]:
                ls = (lens[:len(s_["ents"])] + [0] * len(s_["ents"]))[:len(s_["ents"])]
                lens = lens[len(s_["ents"]):]
                terms.append("SWrite (WBatch %d %s) (-1)" % (ds_code(case, s_["ds"]), vlib.coq_list([ent_term(codes, e, l) for e, l in zip(s_["ents"], ls)])))
        elif k == "rawkeys":
            for fam, keys in sorted((oo.get("raw") or {}).items(), key=lambda kv: int(kv[0])):
                ks = vlib.coq_list([vlib.coq_list(["%d%%N" % b for b in bytes.fromhex(h)]) for h in keys])
                terms.append("SRaw %s%%N %s" % (fam, ks))
        else:
            raise ValueError("op kind not handled by case_term: " + k)
    _BASE[0] = NS
    return vlib.coq_list(["\n  " + t for t in terms])


# ---------------------------------------------------------------- generation

def gen_content(rng, deleted_p=(1, 5), nrefs=True, rich=True):
    e = {"props": {}, "refs": {}}
    if rng.chance(*deleted_p):
        e["deleted"] = True
    for k in PKEYS:
        if rng.chance(1, 3):
            e["props"][k] = rng.choice(VALUES if rich else VALUES[:10])
    if nrefs:
        for k in RKEYS:
            if rng.chance(1, 4):
                if rng.chance(1, 2):
                    e["refs"][k] = rng.choice(IDS)
                else:
                    e["refs"][k] = [rng.choice(IDS) for _ in range(rng.range(1, 2))]
    if not e["props"]:
        e["props"]["p1"] = rng.choice(VALUES[:10])
    return e


def with_id(i, c):
    d = {"id": i}
    d.update(json.loads(json.dumps(c)))
    return d


NULLPAIR = ({"props": {"p1": "a", "p2": "@@null"}, "refs": {}}, {"props": {"p1": "a", "p3": True}, "refs": {}})

TOMBPAIR = ({"deleted": True, "props": {"p1": "a"}, "refs": {"r1": "e2"}}, {"deleted": True, "props": {"p1": "a"}, "refs": {"r1": "e3"}})

# engineered pairs (old, new) around the write-time equality shortcut
ENGINEERED = [
    # F01a: deleted -> un-deleted with one more 15-byte property (",\"ns3:p4\":\"xyz\"" vs ",\"deleted\":true")
    ({"deleted": True, "props": {"p1": "a"}, "refs": {}}, {"props": {"p1": "a", "p4": "xyz"}, "refs": {}}),
    # same length, key only in the new version, old key set shrinks by the deleted flag
    ({"deleted": True, "props": {"p1": "b"}, "refs": {"r1": "e2"}}, {"props": {"p1": "b", "p4": "uvw"}, "refs": {"r1": "e2"}}),
    # nested entity re-posted (F02b)
    ({"props": {"p2": NESTED1}, "refs": {}}, {"props": {"p2": NESTED1}, "refs": {}}),
    # same length, different value
    ({"props": {"p1": "a"}, "refs": {}}, {"props": {"p1": "b"}, "refs": {}}),
    # single ref vs array ref
    ({"props": {}, "refs": {"r1": "e2"}}, {"props": {}, "refs": {"r1": ["e2"]}}),
    # delete / undelete same content
    ({"props": {"p1": 1}, "refs": {}}, {"deleted": True, "props": {"p1": 1}, "refs": {}}),
    # a null-valued property (Go API) replaced by another key of the same serialized length
    NULLPAIR,
    # two tombstones that differ in one reference target only
    TOMBPAIR,
    # an array element changes its JSON type at the same index, same serialized length
    ({"props": {"p1": ["12", "x"]}, "refs": {}}, {"props": {"p1": [1234, "x"]}, "refs": {}}),
    ({"props": {"p1": ["x", "ab"]}, "refs": {}}, {"props": {"p1": ["x", True]}, "refs": {}}),
    # a large number changes in its last digit
    ({"props": {"p1": 1700000000123}, "refs": {}}, {"props": {"p1": 1700000000124}, "refs": {}}),
    ({"props": {"p1": 1234.567891}, "refs": {}}, {"props": {"p1": 1234.567892}, "refs": {}}),
    # identical
    ({"props": {"p1": 22, "p3": [1, 2]}, "refs": {"r2": ["e1", "e3"]}}, {"props": {"p1": 22, "p3": [1, 2]}, "refs": {"r2": ["e1", "e3"]}}),
]


def gen_writes(rng, ndatasets, nops, pool, rich=True, reject=False):
    """a list of write ops over datasets[:ndatasets]"""
    ops = []
    memo = {}
    for _ in range(nops):
        if ndatasets > 1 and rng.chance(1, 5):
            sets = []
            for d in range(ndatasets):
                if rng.chance(2, 3):
                    sets.append({"ds": DS_NAMES[d], "ents": gen_batch(rng, pool, memo, DS_NAMES[d], rich)})
            if sets:
                ops.append({"op": "txn", "sets": sets})
                continue
        d = DS_NAMES[rng.below(ndatasets)]
        if reject and rng.chance(1, 8):
            # a refused batch (its contents must leave no trace, also not in what the next batch is compared with)
            ops.append({"op": "batch", "ds": d, "ents": gen_batch(rng, pool, dict(memo), d, rich), "reject": True})
            if rng.chance(1, 2):
                ops.append({"op": "batch", "ds": d, "ents": json.loads(json.dumps(ops[-1]["ents"]))})
                for e in ops[-1]["ents"]:
                    memo[(d, e["id"])] = {k: v for k, v in e.items() if k != "id"}
            continue
        ops.append({"op": "batch", "ds": d, "ents": gen_batch(rng, pool, memo, d, rich)})
    return ops


def js_safe(ents):
    """entities a JavaScript snippet can build value-identically: no nested entities, no nil marker"""
    out = []
    for e in no_null(ents):
        e = json.loads(json.dumps(e))
        for k, v in list((e.get("props") or {}).items()):
            if has_obj(v):
                e["props"][k] = "obj"
        out.append(e)
    return out


def no_null(ents):
    """the HTTP path cannot carry the nil-property marker of the Go API (the handler would store the marker string)"""
    return json.loads(json.dumps(ents).replace('"@@null"', '"nul"'))


def gen_race(rng, pool, memo, ds, reader, rich=True):
    """a forced two-writer schedule on dataset ds (see the race op of the driver)"""
    first = gen_batch(rng, pool, memo, ds, rich)
    second = gen_batch(rng, pool, memo, ds, rich)
    pause = rng.choice(["batch.beforeIdCommit", "lock.wait"])
    if pause == "lock.wait":
        # the model applies second then first: keep memo consistent with that order
        for e in first:
            memo[(ds, e["id"])] = {k: v for k, v in e.items() if k != "id"}
    op = {"op": "race", "ds": ds, "ents": first, "second": second, "pause_at": pause, "reader": reader, "limit": 0}
    if rng.chance(1, 3):
        op["first_txn"] = True
        if pause == "batch.beforeIdCommit":
            op["pause_at"] = "txn.beforeIdCommit"
    return op


SAME_LEN = [["a", "b"], ["bb", "zz"], ["xyz", "uvw"], [1, 2], [1.5, 1.2]]


def same_length_mutation(rng, prev):
    """prev with ONE property value or ONE reference target replaced by a different one of the same serialized length
    (deleted flag, key sets and every other value untouched): still a different version"""
    c = json.loads(json.dumps(prev))
    if c.get("refs") and rng.chance(2, 3):
        k = rng.choice(sorted(c["refs"]))
        v = c["refs"][k]
        if isinstance(v, list) and v:
            j = rng.below(len(v))
            v[j] = rng.choice([i for i in IDS if i != v[j]])
        elif isinstance(v, str):
            c["refs"][k] = rng.choice([i for i in IDS if i != v])
        return c
    for k in sorted(c.get("props") or {}):
        for grp in SAME_LEN:
            if c["props"][k] in grp and type(c["props"][k]) in [type(g) for g in grp]:
                alts = [g for g in grp if g != c["props"][k]]
                if alts:
                    c["props"][k] = rng.choice(alts)
                    return c
    if not c.get("refs"):
        c.setdefault("refs", {})["r1"] = rng.choice(IDS)   # no mutable value: add a reference
    return c


def gen_batch(rng, pool, memo, ds, rich):
    n = rng.choice([1, 1, 1, 2, 2, 3])
    ents = []
    for _ in range(n):
        i = rng.choice(pool)
        r = rng.below(10)
        prev = memo.get((ds, i))
        if r < 3 and prev is not None:
            c = prev                                  # identical re-post
        elif r < 5 and prev is not None:
            c = json.loads(json.dumps(prev))          # toggle deleted
            if c.get("deleted"):
                c.pop("deleted")
            else:
                c["deleted"] = True
        elif r < 6 and prev is not None and rng.chance(1, 2):
            c = same_length_mutation(rng, prev)       # one value or one reference target swapped for another of the same length
        elif r < 6:
            old, new = rng.choice(ENGINEERED)
            c = new if prev is not None and json.dumps(prev, sort_keys=True) == json.dumps(old, sort_keys=True) else old
        else:
            c = gen_content(rng, rich=rich)
        if ents and rng.chance(1, 4):
            # repeat the previous element of this batch (same id), identical or not
            i = ents[-1]["id"]
            if rng.chance(1, 2):
                c = {k: v for k, v in ents[-1].items() if k != "id"}
        memo[(ds, i)] = c
        ents.append(with_id(i, c))
    return ents
