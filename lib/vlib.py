"""Shared machinery for /verif/bin/check (see DESIGN.md section 1.2).

Every property module (lib/props/cXX.py) supplies: the Coq obligations, a case
generator, the Go driver to run, the translation of (case, observation) into a
Coq term, and the variants (known deviations) of its model.  This file builds
the proofs, builds the driver from /repo's working tree, evaluates the model
inside Coq (vm_compute), decides, and writes evidence.
"""
import fcntl
import hashlib
import json
import os
import re
import shutil
import subprocess
import sys
import time

VERIF = os.path.dirname(os.path.dirname(os.path.abspath(__file__)))
REPO = os.environ.get("VERIF_REPO", "/repo")
COQ = os.path.join(VERIF, "coq")
BUILD = os.path.join(VERIF, "build")
EVID = os.path.join(VERIF, "evidence")
REPLAYS = os.path.join(VERIF, "replays")
KNOWN = os.path.join(VERIF, "known_findings.json")

FORBIDDEN = re.compile(
    r"\b(Admitted|admit|Axiom|Axioms|Parameter|Parameters|Conjecture|Conjectures|Hypothesis|Variable|Variables|Hypotheses)\b"
    r"|Unset\s+Guard|bypass_check|type-in-type|impredicative-set|Admit\s+Obligations|native_compute")


def goenv():
    e = dict(os.environ)
    e.update(GOFLAGS="-mod=mod", GOPROXY="off", GOSUMDB="off", GOTOOLCHAIN="local")
    e.setdefault("GOCACHE", os.path.join(os.path.expanduser("~"), ".cache", "go-build"))
    return e


def scratch_dir(tag):
    base = "/dev/shm" if os.path.isdir("/dev/shm") and os.access("/dev/shm", os.W_OK) else BUILD
    d = os.path.join(base, "verif-%s-%d" % (tag, os.getpid()))
    shutil.rmtree(d, ignore_errors=True)
    os.makedirs(d)
    return d


class Lock:
    def __init__(self, name):
        os.makedirs(BUILD, exist_ok=True)
        self.path = os.path.join(BUILD, name + ".lock")

    def __enter__(self):
        self.f = open(self.path, "w")
        fcntl.flock(self.f, fcntl.LOCK_EX)
        return self

    def __exit__(self, *a):
        fcntl.flock(self.f, fcntl.LOCK_UN)
        self.f.close()


# --------------------------------------------------------------------------- Coq

def coq_gate():
    """Forbidden constructs anywhere in the development (sections are allowed to
    declare Variables/Hypotheses/Context: those are checked to sit inside a Section)."""
    bad = []
    for root, _, files in os.walk(COQ):
        for fn in files:
            if not fn.endswith(".v"):
                continue
            p = os.path.join(root, fn)
            depth = 0
            incomment = 0
            for ln, line in enumerate(open(p, encoding="utf-8"), 1):
                # strip comments (nesting-aware, line-granular is enough for our style)
                out = ""
                i = 0
                while i < len(line):
                    if line.startswith("(*", i):
                        incomment += 1
                        i += 2
                    elif line.startswith("*)", i) and incomment:
                        incomment -= 1
                        i += 2
                    else:
                        if not incomment:
                            out += line[i]
                        i += 1
                if re.match(r"\s*Section\b", out):
                    depth += 1
                if re.match(r"\s*End\b", out) and depth:
                    depth -= 1
                m = FORBIDDEN.search(out)
                if m:
                    w = m.group(0)
                    if w in ("Variable", "Variables", "Hypothesis", "Hypotheses") and depth > 0:
                        continue
                    bad.append("%s:%d: %s" % (os.path.relpath(p, VERIF), ln, w))
    return bad


def gen_coqproject():
    import glob
    lines = []
    for f in sorted(glob.glob(os.path.join(COQ, "project.d", "*.list"))):
        for l in open(f):
            l = l.rstrip("\n")
            if l.strip() and l not in lines:
                lines.append(l)
    new = "\n".join(lines) + "\n"
    cp = os.path.join(COQ, "_CoqProject")
    if not os.path.exists(cp) or open(cp).read() != new:
        open(cp, "w").write(new)


def coq_make(timeout=3000, targets=None):
    """Full .vo build (never -vos) of the whole development, or of the given .vo targets and everything they depend on
    (a check builds its own property file and evaluator; bin/setup builds everything).  Returns (ok, log)."""
    with Lock("coq"):
        gen_coqproject()
        if not os.path.exists(os.path.join(COQ, "Makefile")) or \
                os.path.getmtime(os.path.join(COQ, "Makefile")) < os.path.getmtime(os.path.join(COQ, "_CoqProject")):
            subprocess.run(["coq_makefile", "-f", "_CoqProject", "-o", "Makefile"], cwd=COQ, check=True,
                           stdout=subprocess.DEVNULL)
        p = subprocess.run(["timeout", str(timeout), "make", "-j16", "-k"] + list(targets or []), cwd=COQ, stdout=subprocess.PIPE,
                           stderr=subprocess.STDOUT, text=True)
        return p.returncode == 0, p.stdout


def coq_obligations(prop_file):
    """Compile Properties/<prop>.v on its own and return
    (ok, [(theorem, assumptions-text)], log).  The theorem names are read from the
    file; a theorem is discharged iff the file compiles (Qed-closed, gate clean)."""
    src = os.path.join(COQ, prop_file)
    names = re.findall(r"^\s*(?:Theorem|Example)\s+([A-Za-z0-9_']+)", open(src).read(), re.M)
    theorems = [n for n in names]
    out = os.path.join(scratch_dir("obl"), os.path.basename(prop_file) + "o")
    p = subprocess.run(["timeout", "900", "coqc", "-Q", ".", "DH", "-o", out, prop_file], cwd=COQ,
                       stdout=subprocess.PIPE, stderr=subprocess.STDOUT, text=True)
    shutil.rmtree(os.path.dirname(out), ignore_errors=True)
    ok = p.returncode == 0
    # split Print Assumptions output
    assum = []
    cur = None
    for line in p.stdout.splitlines():
        if line.startswith("Closed under the global context"):
            assum.append("Closed under the global context")
            cur = None
        elif line.startswith("Axioms:"):
            cur = [line]
            assum.append(cur)
        elif cur is not None and (line.startswith(" ") or ":" in line):
            cur.append(line)
    assum = [a if isinstance(a, str) else "\n".join(a) for a in assum]
    return ok, theorems, assum, p.stdout


def zlit(z):
    return "(%d)" % z if z < 0 else "%d" % z


def coq_list(items):
    return "[" + "; ".join(items) + "]"


def coq_bool(b):
    return "true" if b else "false"


def coq_string(s):
    # Coq string literal: double the quote
    return '"' + s.replace('"', '""') + '"'


def parse_coq_value(txt):
    """Parse the printed value of a vm_compute'd term made of lists / pairs / N / Z /
    nat / bool / strings into Python lists/tuples/ints/bools/strs."""
    m = re.search(r"=\s*(.*?)\n\s*:\s", txt, re.S)
    body = m.group(1) if m else txt
    body = re.sub(r"%[A-Za-z_]+", "", body)
    toks = re.findall(r'"(?:[^"]|"")*"|\[|\]|\(|\)|;|,|-?\d+|true|false|[A-Za-z_][A-Za-z0-9_\']*', body)
    pos = 0

    def parse():
        nonlocal pos
        t = toks[pos]
        if t == "[":
            pos += 1
            res = []
            while toks[pos] != "]":
                res.append(parse())
                if toks[pos] == ";":
                    pos += 1
            pos += 1
            return res
        if t == "(":
            pos += 1
            res = [parse()]
            while toks[pos] == ",":
                pos += 1
                res.append(parse())
            assert toks[pos] == ")", toks[pos - 3:pos + 3]
            pos += 1
            return tuple(res) if len(res) > 1 else res[0]
        pos += 1
        if t == "true":
            return True
        if t == "false":
            return False
        if t.startswith('"'):
            return t[1:-1].replace('""', '"')
        if re.fullmatch(r"-?\d+", t):
            return int(t)
        # constructor application: collect following atoms
        return t

    return parse()


def coq_eval(tag, requires, defs_and_queries, timeout=900):
    """Write a .v file with the given body, run coqc, return (ok, stdout)."""
    d = os.path.join(BUILD, "eval")
    os.makedirs(d, exist_ok=True)
    name = "Eval_%s_%d" % (re.sub(r"\W", "_", tag), os.getpid())
    path = os.path.join(d, name + ".v")
    with open(path, "w") as f:
        f.write("From Coq Require Import List ZArith NArith Bool String.\n")
        for r in requires:
            f.write("From DH Require Import %s.\n" % r)
        f.write("Import ListNotations.\nOpen Scope Z_scope.\nSet Printing Width 1000000.\nSet Printing Depth 1000000.\n")
        f.write(defs_and_queries)
    p = subprocess.run(["timeout", str(timeout), "coqc", "-Q", COQ, "DH", "-o", path + "o", path],
                       stdout=subprocess.PIPE, stderr=subprocess.STDOUT, text=True)
    for ext in (".vo", ".glob", ".vok", ".vos"):
        try:
            os.remove(os.path.join(d, name + ext))
        except OSError:
            pass
    try:
        os.remove(os.path.join(d, "." + name + ".aux"))
    except OSError:
        pass
    if p.returncode == 0:
        os.remove(path)
    return p.returncode == 0, p.stdout, path


def coq_evaluate_cases(tag, check_module, case_type, terms, fn="evaluate", shard=400, extra=""):
    """Evaluate `fn cases` (a list (list N)) inside Coq, sharded and in parallel.
    Returns list of index lists (global indices)."""
    from concurrent.futures import ThreadPoolExecutor
    shards = [(i, terms[i:i + shard]) for i in range(0, len(terms), shard)] or [(0, [])]

    def one(sh):
        off, ts = sh
        body = extra + "Definition cases : list %s := %s.\n" % (case_type, coq_list(["\n " + t for t in ts]))
        body += "Definition result := Eval vm_compute in %s cases.\nPrint result.\n" % fn
        ok, out, path = coq_eval("%s_%d" % (tag, off), [check_module], body)
        if not ok:
            raise RuntimeError("coq evaluation failed (%s):\n%s" % (path, out[-3000:]))
        m = re.search(r"result\s*=\s*(.*?)\n\s*:\s", out, re.S)
        val = parse_coq_value("= " + m.group(1) + "\n : x")
        return [[off + i for i in lst] for lst in val]

    with ThreadPoolExecutor(max_workers=8) as ex:
        parts = list(ex.map(one, shards))
    res = None
    for part in parts:
        if res is None:
            res = [list(x) for x in part]
        else:
            for a, b in zip(res, part):
                a.extend(b)
    return res


# --------------------------------------------------------------------------- Go

class BuildError(Exception):
    pass


def go_build(prop, pkgdir):
    """Build the driver for `prop` from /repo's working tree with the overlay
    harness/<prop>/overlay.map and the build tag verif."""
    hd = os.path.join(VERIF, "harness", prop)
    repl = {}
    for line in open(os.path.join(hd, "overlay.map")):
        line = line.strip()
        if not line or line.startswith("#"):
            continue
        dest, src = line.split()
        srcp = src if os.path.isabs(src) else os.path.join(hd, src)
        if not os.path.exists(srcp):
            srcp = os.path.join(VERIF, "harness", src)
        repl[os.path.join(REPO, dest)] = srcp
    os.makedirs(BUILD, exist_ok=True)
    # one binary / overlay file per checked tree (a check of /repo and a check of a scratch worktree may run at the same time);
    # built under a private name and renamed, so that a binary another check is executing is never written to
    tag = "" if os.path.realpath(REPO) == "/repo" else "_" + hashlib.sha1(os.path.realpath(REPO).encode()).hexdigest()[:8]
    ov = os.path.join(BUILD, "overlay_%s%s.json" % (prop, tag))
    tmp_ov = "%s.%d" % (ov, os.getpid())
    json.dump({"Replace": repl}, open(tmp_ov, "w"), indent=1)
    os.replace(tmp_ov, ov)
    binp = os.path.join(BUILD, "verif_%s%s" % (prop.lower(), tag))
    tmp_bin = "%s.%d.tmp" % (binp, os.getpid())
    with Lock("go"):
        p = subprocess.run(["go", "build", "-tags", "verif", "-overlay", ov, "-o", tmp_bin, "./" + pkgdir],
                           cwd=REPO, env=goenv(), stdout=subprocess.PIPE, stderr=subprocess.STDOUT, text=True)
        if p.returncode == 0:
            os.replace(tmp_bin, binp)
    if os.path.exists(tmp_bin):
        os.remove(tmp_bin)
    if p.returncode != 0:
        raise BuildError(p.stdout)
    return binp


def _run_watched(cmd, inp, env, stall, total):
    """Run a driver, feeding inp; kill it when it has printed no new observation line for `stall` seconds (a case that
    hangs must not hang the check) or after `total` seconds.  Returns (stdout, stderr-tail, returncode)."""
    import threading
    import queue
    p = subprocess.Popen(cmd, stdin=subprocess.PIPE, stdout=subprocess.PIPE, stderr=subprocess.PIPE, text=True, env=env)
    q = queue.Queue()
    outl, errl = [], []

    def rd_out():
        for line in p.stdout:
            outl.append(line)
            if line.startswith("@@OBS "):
                q.put(1)
        q.put(None)

    def rd_err():
        for line in p.stderr:
            errl.append(line)
            if len(errl) > 200:
                del errl[:100]

    def wr_in():
        try:
            p.stdin.write(inp)
            p.stdin.close()
        except (BrokenPipeError, OSError):
            pass
    ts = [threading.Thread(target=f, daemon=True) for f in (rd_out, rd_err, wr_in)]
    for t in ts:
        t.start()
    t0 = time.time()
    why = None
    while True:
        try:
            item = q.get(timeout=stall)
        except queue.Empty:
            why = "no answer for %d s (case hangs)" % stall
            break
        if item is None:
            break
        if time.time() - t0 > total:
            why = "driver ran longer than %d s" % total
            break
    if why:
        try:
            p.kill()
        except OSError:
            pass
    try:
        rc = p.wait(timeout=30)
    except subprocess.TimeoutExpired:
        rc = -9
    for t in ts[:2]:
        t.join(timeout=5)
    if why:
        return "".join(outl), why, -9
    return "".join(outl), "".join(errl), rc


def run_driver(binp, cases, args=(), timeout_per_case=60, env=None, died_obs=None):
    """Feed cases (JSON lines) to the driver; it answers one JSON line per case.
    If the driver dies on a case, that case gets {"outcome":"died", ...} and the driver is
    restarted on the rest."""
    obs = []
    todo = list(cases)
    sd = scratch_dir("drv")
    e = goenv()
    if env:
        e.update(env)
    try:
        while todo:
            inp = "".join(json.dumps(c) + "\n" for c in todo)
            out, err, rc = _run_watched([binp, sd] + list(args), inp, e, stall=max(150, timeout_per_case * 2),
                                        total=timeout_per_case * len(todo) + 60)
            lines = [l[6:] for l in out.splitlines() if l.startswith("@@OBS ")]
            got = []
            for l in lines:
                try:
                    got.append(json.loads(l))
                except ValueError:
                    break
            obs.extend(got)
            todo = todo[len(got):]
            if todo and rc != 0:
                d = dict(died_obs or {})
                d.update(outcome="died", detail=(err or "")[-400:])
                obs.append(d)
                todo = todo[1:]
            elif todo:
                raise RuntimeError("driver returned too few lines without failing")
    finally:
        shutil.rmtree(sd, ignore_errors=True)
    return obs


# --------------------------------------------------------------------------- PRNG

class SplitMix:
    def __init__(self, seed):
        self.s = seed & 0xFFFFFFFFFFFFFFFF

    def next(self):
        self.s = (self.s + 0x9E3779B97F4A7C15) & 0xFFFFFFFFFFFFFFFF
        z = self.s
        z = ((z ^ (z >> 30)) * 0xBF58476D1CE4E5B9) & 0xFFFFFFFFFFFFFFFF
        z = ((z ^ (z >> 27)) * 0x94D049BB133111EB) & 0xFFFFFFFFFFFFFFFF
        return z ^ (z >> 31)

    def below(self, n):
        return self.next() % n

    def range(self, a, b):
        return a + self.below(b - a + 1)

    def choice(self, l):
        return l[self.below(len(l))]

    def chance(self, num, den):
        return self.below(den) < num

    def shuffle(self, l):
        for i in range(len(l) - 1, 0, -1):
            j = self.below(i + 1)
            l[i], l[j] = l[j], l[i]


# --------------------------------------------------------------------------- findings / evidence

def load_known():
    if not os.path.exists(KNOWN):
        return []
    ks = json.load(open(KNOWN))["findings"]
    if os.environ.get("VERIF_PRE_FIX_BASE"):
        # used only by bin/seedcheck when a seeded change is tested on the tree as it was BEFORE the fix: commits:
        # findings repaired since then are exhibited there by construction and must not count as the seed being caught
        ks = [dict(k, status="open") if k.get("status") == "fixed" else k for k in ks]
    return ks


def write_replay(prop, payload):
    os.makedirs(REPLAYS, exist_ok=True)
    blob = json.dumps(payload, indent=1, sort_keys=True)
    h = hashlib.sha1(blob.encode()).hexdigest()[:10]
    path = os.path.join(REPLAYS, "%s-%s.json" % (prop, h))
    open(path, "w").write(blob)
    return path


def write_evidence(prop, tier, seed, coverage, assumptions, wall, violations):
    os.makedirs(EVID, exist_ok=True)
    ev = {"property_id": prop, "tier": tier, "seed": seed, "level": "proof", "coverage": coverage,
          "assumptions": assumptions, "wall_s": round(wall, 2), "violations": violations}
    tmp = os.path.join(EVID, "%s.json.tmp" % prop)
    json.dump(ev, open(tmp, "w"), indent=1)
    os.replace(tmp, os.path.join(EVID, "%s.json" % prop))
