"""The generic check: proofs + correspondence + decision (DESIGN.md 1.2)."""
import json
import os
import sys
import time
import traceback

import vlib
from vlib import SplitMix

TRUSTED_COMMON = [
    "Coq 8.16.1 kernel; vm_compute (used for *_refuted witnesses, Examples and the in-Coq evaluation of the model on the "
    "harness's cases); no native_compute; no axioms declared by this development (grep gate on every run)",
    "correspondence harness: Go overlay driver built from /repo's working tree with -tags verif, case generators and "
    "canonicalisers in /verif/lib, Coq term printers/parsers in lib/vlib.py",
    "hand-written model: the Gallina definitions under coq/Model are a reading of the Go source; they are tied to it only by the "
    "differential run recorded in this file (cases x observables), not by a translator",
]


class Result:
    def __init__(self):
        self.violations = []   # (replay_path, suffix)
        self.known = []        # strings
        self.notes = []


def _first(xs, n=3):
    return xs[:n]


def run_check(P, tier, seed, replay=None):
    t0 = time.time()
    prop = P.ID
    res = Result()
    coverage = {}
    rng = SplitMix(seed * 1000003 + int(prop[1:]))

    # ---- 1. proofs ------------------------------------------------------------------------------
    gate = vlib.coq_gate()
    # the property's theorem file and its evaluator, with everything they depend on (full .vo compilation)
    make_ok, make_log = vlib.coq_make(targets=[P.PROP_FILE[:-2] + ".vo"] + [m.replace(".", "/") + ".vo" for m in P.CHECK_MODULE.split()])
    obl_ok, theorems, assum, obl_log = vlib.coq_obligations(P.PROP_FILE)
    discharged = len(theorems) if (obl_ok and not gate) else 0
    proof_problem = None
    if gate:
        proof_problem = "forbidden construct in development: " + "; ".join(gate[:5])
    elif not obl_ok:
        # name the first theorem that does not check
        import re
        m = re.search(r'File "\./([^"]+)", line (\d+)', obl_log)
        where = ""
        failing = None
        if m and m.group(1) == P.PROP_FILE:
            line = int(m.group(2))
            src = open(os.path.join(vlib.COQ, P.PROP_FILE)).read().splitlines()
            for i in range(min(line, len(src)) - 1, -1, -1):
                mm = re.match(r"\s*(?:Theorem|Example)\s+([A-Za-z0-9_']+)", src[i])
                if mm:
                    failing = mm.group(1)
                    break
            where = "%s:%d" % (m.group(1), line)
        elif m:
            where = "%s:%s" % (m.group(1), m.group(2))
        proof_problem = "proof obligation does not check: %s (%s)\n%s" % (failing or "dependency", where, obl_log[-1500:])
        if failing and failing in theorems:
            discharged = theorems.index(failing)
    axioms = sorted(set(a for a in assum if a != "Closed under the global context"))
    coverage.update(
        obligations=len(theorems), discharged=discharged,
        checker_cmd="make -C coq -j16 <property and evaluator .vo with all dependencies> (coq_makefile, full .vo) && coqc -Q coq DH coq/%s  [Coq 8.16.1]" % P.PROP_FILE,
        theorems=theorems,
        print_assumptions=("all %d theorems: Closed under the global context" % len(assum)) if not axioms else axioms,
    )

    if tier == "thorough" and obl_ok and not gate and not replay:
        # independent re-check of the compiled property module and everything it depends on
        import subprocess
        mod = "DH." + P.PROP_FILE[:-2].replace("/", ".")
        cp = subprocess.run(["timeout", "3000", "coqchk", "-silent", "-o", "-Q", vlib.COQ, "DH", mod],
                            stdout=subprocess.PIPE, stderr=subprocess.STDOUT, text=True)
        summary = cp.stdout[cp.stdout.find("CONTEXT SUMMARY"):][:1500] if "CONTEXT SUMMARY" in cp.stdout else cp.stdout[-800:]
        coverage["coqchk"] = {"cmd": "coqchk -silent -o -Q coq DH " + mod, "exit": cp.returncode,
                              "summary": " ".join(summary.split())}
        if cp.returncode != 0:
            proof_problem = "coqchk rejects %s: %s" % (mod, cp.stdout[-1200:])

    # ---- 2. driver -------------------------------------------------------------------------------
    build_problem = None
    binp = None
    try:
        binp = vlib.go_build(prop, P.DRIVER_PKG)
    except vlib.BuildError as e:
        build_problem = "driver does not build against the working tree:\n" + str(e)[-2500:]

    # ---- 3. cases --------------------------------------------------------------------------------
    cases = []
    if replay:
        rp = json.load(open(replay))
        cases = rp.get("cases") or ([rp["case"]] if "case" in rp else [])
    else:
        cases = list(P.witness_cases()) + list(P.corpus_cases()) + list(P.gen(rng, tier))
    obs = []
    eval_problem = None
    ev = None
    if binp is not None and cases:
        try:
            obs = P.run(binp, cases)
            terms = [P.term(c, o) for c, o in zip(cases, obs)]
            ev = vlib.coq_evaluate_cases(prop, P.CHECK_MODULE, P.CASE_TYPE, terms, fn=getattr(P, "EVAL_FN", "evaluate"),
                                         shard=getattr(P, "SHARD", 300))
        except Exception as e:  # model does not evaluate / driver protocol broke
            eval_problem = "correspondence could not be evaluated: %s" % (str(e)[-2500:])
            traceback.print_exc(file=sys.stderr)

    nvar = len(P.VARIANTS)
    detected = None
    mism = None
    specv = []
    if ev is not None:
        mism = ev[:nvar]
        specv = ev[nvar]
        drift = ev[nvar + 1:] if len(ev) > nvar + 1 else []
        matching = [i for i in range(nvar) if not mism[i]]
        if matching:
            detected = min(matching, key=lambda i: len(P.VARIANTS[i]["findings"]))

    if replay:
        for i, (c, o) in enumerate(zip(cases, obs)):
            print("case %d: %s" % (i, json.dumps(c)))
            print("  implementation: %s" % json.dumps(o))
            if ev is not None:
                for vi, v in enumerate(P.VARIANTS):
                    print("  model[%s] agrees: %s" % (v["name"], i not in mism[vi]))
                print("  spec holds on implementation's observation: %s" % (i not in specv))
            try:
                print("  model prediction: %s" % P.predict_text(c, o))
            except Exception as e:
                print("  (no prediction text: %s)" % e)

    # ---- 4. decide -------------------------------------------------------------------------------
    known = {f["id"]: f for f in vlib.load_known() if f.get("property") == prop or prop in f.get("properties", [])}

    def attribute(i):
        """finding id explaining the spec failure of case i on the implementation, or None"""
        try:
            return P.attribute(cases[i], obs[i])
        except Exception:
            return None

    if proof_problem:
        path = vlib.write_replay(prop, {"property": prop, "kind": "proof-obligation", "what": proof_problem})
        res.violations.append((path, "no-failing-input-found"))
    if build_problem or eval_problem:
        path = vlib.write_replay(prop, {"property": prop, "kind": "correspondence", "what": build_problem or eval_problem})
        res.violations.append((path, "no-failing-input-found"))
    elif ev is not None and detected is None:
        # correspondence broken: the tree matches no known variant of the model -> search for a failing input
        closest = min(range(nvar), key=lambda i: len(mism[i]))
        cm = set(mism[closest])
        cand = [i for i in specv if i in cm and not (attribute(i) in known and known[attribute(i)]["status"] == "open")]
        found = None
        if cand:
            found = min(cand, key=lambda i: P.size(cases[i]))
            fc, fo = P.shrink(binp, cases[found], obs[found]) if hasattr(P, "shrink") else (cases[found], obs[found])
            path = vlib.write_replay(prop, {
                "property": prop, "kind": "failing-input",
                "what": "the executable spec of %s fails on the implementation for this case and no model variant predicts it" % prop,
                "case": fc, "observed": fo, "closest_variant": P.VARIANTS[closest]["name"]})
            res.violations.append((path, ""))
        else:
            # extended search with a larger generated set
            more = list(P.gen(SplitMix(seed * 7919 + 17), "search"))
            found2 = None
            try:
                mo = P.run(binp, more)
                mt = [P.term(c, o) for c, o in zip(more, mo)]
                mev = vlib.coq_evaluate_cases(prop + "s", P.CHECK_MODULE, P.CASE_TYPE, mt, fn=getattr(P, "EVAL_FN", "evaluate"),
                                              shard=getattr(P, "SHARD", 300))
                mm = set(mev[closest])
                cand2 = [i for i in mev[nvar] if i in mm and not (
                    P.attribute(more[i], mo[i]) in known and known[P.attribute(more[i], mo[i])]["status"] == "open")]
                if cand2:
                    found2 = min(cand2, key=lambda i: P.size(more[i]))
                    path = vlib.write_replay(prop, {
                        "property": prop, "kind": "failing-input",
                        "what": "the executable spec of %s fails on the implementation for this case and no model variant predicts it" % prop,
                        "case": more[found2], "observed": mo[found2], "closest_variant": P.VARIANTS[closest]["name"]})
                    res.violations.append((path, ""))
            except Exception as e:
                res.notes.append("extended search failed: %s" % e)
            if found2 is None:
                i0 = mism[closest][0]
                path = vlib.write_replay(prop, {
                    "property": prop, "kind": "correspondence",
                    "what": "correspondence I ~ M no longer checks: the implementation agrees with no variant of the model "
                            "(closest: %s, %d of %d cases disagree); the spec evaluated on the implementation's observations "
                            "did not fail on any disagreeing case" % (P.VARIANTS[closest]["name"], len(mism[closest]), len(cases)),
                    "theorem_or_correspondence": "correspondence %s (Check %s.agree)" % (prop, P.CHECK_MODULE),
                    "case": cases[i0], "observed": obs[i0]})
                res.violations.append((path, "no-failing-input-found"))
    elif ev is not None:
        v = P.VARIANTS[detected]
        for fid in v["findings"]:
            f = known.get(fid)
            if f and f["status"] == "open":
                res.known.append("KNOWN-FINDING: property=%s %s %s" % (prop, fid, f["what"]))
            else:
                # a deviation the model knows but that is not (or no longer) an accepted open finding
                wit = [i for i in specv if attribute(i) == fid]
                i0 = wit[0] if wit else (specv[0] if specv else 0)
                path = vlib.write_replay(prop, {
                    "property": prop, "kind": "failing-input",
                    "what": "deviation %s (%s) is exhibited by the tree and is not listed as an open finding" % (fid, v["name"]),
                    "case": cases[i0], "observed": obs[i0]})
                res.violations.append((path, ""))
        # spec failures must all be explained by the detected variant's findings
        if not v["findings"] and specv:
            i0 = specv[0]
            path = vlib.write_replay(prop, {
                "property": prop, "kind": "failing-input",
                "what": "spec fails on the implementation although it agrees with the repaired model (oracle inconsistency)",
                "case": cases[i0], "observed": obs[i0]})
            res.violations.append((path, ""))

    # ---- 5. evidence -----------------------------------------------------------------------------
    nontrivial = set()
    dist = {}
    for c, o in zip(cases, obs):
        k = P.classify(c, o)
        if k is not None:
            nontrivial.add(json.dumps(c, sort_keys=True))
        for tag in P.tags(c, o):
            dist[tag] = dist.get(tag, 0) + 1
    coverage.update(
        evaluations=len(obs), distinct_nontrivial=len(nontrivial), rule=P.RULE,
        samples=[{"case": c, "observed": o} for c, o in list(zip(cases, obs))[:2] + list(zip(cases, obs))[-2:]],
        input_distribution=dist,
        traces_validated_against_impl=len(obs),
        model_variants=[v["name"] for v in P.VARIANTS],
        variant_detected=(P.VARIANTS[detected]["name"] if detected is not None else None),
        mismatches_per_variant=({P.VARIANTS[i]["name"]: len(mism[i]) for i in range(nvar)} if mism else None),
        spec_failures_on_impl=len(specv),
        chunk_or_detail_drift=([len(x) for x in ev[nvar + 1:]] if ev else None),
        known_findings_reported=res.known,
        notes=res.notes,
        trusted_base=TRUSTED_COMMON + list(P.TRUSTED) + (
            ["Print Assumptions: every theorem of %s is closed under the global context (no axioms)" % P.PROP_FILE]
            if not axioms else ["Print Assumptions reports: " + a for a in axioms]),
        exhaustive=bool(getattr(P, "EXHAUSTIVE", {}).get(tier, False)),
    )
    vlib.write_evidence(prop, tier, seed, coverage, list(P.ASSUMPTIONS), time.time() - t0, len(res.violations))

    for k in res.known:
        print(k)
    for path, suffix in res.violations:
        print(("VIOLATION property=%s replay=%s %s" % (prop, path, suffix)).rstrip())
    if not res.violations:
        print("OK %s tier=%s cases=%d variant=%s obligations=%d/%d wall=%.1fs" % (
            prop, tier, len(obs), coverage["variant_detected"], discharged, len(theorems), time.time() - t0))
    return 1 if res.violations else 0
