"""C05 - concurrent writers serialize per dataset, are atomically visible, never deadlock."""
import vlib

ID = "C05"
PROP_FILE = "Properties/C05.v"
CHECK_MODULE = "Check.C05Check"
CASE_TYPE = "tcase"
DRIVER_PKG = "cmd/verif_c05"
SHARD = 12

VARIANTS = [
    {"name": "current(arbitrary,core-locks)", "findings": ["F05a", "F05b"]},
    {"name": "sorted,core-locks", "findings": ["F05b"]},
    {"name": "arbitrary,core-rejected", "findings": ["F05a"]},
    {"name": "fixed(sorted,core-rejected)", "findings": []},
]
RULE = ("case = an operation mix (batches, single- and multi-dataset transactions, dataset create/rename/delete, concurrent "
        "whole-feed and merged-lookup readers, rejected transactions naming a missing dataset, concurrent creation of one dataset name "
        "followed by writes through the returned handles, writers of one shared entity; gated witnesses: two-writer race held at lock.wait, "
        "two creators meeting at DsManager.lock) run by N goroutines on the real store under GOMAXPROCS 1/2/8, each in a child "
        "process under a watchdog; observation = global lock trace from the verifhook lock points + final change feeds + reader "
        "snapshots + recorded-time ranks along every feed + scoped lookup of every written entity; a case is non-trivial when >= 2 goroutines write the same dataset or it is a forced-schedule witness; "
        "distinct = distinct case JSON")
TRUSTED = [
    "sync.Mutex is modelled as a non-re-entrant exclusive lock; goroutine scheduling as arbitrary interleaving of whole "
    "instructions (acquire, release, read-of-previous, commit); badger commit is atomic and a read transaction is a snapshot",
    "the lock events come from the add-only hook points around every WriteLock / DsManager.lock acquisition; leaf mutexes "
    "(Store.idmux, NamespaceManager.lock) are taken and released inside straight-line code that acquires nothing else and are not modelled",
    "the two Go map iteration orders inside ExecuteTransaction (lock loop, updateDataset loop) are observed from the trace, not predicted",
    "data races on unsynchronised fields (Dataset.ID during rename, full-sync state) are outside the lock-protocol model",
]
ASSUMPTIONS = [
    "deadlock freedom is proved for the repaired variant only (transactions lock in name order, core.Dataset not nameable in a "
    "transaction) and for clients whose every dataset keeps one name during the concurrent episode",
    "generated mixes avoid the two known deadlocks: multi-dataset transactions over one group of shared datasets are issued by one "
    "goroutine only; the deadlocks themselves are exercised by the forced-schedule witnesses in child processes",
    "real goroutine scheduling is sampled (seeds x GOMAXPROCS 1,2,8), not enumerated: level is partial for runtime scheduling",
]
EXHAUSTIVE = {}

CORE, DSM = -2, -1
ATTEMPTS = 40


def part(d, new=0, upd=False, mrg=False, hot=False):
    return {"d": d, "new": new, "upd": upd, "mrg": mrg, "hot": hot}


MISSING = 999  # a dataset name that never exists (sorts after every other name)


def race_case(procs=2):
    """two clients rewrite the same entity of one dataset; client 0 is held at lock.wait until client 1 is done"""
    return {"kind": "gated", "gate": "race", "procs": procs, "nds": 1, "groups": [], "readers": 0, "threads": [
        [{"t": "batch", "parts": [part(1, 1, False, False, True)]}, {"t": "batch", "parts": [part(1, 1)]}],
        [{"t": "batch", "parts": [part(1, 0, False, False, True)]}, {"t": "batch", "parts": [part(1, 2, False, False, True)]}]]}


def cocreate_case(procs=2):
    """two clients create the same new dataset (both meet at lock.wait #dsm first), then write through their handles"""
    return {"kind": "gated", "gate": "barrier", "procs": procs, "nds": 1, "groups": [], "readers": 0, "watch": [50],
            "threads": [[{"t": "create", "d": 50}, {"t": "batchh", "parts": [part(50, 2)]}, {"t": "batch", "parts": [part(1, 1)]}],
                        [{"t": "create", "d": 50}, {"t": "batchh", "parts": [part(50, 1)]}, {"t": "batchh", "parts": [part(50, 1)]}]]}


def nsrace_case(procs=2):
    """a batch with a new entity into d1 is held after its commit (before its core.Dataset items update) while another
    client stores d1's meta entity with new publicNamespaces into core.Dataset"""
    return {"kind": "gated", "gate": "nsrace", "procs": procs, "nds": 2, "groups": [], "readers": 0, "threads": [
        [{"t": "batch", "parts": [part(1, 2)]}, {"t": "setns", "d": 2}],
        [{"t": "setns", "d": 1}, {"t": "batch", "parts": [part(1, 1)]}]]}


def renrace_case(procs=2):
    """client 0 obtains a handle, client 1 renames the dataset, client 0 writes through the old handle and is held inside
    its critical section while client 1 looks the dataset up under the new name and writes the same entity"""
    p0 = dict(part(50, 0, False, False, True), **{"as": 51, "pnew": True})
    p1 = dict(part(51, 0, False, False, True), pnew=False)
    return {"kind": "gated", "gate": "renrace", "procs": procs, "nds": 1, "groups": [], "readers": 0, "watch": [51], "threads": [
        [{"t": "create", "d": 50, "isnew": True}, {"t": "batchh", "parts": [p0], "after": [[1, 0]]}],
        [{"t": "rename", "d": 50, "to": 51, "mode": "move", "after": [[0, 0]]}, {"t": "batch", "parts": [p1], "held0": True}]]}


def burst_case(procs=8, clients=6, rounds=16):
    """all clients are at the same moment the first users of a brand-new namespace (stream parser) and store one URI"""
    threads = []
    for t in range(clients):
        ops = []
        for r in range(1, rounds + 1):
            ops.append({"t": "upload", "sync": r, "parts": [dict(part(1, 0), pnew="observed", n=1)]})
        threads.append(ops)
    return {"kind": "gated", "gate": "", "procs": procs, "nds": 1, "groups": [], "readers": 0, "threads": threads}


def reuse_case():
    """one long-lived Transaction object, refilled with dataset sets of equal size but other names"""
    def tx(ds, r=1):
        return {"t": "txn", "reuse": r, "parts": [part(d, 1) for d in ds]}
    return {"kind": "coretxn", "procs": 2, "nds": 4, "groups": [], "readers": 0,
            "threads": [[tx([1, 2]), tx([1, 3]), tx([3, 2]), tx([4], 2), tx([1], 2), tx([1, 2, 3], 3), tx([2, 3, 4], 3)],
                        [{"t": "batch", "parts": [part(1, 1)]}]]}


def delread_case(procs=8):
    """create/delete loop on a spare dataset while 8 readers look up an entity with thousands of versions"""
    ops = []
    for i in range(150):
        ops += [{"t": "create", "d": 120, "isnew": True}, {"t": "delete", "d": 120, "present": True}]
    return {"kind": "gated", "gate": "", "procs": procs, "nds": 1, "versions": 3000, "groups": [], "readers": 8, "threads": [ops]}


def txnfail_case():
    """transactions naming an existing and a missing dataset, each followed by a write to the existing one"""
    ops = []
    for i in range(4):
        ps = [part(1, 1), part(MISSING, 1)] if i % 2 == 0 else [part(MISSING, 1), part(2, 1), part(1, 0, True)]
        ops += [{"t": "txnfail", "parts": ps}, {"t": "batch", "parts": [part(1, 1)]}, {"t": "batch", "parts": [part(2, 0, True)]}]
    return {"kind": "coretxn", "procs": 2, "nds": 2, "groups": [], "readers": 0,
            "threads": [ops, [{"t": "batch", "parts": [part(2, 1)]}]]}


def forced_case(procs=2, d1=1, d2=2, twins=0):
    a = {"t": "txn", "parts": [part(d1, 1), part(d2, 1)]}
    b = {"t": "txn", "parts": [part(d2, 1), part(d1, 1)]}
    return {"kind": "forced", "procs": procs, "nds": 2, "twins": twins, "groups": [], "threads": [[a], [b]], "readers": 0,
            "attempts": ATTEMPTS}


TWIN_UP, TWIN_LO = 1000, 2000  # dataset codes of the names dXjj / dxjj, which differ only in case


def coretxn_case(new_other=1):
    return {"kind": "coretxn", "procs": 2, "nds": 1, "groups": [],
            "threads": [[{"t": "txn", "parts": [part(CORE, 1), part(1, new_other, new_other == 0)]}]], "readers": 0}


def small_mix():
    return {"kind": "mix", "procs": 2, "nds": 3, "groups": [[1, 2]], "readers": 1, "threads": [
        [{"t": "batch", "parts": [part(1, 2, True)]},
         {"t": "txn", "grp": 0, "parts": [part(2, 0, True, True), part(1, 1, False, True)]}],
        [{"t": "create", "d": 110, "isnew": True}, {"t": "batch", "parts": [part(110, 1)]},
         {"t": "rename", "d": 110, "to": 111, "mode": "move"}, {"t": "batch", "parts": [part(3, 0, True)]},
         {"t": "rename", "d": 110, "to": 112, "mode": "noop"}, {"t": "create", "d": 111, "isnew": False},
         {"t": "rename", "d": 111, "to": 111, "mode": "same"},
         {"t": "delete", "d": 111, "present": True}, {"t": "delete", "d": 111, "present": False}],
        [{"t": "batch", "parts": [part(1, 1)]}, {"t": "batch", "parts": [part(2, 3, True)]},
         {"t": "txn", "parts": [part(3, 2)]}]]}


def witness_cases():
    return [forced_case(2), forced_case(2, TWIN_UP, TWIN_LO, 1), coretxn_case(1), coretxn_case(0), small_mix(), race_case(2), race_case(1), cocreate_case(2), cocreate_case(8),
            txnfail_case(), nsrace_case(2), renrace_case(2), burst_case(8), burst_case(2, 4, 8), reuse_case(), delread_case(8)]


def corpus_cases():
    return []


def gen_mix(rng, big=False):
    T = rng.range(2, 9 if big else 6)
    nds = rng.range(2, 6)
    procs = rng.choice([1, 2, 8])
    readers = rng.choice([0, 1, 2])
    # groups of shared datasets; group g is owned by thread g % T (the only one issuing multi-dataset transactions on it)
    ds = list(range(1, nds + 1))
    rng.shuffle(ds)
    groups = []
    while len(ds) >= 2 and len(groups) < T and rng.chance(3, 4):
        n = min(len(ds), rng.range(2, 3))
        groups.append(sorted(ds[:n]))
        ds = ds[n:]
    twins = 1 if rng.chance(1, 2) else 0
    if twins:
        groups.append([TWIN_UP, TWIN_LO])  # two names that differ only in case, locked together by the group's owner
    owned = {}
    for g in range(len(groups)):
        owned.setdefault(g % T, []).append(g)
    hot = rng.range(1, nds)  # contention: most batches go to one dataset
    late = [50 + i for i in range(rng.range(0, 2))]  # datasets created during the run by whoever comes first
    threads = []
    for t in range(T):
        ops = []
        priv = []          # existing private datasets of this thread
        mine = set()       # late shared datasets this thread has created / got a handle for
        nextp = 100 + t * 20
        nops = rng.range(3, 16 if big else 8)
        while len(ops) < nops:
            r = rng.below(100)
            if r < 45:
                d = hot if rng.chance(1, 2) else rng.range(1, nds)
                new = rng.range(0, 3)
                hot_e = rng.chance(1, 2)
                upd = rng.chance(1, 2) or (new == 0 and not hot_e)
                ops.append({"t": "batch", "parts": [part(d, new, upd, False, hot_e)]})
            elif r < 55:
                d = rng.range(1, nds)
                new = rng.range(0, 2)
                ops.append({"t": "txn", "reuse": 1, "parts": [part(d, new, new == 0 or rng.chance(1, 2))]})
            elif r < 59:
                # rejected transaction: one shared dataset and one that does not exist (insertion order random)
                d = rng.range(1, nds)
                ps = [part(d, rng.range(0, 1), True), part(MISSING, 1)]
                rng.shuffle(ps)
                ops.append({"t": "txnfail", "parts": ps})
            elif r < 61:
                ops.append({"t": "setns", "d": rng.range(1, nds)})
            elif r < 65 and late:
                d = rng.choice(late)
                if d not in mine:
                    ops.append({"t": "create", "d": d})
                    mine.add(d)
                else:
                    ops.append({"t": "batchh", "parts": [part(d, rng.range(1, 2))]})
            elif r < 75 and t in owned:
                g = rng.choice(owned[t])
                grp = list(groups[g])
                full = rng.chance(1, 2)
                if not full:
                    rng.shuffle(grp)
                    grp = grp[:2]
                rng.shuffle(grp)  # insertion order into the Go map
                parts = []
                for d in grp:
                    new = rng.range(0, 2)
                    parts.append(part(d, new, (new == 0 and not full) or rng.chance(1, 3), full))
                ops.append({"t": "txn", "grp": g, "parts": parts})
            elif r < 100:
                k = rng.below(7)
                if k == 0 or not priv:
                    if priv and rng.chance(1, 4):
                        ops.append({"t": "create", "d": rng.choice(priv), "isnew": False})
                    else:
                        ops.append({"t": "create", "d": nextp, "isnew": True})
                        priv.append(nextp)
                        nextp += 1
                elif k == 1:
                    ops.append({"t": "batch", "parts": [part(rng.choice(priv), rng.range(1, 2))]})
                elif k == 2:
                    d = rng.choice(priv)
                    ops.append({"t": "rename", "d": d, "to": nextp, "mode": "move"})
                    priv.remove(d)
                    priv.append(nextp)
                    nextp += 1
                elif k == 3:
                    d = rng.choice(priv)
                    ops.append({"t": "rename", "d": d, "to": d, "mode": "same"})
                elif k == 4:
                    if len(priv) >= 2:
                        d = rng.choice(priv)
                        o = rng.choice([x for x in priv if x != d])
                        ops.append({"t": "rename", "d": d, "to": o, "mode": "clash"})
                    else:
                        ops.append({"t": "rename", "d": nextp + 10, "to": nextp + 11, "mode": "noop"})
                elif k == 5:
                    d = rng.choice(priv)
                    ops.append({"t": "delete", "d": d, "present": True})
                    priv.remove(d)
                else:
                    ops.append({"t": "delete", "d": nextp + 12, "present": False})
        threads.append(ops)
    return {"kind": "mix", "procs": procs, "nds": nds, "groups": groups, "threads": threads, "readers": readers, "watch": late,
            "twins": twins}


def gen(rng, tier):
    out = []
    if tier == "quick":
        for _ in range(100):
            out.append(gen_mix(rng))
        return out
    if tier == "search":
        for _ in range(40):
            out.append(gen_mix(rng, True))
        return out
    for p in (1, 8):
        out.append(forced_case(p))
        out.append(forced_case(p, TWIN_UP, TWIN_LO, 1))
    for _ in range(1200):
        out.append(gen_mix(rng, True))
    return out


def run(binp, cases):
    return vlib.run_driver(binp, cases, timeout_per_case=320, died_obs={"runs": []})


# ---------------------------------------------------------------------------------------------- Coq terms

def lk(code):
    if code == CORE:
        return "LCore"
    if code == DSM:
        return "LDsm"
    return "(LDs %d%%N)" % code


def nl(xs):
    return vlib.coq_list(["%d%%N" % x for x in xs])


def part_term(p, k, evs=()):
    n = p.get("n", 0) + p["new"] + (1 if p.get("upd") else 0) + (1 if p.get("mrg") else 0) + (1 if p.get("hot") else 0)
    pnew = p["new"] > 0
    if p.get("pnew") == "observed":   # who is the first writer of a URI is decided by the schedule: the one that updates the counter
        pnew = any(kind == 1 and l == CORE for kind, l in evs)
    elif "pnew" in p:
        pnew = bool(p["pnew"])
    return "{| p_ds := %s; p_ms := %s; p_new := %s |}" % (lk(p.get("as") or p["d"]), nl([k] * n), vlib.coq_bool(pnew))


def op_term(op, k, evs):
    """evs = the events of this op: (kind, lock)"""
    t = op["t"]
    if t in ("batch", "batchh", "upload"):
        return "(OBatch %s)" % part_term(op["parts"][0], k, evs)
    if t == "setns":  # a batch into core.Dataset: the meta entity of dataset d
        return "(OBatch {| p_ds := LCore; p_ms := %s; p_new := false |})" % nl([op["d"]])
    if t == "txnfail":
        locked = []
        for kind, l in evs:
            if kind == 1 and l not in locked:
                locked.append(l)
        return "(OTxnFail %s)" % vlib.coq_list([lk(d) for d in locked])
    if t == "txn":
        parts = sorted(op["parts"], key=lambda p: (p["d"] != CORE, p["d"]))  # name order: core.Dataset < dNNN
        dss = [p["d"] for p in parts]
        ao, uo = [], []
        for kind, l in evs:
            if kind == 0 and len(ao) < len(dss) and l in dss and l not in ao:
                ao.append(l)
            if kind == 3 and l in dss and l not in uo:
                uo.append(l)
        ao += [d for d in dss if d not in ao]
        uo += [d for d in dss if d not in uo]
        return "(OTxn %s %s %s)" % (vlib.coq_list([part_term(p, k) for p in parts]),
                                    vlib.coq_list([lk(d) for d in ao]), vlib.coq_list([lk(d) for d in uo]))
    if t == "create":
        # concurrent creation of one name: who actually creates is decided by the schedule (observed: the creator writes core.Dataset)
        isnew = op["isnew"] if "isnew" in op else any(kind == 1 and l == CORE for kind, l in evs)
        return "(OCreate %d%%N %s)" % (op["d"], vlib.coq_bool(isnew))
    if t == "rename":
        m = {"noop": "RNoop", "same": "RSame", "clash": "RClash"}.get(op["mode"]) or "(RMove %d%%N)" % op["to"]
        return "(ORename %d%%N %s)" % (op["d"], m)
    if t == "delete":
        return "(ODelete %d%%N %s)" % (op["d"], vlib.coq_bool(op["present"]))
    raise ValueError(t)


OUT = {"ok": 0, "hang": 1}


def run_term(c, r, kbase):
    threads = c["threads"]
    byop = {}
    bad = 0
    trace = []
    for tid, opi, kind, l in r.get("events") or []:
        if tid < 0 or l == -99:
            bad += 1
            continue
        byop.setdefault((tid, opi), []).append((kind, l))
        if kind == 1:
            trace.append("(%d%%nat, EA %s)" % (tid, lk(l)))
        elif kind == 2:
            trace.append("(%d%%nat, ER %s)" % (tid, lk(l)))
    ops = []
    for t, tops in enumerate(threads):
        ops.append(vlib.coq_list([op_term(op, kbase + t * 1000 + i + 1, byop.get((t, i), [])) for i, op in enumerate(tops)]))
    errs = r.get("errs") or [[False] * len(t) for t in threads]
    errs_t = vlib.coq_list([vlib.coq_list([vlib.coq_bool(bool(e)) for e in te]) for te in errs])
    feeds = []
    for d, ms in sorted((r.get("feeds") or {}).items(), key=lambda x: int(x[0])):
        if any(m < 0 for m in ms):
            bad += 1
        feeds.append("(%s, %s)" % (lk(int(d)), nl([max(m, 0) for m in ms])))
    snaps = []
    for d, n, isp in r.get("snaps") or []:
        if isp:
            snaps.append("(%s, %d%%N)" % (lk(d), n))
        else:
            bad += 1
    bad += r.get("torn", 0) + r.get("attorn", 0) + r.get("dups", 0)
    times = ["(%s, %s)" % (lk(int(d)), nl(ts)) for d, ts in sorted((r.get("times") or {}).items(), key=lambda x: int(x[0]))]
    looks = []
    for lo in (r.get("looks") or []):
        a = max(lo[1], 0)
        for b in lo[2:]:   # scoped lookup, listing
            looks.append("(%d%%N, %d%%N)" % (a, b if b >= 0 else 999999999))
    return ("{| r_ops := %s; r_outcome := %d%%N; r_trace := %s; r_errs := %s; r_feeds := %s; r_snaps := %s; r_times := %s; r_lookups := %s; r_bad := %d%%N |}" % (
        vlib.coq_list(ops), OUT.get(r.get("outcome"), 2), vlib.coq_list(trace), errs_t, vlib.coq_list(feeds),
        vlib.coq_list(snaps), vlib.coq_list(times), vlib.coq_list(looks), bad))


def term(c, o):
    runs = o.get("runs") or []
    if not runs:
        runs = [{"outcome": o.get("outcome", "died")}]
    forced = c["kind"] == "forced"
    rt = [run_term(c, r, (a + 1) * 10000 if forced else 0) for a, r in enumerate(runs)]
    return "{| c_forced := %s; c_runs := %s |}" % (vlib.coq_bool(forced), vlib.coq_list(["\n  " + x for x in rt]))


def predict_text(c, o):
    t = term(c, o)
    ok, out, _ = vlib.coq_eval("C05p", [CHECK_MODULE],
                               "Definition c : tcase := %s.\nEval vm_compute in (agree current c, agree v_sorted_locks c, "
                               "agree v_arbitrary_rejected c, agree fixed c, spec_ok c).\n" % t)
    return "(agree current, sorted+core-locks, arbitrary+core-rejected, fixed, spec_ok) " + out.strip()[-200:]


def attribute(c, o):
    if o.get("outcome") == "hang":
        if c["kind"] == "forced":
            return "F05a"
        if c["kind"] == "coretxn":
            return "F05b"
    return None


def size(c):
    return sum(len(t) for t in c["threads"]) * 10 + len(c["threads"])


def classify(c, o):
    if c["kind"] != "mix":
        return c["kind"]
    seen = {}
    for t, ops in enumerate(c["threads"]):
        for op in ops:
            for p in op.get("parts", []):
                seen.setdefault(p["d"], set()).add(t)
    return "contended" if any(len(s) >= 2 for s in seen.values()) else None


def tags(c, o):
    tg = ["kind=" + c["kind"], "procs=%d" % c["procs"], "threads=%d" % len(c["threads"]), "outcome=" + str(o.get("outcome")),
          "readers=%d" % c.get("readers", 0)]
    blocked = 0
    for r in o.get("runs") or []:
        holder = {}
        for tid, opi, kind, l in r.get("events") or []:
            if kind == 0 and l in holder and holder[l] != tid:
                blocked += 1
            elif kind == 1:
                holder[l] = tid
            elif kind == 2:
                holder.pop(l, None)
    tg.append("blocked_waits=" + ("0" if blocked == 0 else "1-5" if blocked <= 5 else "6-20" if blocked <= 20 else ">20"))
    kinds = set()
    for ops in c["threads"]:
        for op in ops:
            kinds.add(op["t"] if op["t"] != "txn" else ("txn%d" % min(len(op["parts"]), 3)))
    if c.get("gate"):
        tg.append("gate=" + c["gate"])
    tg += ["has=" + k for k in sorted(kinds)]
    return tg
