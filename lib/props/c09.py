"""C09 - a full sync deletes exactly what the completed sync did not contain."""
import json
import os
import shutil
import subprocess
from concurrent.futures import ThreadPoolExecutor

import vlib

ID = "C09"
PROP_FILE = "Properties/C09.v"
CHECK_MODULE = "Check.C09Check"
CASE_TYPE = "tcase"
DRIVER_PKG = "cmd/verif_c09"
SHARD = 150

VARIANTS = [
    {"name": "current(no sync ownership)", "findings": ["F09a", "F09b", "F09c", "F09d"]},
    {"name": "fixed(owner-checked completion)", "findings": []},
]
RULE = ("case = a history of events on one dataset (POST /entities with any combination of full-sync start/id/end headers and "
        "sync ids none/1/2, POST /transactions writes, start/page/end/failure of 2 fullsync job runs - issued either as datasetSink calls or, in half of the "
        "cases, by the real FullSyncPipeline.sync over a scripted source - 'all outstanding lease timers fire', 'time passes, less than a lease' and 'the timers older than that fire'), entities over "
        "6 ids x 3 contents (+2 with a nested deleted sub-entity) x deleted flag; well-formed syncs with 0-3 disturbances inserted plus unconstrained random histories "
        "and a family 'leased sync, request rejected for its sync id, silence past the lease, then the sync's batches/end', "
        "families 'a sync omits live entities whose json contains a deleted nested sub-entity' and 'runs of jobs with the real "
        "httpDatasetSink (reused sink object) aborted / re-run / overlapping', a family 'fullsync job run through the real pipeline with none / a capped / an uncapped log error handler and a page "
        "containing an entity the sink refuses', a family 'sync during which entities arrive only through a transaction' and a family 'leased sync, pause, re-start with "
        "the same id / job start / refresh / rejected request / nothing, old timers fire, the sync's batches and end' "
        "(thorough: also all 1000 three-event continuations over a 10-event alphabet); after every event the status class, the "
        "change-feed length and the latest view are compared. "
        "Non-trivial = the history contains a rejected/gone/failed request or a completion that tombstones at least one entity; "
        "distinct = distinct histories")
TRUSTED = [
    "time.AfterFunc/context deadline of the lease: modelled as the event 'the oldest outstanding timer fires' (EExpire), enabled at any "
    "point of a history; the driver only realises 'all outstanding timers fire' (waits past the deadline, then until no "
    "RefreshFullSyncLease goroutine is left) and discards-and-repeats an attempt in which a segment between two such points took "
    "longer than 85% of the lease timeout",
    "the events of a history are executed one after the other and the driver waits after each until every lease goroutine has "
    "read the sync id it guards (the code reads ds.fullSyncID inside the goroutine): data races between the lease goroutine and a "
    "request in flight, and a lease goroutine that is scheduled only after the sync id changed, are outside the model",
    "dataset contents are modelled as id -> (content code, deleted); the write-time equality of StoreEntities is exact on the "
    "driver's alphabet (one single-digit numeric property)",
]
ASSUMPTIONS = [
    "the ids inside one request / one job batch are pairwise distinct (in-batch repeats are property C02's finding F02a)",
    "every request is made against an existing, non-proxy, non-virtual dataset and its JSON body parses",
    "a fullsync job calls sink.startFullSync, then sink.processEntities per page, then sink.endFullSync (FullSyncPipeline.sync); "
    "a job that fails simply never calls endFullSync",
]

LEASE_MS = 60
NIDS = 6


# ------------------------------------------------------------------ case construction

def http(ents=(), start=False, sid=0, end=False):
    return {"k": "http", "start": start, "id": sid, "end": end, "ents": [list(e) for e in ents]}


def plain(ents):
    return http(ents)


def jstart(n):
    return {"k": "jstart", "n": n}


def jbatch(n, ents):
    return {"k": "jbatch", "n": n, "ents": [list(e) for e in ents]}


def jend(n):
    return {"k": "jend", "n": n}


def jabort(n):
    return {"k": "jabort", "n": n}


def hstart(n):
    """a run of fullsync job n whose sink is the real httpDatasetSink (one sink object per n) starts"""
    return {"k": "hstart", "n": n}


def hbatch(n, ents):
    return {"k": "hbatch", "n": n, "ents": [list(e) for e in ents]}


def hend(n):
    return {"k": "hend", "n": n}


def translate(c, o):
    """The pinned httpDatasetSink as a translation of its start/batch/end calls into the requests it sends: a fresh sync
    id per run (100, 101, ...), the start header on the first batch of a run, an end request that clears the sink's sync
    state only when it was answered 200 (read off the observation: a wrong answer is a mismatch at that step anyway).
    Other events are returned unchanged."""
    sinks = {}
    fresh = [100]
    out = []
    steps = o.get("steps") or []
    for i, e in enumerate(c["events"]):
        k = e["k"]
        if k not in ("hstart", "hbatch", "hend"):
            out.append(e)
            continue
        st = sinks.setdefault(e["n"], {"in": False, "id": 0, "first": False})
        if k == "hstart":
            st.update({"in": True, "id": fresh[0], "first": True})
            fresh[0] += 1
            out.append({"k": "jabort", "n": e["n"]})          # no request is sent
        elif k == "hbatch":
            if not e.get("ents"):
                out.append({"k": "jabort", "n": e["n"]})
            elif st["in"]:
                out.append(dict(http(e["ents"], st["first"], st["id"], False), sink=True))
                st["first"] = False
            else:
                out.append(dict(http(e["ents"]), sink=True))
        else:
            out.append(dict(http([], False, st["id"], True), sink=True))
            if i < len(steps) and steps[i]["status"] == 0:
                st.update({"in": False, "id": 0, "first": False})
    return out


def txn(ents):
    return {"k": "txn", "ents": [list(e) for e in ents]}


EXPIRE = {"k": "expire"}
PAUSE = {"k": "pause"}            # time passes, less than a lease
EXPIRE_OLD = {"k": "expire_old"}  # the timers that were running at the last pause fire, the younger ones do not


LOG1 = '[{"errorHandler":"log","maxItems":1}]'   # a `log` error handler that accepts one failing entity
LOG = '[{"errorHandler":"log"}]'                  # ... any number of failing entities


def mk(events, pipeline=False, on_error=""):
    return {"lease_ms": LEASE_MS, "pipeline": pipeline, "on_error": on_error, "events": events}


def jpoison(n, ents, k, pid):
    """a page of job run n (pipeline mode) with an entity the sink refuses (nil reference, fresh id pid) at index k"""
    e = jbatch(n, ents)
    e["poison"] = k
    e["poison_id"] = pid
    return e


BASE = [(1, 1, 0), (2, 1, 0), (3, 1, 0)]


def _uses_two_ids(c):
    ids = {e.get("id", 0) for e in c["events"] if e["k"] == "http"}
    return 1 in ids and 2 in ids


def witness_cases():
    base = _witness_cases()
    # the same histories with sync ids 1 and 2 sent as 77-byte strings that differ in their last byte only
    base = base + [dict(c, long_ids=True) for c in base if _uses_two_ids(c)]
    return base + [mk(c["events"], True) for c in base
                   if not c["pipeline"] and any(e["k"] == "jstart" for e in c["events"])] + [
        # a job run that fails between two pages never ends its sync; the next run starts over
        mk([plain(BASE), jstart(1), jbatch(1, [(1, 2, 0)]), jabort(1), plain([(2, 3, 0)]), jstart(1), jbatch(1, [(3, 2, 0)]),
            jend(1)], True)]


def _witness_cases():
    return [
        # F09a..F09d (Model.FullSync.h_F09a..d)
        mk([plain(BASE), jstart(1), jbatch(1, [(1, 2, 0)]), plain([(4, 1, 0)]), EXPIRE, jbatch(1, [(2, 2, 0)]), jend(1)]),
        mk([plain(BASE), jstart(1), jbatch(1, [(1, 2, 0)]), http([(4, 1, 0)], True, 7), jbatch(1, [(2, 2, 0)]), jend(1),
            http([(3, 5, 0)], False, 7), http([], False, 7, True)]),
        mk([plain(BASE), jstart(1), jbatch(1, [(1, 2, 0)]), http([(4, 1, 0)], False, 0, True), jbatch(1, [(2, 2, 0)]), jend(1)]),
        mk([plain(BASE), jstart(1), plain([(1, 1, 0)]), jend(1), jstart(2), jbatch(2, [(1, 2, 0)]), EXPIRE,
            jbatch(2, [(2, 2, 0)]), jend(2)]),
        # well-formed HTTP sync with a foreign batch in the middle
        mk([plain(BASE), http([(1, 2, 0)], True, 1), http([(5, 1, 0)], False, 2), http([(5, 1, 0)], False, 0),
            http([(2, 1, 0)], False, 1, True)]),
        # expired HTTP sync: later batches are plain writes, the end is 410
        mk([plain(BASE), http([(1, 2, 0)], True, 1), EXPIRE, http([(4, 1, 0)], False, 1), http([(5, 1, 0)], False, 1, True)]),
        # well-formed job sync
        mk([plain(BASE), jstart(1), jbatch(1, [(1, 1, 0), (4, 3, 0)]), jbatch(1, [(2, 5, 1)]), jend(1)]),
        # the left-over timer of an HTTP sync (id 7) that a job's end completed must not reset a later job's sync (id "")
        mk([plain(BASE), jstart(1), http([(4, 1, 0)], True, 7), jend(1), jstart(2), jbatch(2, [(1, 2, 0)]), EXPIRE,
            jbatch(2, [(2, 2, 0)]), jend(2)]),
        # a rejected request (foreign id / missing id, with and without entities, with end flag) must leave the running
        # sync's lease timer alone: the sync still expires, its later batches are plain writes and its end is 410
        mk([plain(BASE), http([(1, 2, 0)], True, 1), http([(5, 1, 0)], False, 2), EXPIRE, http([(4, 1, 0)], False, 1),
            http([(2, 2, 0)], False, 1, True)]),
        mk([plain(BASE), http([(1, 2, 0)], True, 1), http([], False, 2), EXPIRE, http([], False, 1, True)]),
        mk([plain(BASE), http([(1, 2, 0)], True, 1), http([(5, 1, 0)], False, 0), EXPIRE, plain([(6, 1, 0)]),
            http([], False, 1, True)]),
        mk([plain(BASE), http([], True, 2), http([(1, 3, 0)], False, 2), http([], False, 0, True), http([(6, 1, 0)], False, 1, True),
            EXPIRE, http([(2, 2, 0)], False, 2, True)]),
        # job-sync analogue: a request without id has put a lease on the job's sync (F09a); a foreign-id request is rejected
        # and must not stop that lease from expiring
        mk([plain(BASE), jstart(1), jbatch(1, [(1, 2, 0)]), plain([(4, 1, 0)]), http([(5, 1, 0)], False, 3), EXPIRE,
            jbatch(1, [(2, 2, 0)]), jend(1)]),
        mk([plain(BASE), jstart(1), plain([]), http([], False, 3, True), EXPIRE, plain([(2, 2, 0)]), jend(1)]),
        # an end request / end call whose context is already cancelled tombstones nothing and drops the sync
        mk([plain(BASE + [(4, 1, 0)]), http([(1, 2, 0)], True, 1), dict(http([(2, 2, 0)], False, 1, True), cancelled=True),
            http([], False, 1, True), http([(3, 2, 0)], True, 1, True)]),
        mk([plain(BASE + [(4, 1, 0)]), jstart(1), jbatch(1, [(1, 2, 0)]), dict(jend(1), cancelled=True), jend(1)]),
        mk([plain(BASE), http([(1, 2, 0)], True, 1), dict(http([], False, 2, True), cancelled=True),
            dict(http([], False, 0, True), cancelled=True), http([], False, 1, True)]),
        # live entities whose stored json contains "deleted":true inside a nested sub-entity (contents 7, 8) are
        # tombstoned like any other entity the completed sync did not contain
        mk([plain([(1, 1, 0), (2, 7, 0), (3, 1, 0), (4, 8, 0)]), http([(1, 2, 0)], True, 1), http([], False, 1, True),
            plain([(2, 1, 0)])]),
        mk([plain([(1, 7, 0), (2, 7, 0), (3, 8, 1)]), jstart(1), jbatch(1, [(2, 2, 0)]), jend(1)]),
        # a fullsync job with the real httpDatasetSink (one sink object, reused by the job's runs) posting to this hub:
        # run 1 aborts after a batch, run 2 is a new sync (fresh id, start header) and completes: what only the aborted
        # run had posted is tombstoned
        mk([plain(BASE + [(4, 1, 0)]), hstart(1), hbatch(1, [(1, 2, 0), (2, 2, 0)]), hstart(1), hbatch(1, [(2, 3, 0), (3, 3, 0)]),
            hend(1), hend(1), hbatch(1, [(4, 5, 0)])]),
        mk([plain(BASE), hstart(1), hbatch(1, [(1, 2, 0)]), hbatch(1, [(2, 2, 0)]), dict(EXPIRE), hbatch(1, [(3, 2, 0)]), hend(1),
            hstart(1), hbatch(1, [(1, 3, 0)]), hend(1)]),
        mk([plain(BASE), hstart(1), hbatch(1, [(1, 2, 0)]), hstart(2), hbatch(2, [(2, 2, 0)]), hbatch(1, [(3, 2, 0)]), hend(2),
            hend(1)]),
        # a fullsync job run that is cut short by a refused entity (capped log handler / no handler) is an abandoned
        # sync: what was in front of the refused entity is written, nothing is tombstoned, the next run starts over;
        # with an uncapped log handler the run goes on and completes
        mk([plain(BASE + [(4, 1, 0)]), jstart(1), jbatch(1, [(2, 2, 0)]), jpoison(1, [(1, 2, 0), (3, 2, 0), (4, 2, 0)], 1, 9),
            plain([]), jstart(1), jbatch(1, [(1, 3, 0), (2, 3, 0), (3, 3, 0)]), jend(1)], True, LOG1),
        mk([plain(BASE + [(4, 1, 0)]), jstart(1), jpoison(1, [(1, 2, 0), (3, 2, 0)], 0, 9), txn([(2, 2, 0)])], True, ""),
        mk([plain(BASE + [(4, 1, 0)]), jstart(1), jpoison(1, [(1, 2, 0), (3, 2, 0), (4, 2, 0)], 1, 9), jbatch(1, [(5, 1, 0)]),
            jend(1)], True, LOG),
        mk([plain(BASE + [(4, 1, 0)]), jstart(2), jpoison(2, [(1, 2, 0), (3, 2, 0)], 2, 9), http([(2, 2, 0)], True, 1),
            http([], False, 1, True)], True, LOG1),
        # a write through POST /transactions during a sync is a write since its start (HTTP- and job-driven)
        mk([plain(BASE), http([(1, 2, 0)], True, 1), txn([(2, 5, 0)]), http([], False, 1, True)]),
        mk([plain(BASE), jstart(1), jbatch(1, [(1, 2, 0)]), txn([(2, 1, 0), (4, 1, 0)]), jend(1)]),
        mk([plain(BASE), txn([(3, 2, 1)]), http([], True, 0), txn([]), txn([(1, 1, 0)]), http([], False, 0, True)]),
        # a superseded sync's lease timer is dead whatever the ids: start X re-sent, time passes beyond the first
        # lease's deadline but within the second's, the restarted sync still completes
        mk([plain(BASE), http([(1, 2, 0)], True, 1), dict(PAUSE), http([(1, 2, 0)], True, 1), http([(2, 2, 0)], False, 1),
            dict(EXPIRE_OLD), http([(4, 1, 0)], False, 1, True)]),
        # ... an HTTP sync without sync id superseded by a job-driven sync (both have id "")
        mk([plain(BASE), http([(1, 2, 0)], True, 0), jstart(1), jbatch(1, [(1, 3, 0)]), dict(EXPIRE), jbatch(1, [(2, 2, 0)]),
            jend(1)]),
        mk([plain(BASE), http([(1, 2, 0)], True, 0), dict(PAUSE), jstart(1), jbatch(1, [(1, 3, 0)]), dict(EXPIRE_OLD),
            jbatch(1, [(2, 2, 0)]), jend(1)]),
        # a refreshed lease outlives the deadline of the lease it replaced; a silent sync does not
        mk([plain(BASE), http([(1, 2, 0)], True, 1), dict(PAUSE), http([(2, 2, 0)], False, 1), dict(EXPIRE_OLD),
            http([], False, 1, True)]),
        mk([plain(BASE), http([(1, 2, 0)], True, 1), dict(PAUSE), http([(2, 2, 0)], False, 2), dict(EXPIRE_OLD),
            http([], False, 1, True)]),
        # start+end in one request; end without sync
        mk([plain(BASE), http([(2, 2, 0)], True, 3, True), http([(1, 1, 0)], False, 3, True), http([], True, 0, True)]),
    ]


def corpus_cases():
    return []


def rand_ents(rng, maxn=3, pdel=8):
    n = rng.range(0, maxn)
    ids = list(range(1, NIDS + 1))
    rng.shuffle(ids)
    return [(i, rng.range(1, 3), 1 if rng.chance(1, pdel) else 0) for i in sorted(ids[:n])]


def rand_event(rng, nsid=2):
    r = rng.below(100)
    if r < 40:
        sid = rng.choice([0, 0, 1, 1, 1, 2])
        return http(rand_ents(rng), rng.chance(1, 4), sid, rng.chance(1, 4))
    if r < 52:
        return jstart(rng.range(1, 2))
    if r < 72:
        return jbatch(rng.range(1, 2), rand_ents(rng))
    if r < 82:
        return jend(rng.range(1, 2))
    if r < 84:
        return jabort(rng.range(1, 2))
    if r < 90:
        return txn(rand_ents(rng))
    return dict(EXPIRE)


def rand_history(rng, lo, hi, max_expire=2):
    evs = [plain([(i, 1, 0) for i in range(1, rng.range(2, 5))])]
    nexp = 0
    for _ in range(rng.range(lo, hi)):
        e = rand_event(rng)
        if e["k"] == "expire":
            if nexp >= max_expire:
                continue
            nexp += 1
        evs.append(e)
    return evs


def template_history(rng):
    """a well-formed HTTP or job sync with 0-3 disturbances inserted at random positions"""
    evs = []
    if rng.chance(1, 2):
        sid = rng.range(0, 2)
        evs.append(http(rand_ents(rng), True, sid))
        for _ in range(rng.range(0, 2)):
            evs.append(http(rand_ents(rng), False, sid))
        evs.append(http(rand_ents(rng), False, sid, True))
    else:
        n = rng.range(1, 2)
        evs.append(jstart(n))
        for _ in range(rng.range(1, 3)):
            evs.append(jbatch(n, rand_ents(rng)))
        evs.append(jend(n))
    for _ in range(rng.range(0, 3)):
        d = rng.choice([plain(rand_ents(rng, 2)), dict(EXPIRE), http(rand_ents(rng, 2), True, rng.range(0, 2)),
                        http(rand_ents(rng, 2), False, rng.range(0, 2), rng.chance(1, 2)), jstart(rng.range(1, 2)),
                        jend(rng.range(1, 2)), jbatch(rng.range(1, 2), rand_ents(rng, 2)), jabort(rng.range(1, 2)),
                        txn(rand_ents(rng, 2)), txn(rand_ents(rng, 3))])
        evs.insert(rng.range(1, len(evs)), d)
    if sum(1 for e in evs if e["k"] == "expire") > 2:
        evs = [e for e in evs if e["k"] != "expire"]
    return [plain([(i, 1, 0) for i in range(1, rng.range(2, 5))])] + evs


def rejected_then_expire_history(rng):
    """a leased sync (HTTP with id, or a job's sync leased by a request without id), 1-2 requests that are rejected for
    their sync id (foreign or missing id; with/without entities; with/without end flag), silence past the lease, then the
    original sync's batches / end and other requests"""
    evs = [plain([(i, 1, 0) for i in range(1, rng.range(3, 5))])]
    job = rng.chance(1, 3)
    if job:
        n = rng.range(1, 2)
        sid = 0
        evs.append(jstart(n))
        if rng.chance(1, 2):
            evs.append(jbatch(n, rand_ents(rng, 2)))
        evs.append(plain(rand_ents(rng, 2)))            # leases the job's sync (id "")
    else:
        sid = rng.range(1, 2)
        evs.append(http(rand_ents(rng, 2), True, sid))
        for _ in range(rng.range(0, 1)):
            evs.append(http(rand_ents(rng, 2), False, sid))
    for _ in range(rng.range(1, 2)):
        foreign = rng.choice([x for x in (0, 1, 2, 3) if x != sid])
        evs.append(http(rand_ents(rng, 2), False, foreign, rng.chance(1, 3)))
    if rng.chance(1, 6):                                # sometimes the sync refreshes its lease again before the silence
        evs.append(http(rand_ents(rng, 1), False, sid) if not job else plain(rand_ents(rng, 1)))
    evs.append(dict(EXPIRE))
    for _ in range(rng.range(1, 3)):
        r = rng.below(6)
        if r == 0:
            evs.append(plain(rand_ents(rng, 2)))
        elif r == 1:
            evs.append(http(rand_ents(rng, 2), False, rng.range(0, 3), rng.chance(1, 2)))
        elif job:
            evs.append(jbatch(n, rand_ents(rng, 2)))
        else:
            evs.append(http(rand_ents(rng, 2), False, sid))
    evs.append(jend(n) if job else http(rand_ents(rng, 1), False, sid, True))
    return evs


def txn_during_sync_history(rng):
    """a sync (HTTP- or job-driven) during which some entities arrive only through POST /transactions"""
    evs = [plain([(i, 1, 0) for i in range(1, rng.range(3, 6))])]
    job = rng.chance(1, 2)
    n, sid = rng.range(1, 2), rng.range(0, 2)
    evs.append(jstart(n) if job else http(rand_ents(rng, 2), True, sid))
    for _ in range(rng.range(1, 3)):
        r = rng.below(4)
        if r <= 1:
            evs.append(txn(rand_ents(rng, 3)))
        elif job:
            evs.append(jbatch(n, rand_ents(rng, 2)))
        else:
            evs.append(http(rand_ents(rng, 2), False, sid))
    if not any(e["k"] == "txn" for e in evs):
        evs.append(txn(rand_ents(rng, 3)))
    evs.append(jend(n) if job else http(rand_ents(rng, 1), False, sid, True))
    if rng.chance(1, 3):
        evs.append(txn(rand_ents(rng, 2)))
    return evs


def partial_expiry_history(rng):
    """leased sync(s); time passes, less than a lease; the sync is re-started with the same or another id / superseded
    by a job / refreshed / rejected / left alone; the timers older than the pause fire, the younger ones do not; then
    the batches and end requests of whoever should still be alive"""
    evs = [plain([(i, 1, 0) for i in range(1, rng.range(3, 5))])]
    sid = rng.range(0, 2)
    n = rng.range(1, 2)
    first = rng.below(4)
    if first <= 1:
        evs.append(http(rand_ents(rng, 2), True, sid))
    elif first == 2:                                   # a job's sync leased by an id-less request (F09a)
        sid = 0
        evs.append(jstart(n))
        evs.append(plain(rand_ents(rng, 2)))
    else:                                              # an HTTP sync completed by a job end: its timer is left behind (F09b)
        evs.append(jstart(n))
        evs.append(http(rand_ents(rng, 2), True, sid))
        evs.append(jend(n))
    if rng.chance(1, 3):
        evs.append(http(rand_ents(rng, 1), False, sid))
    evs.append(dict(PAUSE))
    for _ in range(rng.range(0, 2)):
        r = rng.below(8)
        if r <= 1:
            evs.append(http(rand_ents(rng, 2), True, sid))                   # start re-sent with the same id
        elif r == 2:
            evs.append(http(rand_ents(rng, 2), True, rng.range(0, 2)))
        elif r == 3:
            evs.append(jstart(n))
        elif r == 4:
            evs.append(http(rand_ents(rng, 2), False, sid))                  # refresh
        elif r == 5:
            evs.append(http(rand_ents(rng, 1), False, rng.range(0, 3)))      # maybe foreign
        elif r == 6:
            evs.append(jbatch(n, rand_ents(rng, 2)))
        else:
            evs.append(txn(rand_ents(rng, 2)))
    evs.append(dict(EXPIRE_OLD))
    for _ in range(rng.range(0, 2)):
        r = rng.below(4)
        if r == 0:
            evs.append(plain(rand_ents(rng, 2)))
        elif r == 1:
            evs.append(jbatch(n, rand_ents(rng, 2)))
        else:
            evs.append(http(rand_ents(rng, 2), False, sid))
    evs.append(jend(n) if rng.chance(1, 3) else http(rand_ents(rng, 1), False, sid, True))
    if rng.chance(1, 4):
        evs.append(dict(EXPIRE))
        evs.append(http([], False, sid, True))
    return evs


def refused_entity_history(rng):
    """a fullsync job run through the real pipeline in which the sink refuses an entity of some page: with a capped log
    handler (or none) the run stops there and must not complete the sync; with an uncapped one it goes on.  Returns
    (events, on_error)."""
    mode = rng.choice([LOG1, LOG1, LOG, ""])
    evs = [plain([(i, 1, 0) for i in range(1, rng.range(4, 6))])]
    n = rng.range(1, 2)
    pid = 9
    if rng.chance(1, 4):
        evs.append(http(rand_ents(rng, 2), True, rng.range(0, 2)))   # an HTTP sync is open when the job starts
    evs.append(jstart(n))
    for _ in range(rng.range(0, 2)):
        evs.append(jbatch(n, rand_ents(rng, 3)))
    page = rand_ents(rng, 4)
    evs.append(jpoison(n, page, 0 if mode == "" else rng.range(0, len(page)), pid))
    pid += 1
    stopped = mode != LOG
    for _ in range(rng.range(0, 3)):
        r = rng.below(7)
        if r == 0:
            evs.append(plain(rand_ents(rng, 2)))
        elif r == 1:
            evs.append(txn(rand_ents(rng, 2)))
        elif r == 2 and not stopped:
            page = rand_ents(rng, 3)
            evs.append(jpoison(n, page, 0 if mode == "" else rng.range(0, len(page)), pid))
            pid += 1
            stopped = mode != LOG
        elif r == 3 and stopped:
            evs.append(jstart(n))                                   # the next run of the job
            stopped = False
        elif r == 4:
            evs.append(http(rand_ents(rng, 2), False, rng.range(0, 2), rng.chance(1, 2)))
        else:
            evs.append(jbatch(n, rand_ents(rng, 3)))
    if rng.chance(2, 3):
        evs.append(jend(n))
    return evs, mode


def nested_tombstone_history(rng):
    """the dataset holds live entities with a nested sub-entity flagged deleted (contents 7/8, written once each);
    a sync that does not contain some of them completes"""
    pop = [(i, rng.choice([1, 7, 8]), 1 if rng.chance(1, 8) else 0) for i in range(1, rng.range(3, 6))]
    if not any(c in (7, 8) for _, c, _ in pop):
        pop[0] = (pop[0][0], 7, 0)
    evs = [plain(pop)]
    r = rng.below(3)
    if r == 0:
        sid = rng.range(0, 2)
        evs.append(http(rand_ents(rng, 2), True, sid))
        if rng.chance(1, 2):
            evs.append(txn(rand_ents(rng, 2)))
        evs.append(http(rand_ents(rng, 2), False, sid, True))
    elif r == 1:
        n = rng.range(1, 2)
        evs += [jstart(n), jbatch(n, rand_ents(rng, 3)), jend(n)]
    else:
        n = rng.range(1, 2)
        evs += [hstart(n), hbatch(n, rand_ents(rng, 3) or [(1, 2, 0)]), hend(n)]
    if rng.chance(1, 3):
        evs.append(plain(rand_ents(rng, 2)))
    return evs


def http_sink_history(rng):
    """runs of fullsync jobs with the real httpDatasetSink: aborted after 0-2 batches, completed, overlapping with
    another job's runs, with other requests and lease expiries in between"""
    evs = [plain([(i, 1, 0) for i in range(1, rng.range(4, 6))])]
    nexp = 0
    for _ in range(rng.range(1, 3)):
        n = rng.range(1, 2)
        evs.append(hstart(n))
        for _ in range(rng.range(0, 2)):
            evs.append(hbatch(n, rand_ents(rng, 3)))
            if rng.chance(1, 5):
                evs.append(rng.choice([plain(rand_ents(rng, 2)), txn(rand_ents(rng, 2)), http(rand_ents(rng, 2), False, rng.range(0, 2)),
                                       hbatch(3 - n, rand_ents(rng, 2)), hstart(3 - n), jstart(n)]))
            if rng.chance(1, 8) and nexp < 2:
                evs.append(dict(EXPIRE))
                nexp += 1
        if rng.chance(3, 5):
            evs.append(hend(n))           # otherwise the run is aborted: the sink object keeps its state
    if evs[-1]["k"] != "hend":
        n = evs[-1].get("n", 1)
        evs += [hstart(n), hbatch(n, rand_ents(rng, 3) or [(2, 2, 0)]), hend(n)]
    return evs


def gen(rng, tier):
    out = _gen(rng, tier)
    for c in out:
        c["long_ids"] = rng.chance(1, 2)
        # now and then the context of an end request / a job's end call is already cancelled
        if rng.chance(1, 4):
            ends = [e for e in c["events"] if (e["k"] == "http" and e.get("end")) or e["k"] == "jend"]
            if ends:
                rng.choice(ends)["cancelled"] = True
    return out


def _gen(rng, tier):
    out = []
    if tier == "quick":
        n_t, n_r = 100, 100
    elif tier == "search":
        n_t, n_r = 250, 250
    else:
        n_t, n_r = 1500, 1500
    for _ in range(n_t):
        out.append(mk(template_history(rng), rng.chance(1, 2)))
    for _ in range(n_r):
        out.append(mk(rand_history(rng, 3, 9), rng.chance(1, 2)))
    for _ in range({"quick": 50, "search": 80}.get(tier, 500)):
        out.append(mk(rejected_then_expire_history(rng), rng.chance(1, 2)))
    for _ in range({"quick": 40, "search": 80}.get(tier, 400)):
        out.append(mk(txn_during_sync_history(rng), rng.chance(1, 2)))
    for _ in range({"quick": 60, "search": 100}.get(tier, 600)):
        out.append(mk(partial_expiry_history(rng), rng.chance(1, 2)))
    for _ in range({"quick": 40, "search": 80}.get(tier, 400)):
        evs, mode = refused_entity_history(rng)
        out.append(mk(evs, True, mode))
    for _ in range({"quick": 30, "search": 60}.get(tier, 300)):
        out.append(mk(nested_tombstone_history(rng), rng.chance(1, 2)))
    for _ in range({"quick": 50, "search": 80}.get(tier, 500)):
        out.append(mk(http_sink_history(rng), rng.chance(1, 2)))
    if tier == "thorough":
        # every history of length 3 over a small alphabet after the common prefix (no timers: cheap)
        alpha = [http([(1, 2, 0)], True, 1), http([(2, 2, 0)], False, 1), http([(2, 2, 0)], False, 0),
                 http([(3, 2, 0)], False, 1, True), http([], False, 0, True), jstart(1), jbatch(1, [(1, 3, 0)]), jend(1),
                 jstart(2), jend(2)]
        for a in alpha:
            for b in alpha:
                for c in alpha:
                    out.append(mk([plain(BASE), a, b, c]))
    return out


# ------------------------------------------------------------------ driver

def _run_shard(binp, idx, cases):
    sd = os.path.join("/dev/shm" if os.path.isdir("/dev/shm") else vlib.BUILD, "verif-c09-%d-%d" % (os.getpid(), idx))
    shutil.rmtree(sd, ignore_errors=True)
    os.makedirs(sd)
    obs = []
    todo = list(cases)
    try:
        while todo:
            inp = "".join(json.dumps(c) + "\n" for c in todo)
            try:
                p = subprocess.run([binp, sd], input=inp, stdout=subprocess.PIPE, stderr=subprocess.PIPE, text=True,
                                   env=vlib.goenv(), timeout=30 * len(todo) + 60)
                out, err, rc = p.stdout, p.stderr, p.returncode
            except subprocess.TimeoutExpired as ex:
                out = ex.stdout.decode() if isinstance(ex.stdout, bytes) else (ex.stdout or "")
                err, rc = "timeout", -9
            got = []
            for l in out.splitlines():
                if l.startswith("@@OBS "):
                    try:
                        got.append(json.loads(l[6:]))
                    except ValueError:
                        break
            obs.extend(got)
            todo = todo[len(got):]
            if todo and rc != 0:
                obs.append({"outcome": "died", "steps": [], "detail": (err or "")[-400:], "tries": 0})
                todo = todo[1:]
            elif todo:
                raise RuntimeError("driver returned too few lines without failing")
    finally:
        shutil.rmtree(sd, ignore_errors=True)
    return obs


def run(binp, cases):
    nproc = 6
    shards = [(i, cases[i::nproc]) for i in range(nproc)]
    with ThreadPoolExecutor(max_workers=nproc) as ex:
        parts = list(ex.map(lambda s: _run_shard(binp, s[0], s[1]), shards))
    obs = [None] * len(cases)
    for i, part in enumerate(parts):
        for j, o in enumerate(part):
            obs[i + j * nproc] = o
    # histories with a timer are executed twice; a timing accident (seen about once in 2000 such histories on a machine
    # with a load of 45) does not repeat, a property of the tree does: if the two observations differ the case is skipped
    timed_idx = [i for i, c in enumerate(cases) if any(e["k"] in ("expire", "expire_old", "pause") for e in c["events"])]
    if timed_idx:
        again_cases = [cases[i] for i in timed_idx]
        shards2 = [(10 + i, again_cases[i::nproc]) for i in range(nproc)]
        with ThreadPoolExecutor(max_workers=nproc) as ex:
            parts2 = list(ex.map(lambda s: _run_shard(binp, s[0], s[1]), shards2))
        for i, part in enumerate(parts2):
            for j, o2 in enumerate(part):
                k = timed_idx[i + j * nproc]
                o1 = obs[k]
                if o1.get("outcome") == "ok" and (o2.get("outcome") != "ok" or _obs_steps(o1) != _obs_steps(o2)
                                                   or [s["started"] for s in o1["steps"]] != [s["started"] for s in o2["steps"]]):
                    obs[k] = {"outcome": "skipped", "steps": [], "tries": o1.get("tries", 1),
                              "detail": "two executions of this timed history gave different observations: %s | %s" % (
                                  json.dumps(o1.get("steps"))[:1500], json.dumps(o2.get("steps"))[:1500])}
    # a skipped case is a timing flake of that case and never a failure - but if the driver cannot recognise the lease
    # goroutine of this tree at all, or no history with a timer could be realised, nothing about leases was compared
    if any("not recognisable" in (o.get("detail") or "") for o in obs):
        raise RuntimeError("driver self-test failed on this tree: taking a lease does not start a goroutine named "
                           "RefreshFullSyncLease.func* that ends after the lease time (lease-timer histories cannot be realised)")
    timed = [o for c, o in zip(cases, obs) if any(e["k"] in ("expire", "expire_old") for e in c["events"])]
    if len(timed) >= 10 and all(o.get("outcome") == "skipped" for o in timed):
        raise RuntimeError("none of the %d histories with a lease expiry could be realised (all skipped): %s" % (
            len(timed), timed[0].get("detail")))
    return obs


# ------------------------------------------------------------------ Coq terms

def ent_term(e):
    return "mkEnt %d %d %s" % (e[0], e[1], vlib.coq_bool(e[2]))


def ev_term(e, on_error=""):
    k = e["k"]
    ents = vlib.coq_list([ent_term(x) for x in e.get("ents", [])])
    if k == "jbatch" and "poison" in e and on_error != LOG:
        # the run stops at the refused entity: what is in front of it is written, the call fails
        return "DJobPageFail %d %s" % (e["n"], vlib.coq_list([ent_term(x) for x in e["ents"][:e["poison"]]]))
    if k == "http" and e.get("cancelled") and e.get("end"):
        return "DCancelledEnd (EHttp %s %d true %s)" % (vlib.coq_bool(e.get("start", False)), e.get("id", 0), ents)
    if k == "jend" and e.get("cancelled"):
        return "DCancelledEnd (EJobEnd %d)" % e["n"]
    if k == "http":
        return "%s (EHttp %s %d %s %s)" % ("DSinkHttp" if e.get("sink") else "DEv",vlib.coq_bool(e.get("start", False)), e.get("id", 0),
                                            vlib.coq_bool(e.get("end", False)), ents)
    if k == "jstart":
        return "DEv (EJobStart %d)" % e["n"]
    if k == "jbatch":
        return "DEv (EJobBatch %d %s)" % (e["n"], ents)
    if k == "jend":
        return "DEv (EJobEnd %d)" % e["n"]
    if k == "jabort":
        return "DNop"
    if k == "txn":
        return "DEv (ETxn %s)" % ents
    if k == "pause":
        return "DPause"
    if k == "expire_old":
        return "DExpireOld"
    return "DExpireAll"


def step_term(s):
    view = vlib.coq_list(["(%d%%N, (%d%%N, %s))" % (v[0], v[1] if v[1] >= 0 else 999, vlib.coq_bool(v[2])) for v in s["view"]])
    return "mkOstep %d %d %s %s" % (s["status"], s["changes"], vlib.coq_bool(s["started"]), view)


def term(c, o):
    skipped = o.get("outcome") == "skipped"
    steps = [] if skipped else o.get("steps", [])
    return "mkCase %s %s %s" % (vlib.coq_list([ev_term(e, c.get("on_error", "")) for e in translate(c, o)]), vlib.coq_bool(skipped),
                                vlib.coq_list([step_term(s) for s in steps]))


def predict_text(c, o):
    t = term(c, o)
    ok, out, _ = vlib.coq_eval("C09p", [CHECK_MODULE],
                               "Definition c : tcase := %s.\nEval vm_compute in (predict Current c).\n"
                               "Eval vm_compute in (predict Fixed c).\nEval vm_compute in (spredict c).\n" % t)
    return out.strip()


# ------------------------------------------------------------------ attribution / evidence helpers

class _Cur:
    """Python mirror of Model.FullSync (variant Current), used only to attribute spec failures to findings:
    a failure is attributed only if this mirror reproduces the observation exactly (tag 'py-mirror-differs' otherwise)."""

    def __init__(self):
        self.view = {}
        self.changes = 0
        self.started = False
        self.sid = 0
        self.lease = False
        self.timers = []      # [captured sid, generation of the sync it was created in, old?]
        self.seen = set()
        self.own = None       # "http" | ("job", n)
        self.gen = 0
        self.why_dead = "never"

    def store(self, ents):
        for i, c, d in ents:
            if self.started:
                self.seen.add(i)
            if self.view.get(i) != (c, d):
                self.view[i] = (c, d)
                self.changes += 1

    def cancel(self):
        if self.lease and self.timers:
            self.timers.pop()

    def start_full_sync(self, owner):
        if self.started:
            self.cancel()
            self.lease = False
            self.sid = 0
        self.started = True
        self.seen = set()
        self.own = owner
        self.gen += 1

    def refresh(self, sid):
        if self.started:
            if sid == self.sid:
                self.cancel()
                self.timers.append([self.sid, self.gen, False])
                self.lease = True
                return True
            return False
        return sid == 0

    def complete(self, why):
        for i, (c, d) in list(self.view.items()):
            if not d and i not in self.seen:
                self.view[i] = (c, 1)
                self.changes += 1
        self.started, self.seen, self.lease, self.sid, self.own = False, set(), False, 0, None
        self.why_dead = why

    def abandon(self):
        """CompleteFullSync entered with a cancelled context: nothing swept, the deferred reset drops the sync"""
        self.started, self.seen, self.lease, self.sid, self.own = False, set(), False, 0, None
        self.why_dead = "completed"

    def expire_all(self, only_old=False):
        while self.timers and (self.timers[0][2] or not only_old):
            sid, gen, _ = self.timers.pop(0)
            if sid == self.sid:
                if self.started:
                    self.why_dead = "expired-own-timer" if gen == self.gen else "expired-stale-timer"
                self.started, self.seen, self.lease, self.sid, self.own = False, set(), False, 0, None

    def step(self, e, on_error=""):
        k = e["k"]
        ents = [tuple(x) for x in e.get("ents", [])]
        if k == "jbatch" and "poison" in e and on_error != LOG:
            self.store(ents[:e["poison"]])
            return 6
        if k == "http" and e.get("sink"):
            e2 = dict(e)
            del e2["sink"]
            return 0 if self.step(e2) == 0 else 6
        if k == "http":
            if e.get("start"):
                self.start_full_sync("http")
                self.sid = e.get("id", 0)
                self.refresh(self.sid)
            elif self.started:
                if not self.refresh(e.get("id", 0)):
                    return 1
            self.store(ents)
            if e.get("end"):
                if not self.lease:
                    return 2
                self.cancel()
                if e.get("cancelled"):
                    self.abandon()
                    return 4
                self.complete("http-end-on-job-sync" if isinstance(self.own, tuple) else "completed")
            return 0
        if k == "jstart":
            self.start_full_sync(("job", e["n"]))
        elif k in ("jbatch", "txn"):
            self.store(ents)
        elif k == "jend" and e.get("cancelled"):
            self.abandon()
            return 6
        elif k == "jend":
            self.complete("completed")
        elif k == "expire":
            self.expire_all()
        elif k == "pause":
            for t in self.timers:
                t[2] = True
        elif k == "expire_old":
            self.expire_all(True)
        return 0

    def obs(self, status):
        return (status, self.changes, sorted((i, c, int(d)) for i, (c, d) in self.view.items()))


def _obs_steps(o):
    return [(s["status"], s["changes"], sorted((v[0], v[1], int(v[2])) for v in s["view"])) for s in o.get("steps", [])]


def _spec_active_after(evs):
    """Model.FullSync.active_of, with Check.C09Check.dsstep's reading of pause / expire_old"""
    a = None
    fresh = True
    for e in evs:
        k = e["k"]
        if k == "pause":
            fresh = False
        if k == "http" and (e.get("start") or (a is not None and a[0] == "http" and e.get("id", 0) == a[1])):
            fresh = True
        if k == "http" and e.get("start"):
            a = None if e.get("end") else ("http", e.get("id", 0))
        elif k == "jstart":
            a = ("job", e["n"])
        elif a is not None:
            if a[0] == "http" and ((k == "http" and e.get("end") and e.get("id", 0) == a[1]) or k == "expire"
                                   or (k == "expire_old" and not fresh)):
                a = None
            elif a[0] == "job" and k == "jend" and e["n"] == a[1]:
                a = None
    return a


def attribute(c, o):
    """finding id whose mechanism explains a spec failure of this case, or None.  Only observations that the pinned
    model reproduces exactly are attributed; the finding is read off the model state at the first request whose effect
    is not the one the history-level spec allows."""
    if o.get("outcome") != "ok":
        return None
    m = _Cur()
    steps = _obs_steps(o)
    evs = translate(c, o)
    if len(steps) != len(evs):
        return None
    verdict = None
    for i, e in enumerate(evs):
        active = _spec_active_after(evs[:i])
        started_before, own_before, why = m.started, m.own, m.why_dead
        before = dict(m.view)
        st = m.step(e, c.get("on_error", ""))
        if m.obs(st) != steps[i]:
            return None
        if verdict is not None:
            continue
        k = e["k"]
        if k == "jend":
            by_why = {"expired-own-timer": "F09a", "expired-stale-timer": "F09d", "http-end-on-job-sync": "F09c"}
            if active == ("job", e["n"]):
                if not started_before:      # the job's sync was taken away from it; its end now sweeps with an empty seen-set
                    verdict = by_why.get(why, "F09b")
            elif started_before:            # the end call completes somebody else's sync
                verdict = "F09b"
            else:                           # the end call of a dead sync is answered ok (and sweeps with an empty seen-set)
                verdict = by_why.get(why, "F09b")
        elif k == "http" and e.get("end") and not e.get("start") and st == 0 and isinstance(own_before, tuple):
            verdict = "F09c"
        elif (k == "http" and not e.get("start") and e.get("id", 0) != 0 and st == 0 and active is not None
              and active[0] == "job" and not started_before):
            # the job's sync was reset by a lease timer: a request with a foreign id is no longer rejected
            verdict = {"expired-own-timer": "F09a", "expired-stale-timer": "F09d", "http-end-on-job-sync": "F09c"}.get(why)
    return verdict


def _mirror_differs(c, o):
    if o.get("outcome") != "ok":
        return False
    m = _Cur()
    steps = _obs_steps(o)
    if len(steps) != len(c["events"]):
        return True
    for e, s in zip(translate(c, o), steps):
        if m.obs(m.step(e, c.get("on_error", ""))) != s:
            return True
    return False


def size(c):
    return 10 * len(c["events"]) + sum(len(e.get("ents", [])) for e in c["events"])


def _sync_deleted(c, o):
    """ids tombstoned by a completion (not by an explicit deleted write) in some step"""
    prev = {}
    n = 0
    for e, s in zip(c["events"], o.get("steps", [])):
        cur = {v[0]: v for v in s["view"]}
        explicit = {x[0] for x in e.get("ents", []) if x[2]}
        for i, v in cur.items():
            if v[2] and i in prev and not prev[i][2] and i not in explicit:
                n += 1
        prev = cur
    return n


def classify(c, o):
    if o.get("outcome") != "ok":
        return None
    if any(s["status"] != 0 for s in o["steps"]) or _sync_deleted(c, o) > 0:
        return "nontrivial"
    return None


def tags(c, o):
    ks = [e["k"] for e in c["events"]]
    t = ["outcome=" + o.get("outcome", "?"), "len=%d" % min(len(ks), 12), "sync-ids=" + ("long" if c.get("long_ids") else "short"),
         "jobs-via=" + ("FullSyncPipeline.sync" if c.get("pipeline") else "datasetSink calls")]
    if o.get("tries", 1) > 1:
        t.append("retried")
    if "expire" in ks:
        t.append("has-expire")
    if any(k.startswith("j") for k in ks) and any(e["k"] == "http" and (e.get("start") or e.get("id") or e.get("end")) for e in c["events"]):
        t.append("job+http-sync")
    elif any(k.startswith("j") for k in ks):
        t.append("job-sync")
    elif any(e.get("start") for e in c["events"]):
        t.append("http-sync")
    for s in o.get("steps", []):
        if s["status"] in (1, 2, 6):
            t.append({1: "has-409", 2: "has-410", 6: "has-job-error"}[s["status"]])
    if _sync_deleted(c, o):
        t.append("completion-deletes")
    if _mirror_differs(c, o):
        t.append("py-mirror-of-pinned-model-differs")
    return sorted(set(t))
