"""C13 - namespace prefixes and internal identifiers are one-to-one, permanent, race-free."""
import re

import vlib

ID = "C13"
PROP_FILE = "Properties/C13.v"
CHECK_MODULE = "Check.C13Check"
CASE_TYPE = "tcase"
DRIVER_PKG = "cmd/verif_c13"
SHARD = 12

VARIANTS = [
    {"name": "current(AliasLive,CtxCopyPtr)", "findings": ["F13a", "F13b", "F13c", "F13d"]},
    {"name": "alias-repaired(AliasCopy,CtxCopyPtr)", "findings": ["F13b", "F13c", "F13d"]},
    {"name": "ctxstore-repaired(AliasLive,CtxShared)", "findings": ["F13a"]},
    {"name": "fixed(AliasCopy,CtxShared)", "findings": []},
]
RULE = ("case = an op sequence run on one real store directory (2 datasets): assert/compact/expand/lookup of namespaces over URI "
        "shapes (hash and slash namespaces, '#' before '/', empty local part, colons/quotes/non-ASCII in the local part, no path, "
        "non-http), GetNamespacedIdentifier with local namespaces, context fetch + later read of the same handle, entity batches "
        "through StoreEntities / ExecuteTransaction / a contextual store's ExecuteTransaction (ids shared across datasets, failing "
        "batches with an empty URI, re-stored entities with new reference targets), NewContextualStore, restart (Close+NewStore) and "
        "crash (directory image taken while open) at random positions, writes during which the process dies at a verifhook point "
        "(before the id commit / between id and entity commit / after both; StoreEntities, ExecuteTransaction, contextual store), "
        "the same URIs compacted through the HttpTransform-with-SupportContext path (real transformEntities against an httptest "
        "service) and through one HttpDatasetSource read repeatedly against a remote whose context changes between responses, "
        "contexts as requests get them through the real web handlers (GET /namespaces, @context of plain pages of datasets with "
        "and without publicNamespaces, JSON-LD pages), "
        "dumps of both namespace maps, both id indexes and the (identifier, id) pairs carried by stored entity versions and "
        "reference keys; "
        "a case is non-trivial when it contains a restart/crash or a contextual-store write or a context read after an assertion; "
        "distinct = distinct op sequences; every tier adds bounded concurrent bursts on the namespace manager in a child process "
        "(k callers introducing the same new namespace while another request stream introduces others, then k different new "
        "namespaces at once; per round: same CURIE for all, live maps mutually inverse, every handed-out pair in the persisted "
        "state object; Close+NewStore every 6th round: all pairs still there, next namespace gets a fresh prefix); "
        "thorough adds a >1000-id batch (lease renewal) and the concurrent reader/asserter workload")
TRUSTED = [
    "Badger: a committed Txn is atomic and durable, Txn.Get sees the transaction's own pending writes plus the committed state, "
    "Get/Commit on a discarded Txn fail as in badger v4.2.0 txn.go, Sequence behaves as db.go (lease persisted before first use, "
    "Release returns the unused part) - modelled in Model/Ids.v, exercised by every case",
    "a crash is simulated by copying the store directory while the store is open and opening the copy (no fsync-level faults)",
    "encoding/json round-trips the namespace state (strings are valid UTF-8; the generator only emits such strings)",
    "goroutine scheduling, sync.Mutex and Go's concurrent-map-access detector are exercised (thorough tier, child process under a "
    "watchdog), not modelled: the model only names the outcome (a death of that workload is consistent with AliasLive only)",
]
ASSUMPTIONS = [
    "StoreObject (Badger update of the namespace state) does not fail; if it does, the in-memory maps are ahead of the disk",
    "entities of the driver carry at most one reference and differ from their stored predecessor; no duplicate ids inside one batch; "
    "transactions name one dataset (Go iterates the transaction's dataset map in random order)",
    "lease size >= 1 (the code passes 1000); ids stay below 2^64",
]

DSS = ["a", "b"]
NS_POOL = ["http://a.example/x/", "http://a.example/x#", "https://b.example/", "http://c.example/deep/path/",
           "http://h.example/p#q/", "https://", "http://", "http://a.example/", "https://b.example/y#"]
LOCALS = ["e1", "e2", "", "a:b", "a:b:c", ":x", "ünï", "sp ace", "q\"uo\\te", "<&>", "t", "p"]
ODD_URIS = ["https://nopath", "http://nopath", "http:/notreally", "urn:x:y", "", "ftp://x/y", "http://a.example/x/y#z/w",
            "http://a.example/x#y#z", "https://b.example/a/b/c"]
LOCAL_NS = {"x": "http://loc.example/x/", "_": "http://loc.example/default/", "": "http://loc.example/empty/", "h": "http://a.example/x#"}
ENT_IDS = ["ns3:e1", "ns3:e2", "ns4:e1", "ns3:e3", "http://raw.example/e", "ns9:z", "e-plain", "ns3:t1"]
REF_P = ["ns3:p", "ns4:q", "ns2:type"]
REF_T = ["ns3:t1", "ns3:t2", "ns4:t1", "ns3:e1", "ns1:dataset", "ns5:new1", "ns5:new2", "ns5:new3"]


def s2l(s):
    return "[" + "; ".join(str(b) for b in s.encode("utf-8")) + "]"


# ---------------------------------------------------------------------------------------------- ops

def op_assert(s): return {"op": "assert", "s": s}
def op_compact(s): return {"op": "compact", "s": s}
def op_nsid(s, locs): return {"op": "nsid", "s": s, "locals": locs}
def op_expand(s): return {"op": "expand", "s": s}
def op_getprefix(s): return {"op": "getprefix", "s": s}
def op_fetch(): return {"op": "fetch"}
def op_read(h): return {"op": "read", "h": h}
def ent(i, p=None, t=None): return {"id": i, "ref": p is not None, "p": p or "", "t": t or ""}
def op_batch(ds, ents, txn=False, crashpt=None):
    o = {"op": "batch", "ds": ds, "ents": ents, "txn": txn}
    if crashpt is not None:
        o["crashpt"] = crashpt
    return o
def op_ctxnew(): return {"op": "ctxnew"}
def op_ctxtxn(k, ds, ents, crashpt=None):
    o = {"op": "ctxtxn", "k": k, "ds": ds, "ents": ents}
    if crashpt is not None:
        o["crashpt"] = crashpt
    return o
def op_restart(crash=False): return {"op": "restart", "crash": crash}
def op_dump(): return {"op": "dump"}
def op_page(ds, changes=False): return {"op": "page", "ds": ds, "txn": changes}
def op_jsonld(ds): return {"op": "jsonld", "ds": ds}
def op_namespaces(): return {"op": "namespaces"}
def op_tcompact(s): return {"op": "tcompact", "s": s}
def op_srcpage(s, locs): return {"op": "srcpage", "s": s, "locals": locs}


def has_path(u):
    """the transform service of the driver reports ids with a path as CURIEs in its own context"""
    i = u.find("://")
    return i > 0 and "/" in u[i + 3:]


SRC_CTX = [{"a": "http://one.example.com/", "_": "http://one.example.com/d/", "h": "http://a.example/x#"},
           {"a": "http://two.example.com/", "_": "http://two.example.com/d#", "h": "http://a.example/x#"},
           {"a": "http://a.example/x/", "b": "http://one.example.com/"}]
SRC_KEYS = ["a:name", "a:x/y", "label", "h:l", "b:name", "h:q/r"]
HASH_SLASH = "http://example.com/doc#section/1"


def mk(ops, pub=None):
    c = {"dss": DSS, "ops": ops}
    if pub:
        c["pub"] = [{"name": n, "exps": e} for n, e in pub]
    return c


def pub_exps(c, ds):
    for p in c.get("pub") or []:
        if p["name"] == ds:
            return p["exps"]
    return None


def witness_cases():
    u = "http://x.org/a#b:c"
    return [
        # F13a: the context handed out earlier grows
        mk([op_fetch(), op_compact(u), op_read(0), op_expand("ns3:b:c"), op_dump()]),
        # F13b: failed write leaves the id txn open; contextual store captures it; main write commits it
        mk([op_batch("a", [ent("ns3:e1", "ns3:p", "ns3:t1"), ent("ns3:e2", "ns3:p", "")]), op_ctxnew(),
            op_batch("a", [ent("ns3:e3")]), op_ctxtxn(0, "a", [ent("ns3:e4")]), op_ctxtxn(0, "b", [ent("ns3:e5")]),
            op_batch("b", [ent("ns3:e6")]), op_dump()]),
        # F13d: the contextual store commits the txn its parent still points to
        mk([op_batch("a", [ent("")]), op_batch("a", [ent("ns3:e1", "ns3:p", "")]), op_ctxnew(), op_ctxtxn(0, "a", [ent("ns3:e2")]),
            op_batch("a", [ent("ns3:e3")]), op_batch("b", [ent("ns3:e3")], True), op_restart(), op_batch("a", [ent("ns3:e3")]),
            op_dump()]),
        # F13c: ids handed out through the contextual store are not committed with the data
        mk([op_batch("a", [ent("ns3:e1")]), op_ctxnew(), op_ctxtxn(0, "a", [ent("ns3:e1", "ns3:p", "ns5:new1")]), op_dump(),
            op_restart(), op_batch("b", [ent("ns3:zz")]), op_batch("a", [ent("ns5:new1")]), op_dump()]),
        # lease: crash skips the rest of the lease, clean restart does not
        mk([op_batch("a", [ent("ns3:e1")]), op_restart(True), op_batch("a", [ent("ns3:e2")]), op_restart(False),
            op_batch("b", [ent("ns3:e3"), ent("ns3:e1")], True), op_restart(True), op_restart(True), op_batch("b", [ent("ns4:e1")]),
            op_dump()]),
        # the process dies at a hook point of a write (before the id commit / between the two commits / after both),
        # through ExecuteTransaction, StoreEntities and a contextual store; the next process must find no internal id
        # without its URI record, and the identifiers keep their ids
        mk([op_batch("a", [ent("ns3:alice", "ns3:knows", "ns3:bob")], True, 1), op_dump(), op_batch("b", [ent("ns3:alice")]),
            op_batch("a", [ent("ns3:carol", "ns3:knows", "ns3:dave")], True, 0), op_dump(), op_batch("b", [ent("ns3:carol")]),
            op_batch("a", [ent("ns3:erin", "ns3:knows", "ns3:frank")], True, 2), op_dump(), op_batch("b", [ent("ns3:erin")]),
            op_dump()]),
        mk([op_batch("a", [ent("ns3:alice", "ns3:knows", "ns3:bob")], False, 1), op_dump(), op_batch("b", [ent("ns3:alice")], True),
            op_ctxnew(), op_ctxtxn(0, "a", [ent("ns3:gus", "ns3:knows", "ns3:hal")], 1), op_dump(), op_batch("b", [ent("ns3:gus")]),
            op_ctxnew(), op_ctxtxn(0, "b", [ent("ns3:ivy"), ent("ns3:gus", "ns3:knows", "ns3:jo")], 2), op_dump(),
            op_batch("a", [ent("ns3:ivy"), ent("ns3:jo")], False, 0), op_dump(), op_batch("a", [ent("ns3:ivy"), ent("ns3:jo")]),
            op_dump()]),
        # contexts served to requests are functions of the manager's table: a JSON-LD page (which adds its fixed prefixes
        # core and rdf to its copy) must not change what /namespaces, later pages or other readers see
        mk([op_namespaces(), op_jsonld("a"), op_namespaces(), op_page("a"), op_fetch(), op_page("b", True), op_jsonld("b"),
            op_read(0), op_namespaces(), op_compact("http://a.example/x/e1"), op_jsonld("a"), op_page("a"), op_dump()]),
        # a dataset declares a namespace nobody has used yet: page before first use, first use through a route that adds
        # nothing to that dataset, page again - the page's context must show the prefix the manager gave
        mk([op_page("p"), op_assert("http://pub.example/later#"), op_page("p"), op_page("p", True),
            op_batch("a", [ent("ns4:x")]), op_page("p"), op_jsonld("p"), op_page("p"), op_restart(), op_page("p"),
            op_compact("http://pub.example/other/e"), op_page("q"), op_page("p"), op_dump()],
           pub=[("p", ["http://a.example/x/", "http://pub.example/later#"]), ("q", ["http://pub.example/other/"])]),
        # one identifier, one CURIE, through every entry point: the store's own compaction, an id that comes back from an
        # HttpTransform with SupportContext (package jobs), keys read by ONE HttpDatasetSource whose remote changes its
        # context between responses (package jobs/source)
        mk([op_compact(HASH_SLASH), op_tcompact(HASH_SLASH), op_tcompact("http://h.example/p#q/e1"), op_compact("http://h.example/p#q/e1"),
            op_tcompact("http://a.example/x#y#z"), op_compact("http://a.example/x#y#z"), op_restart(), op_tcompact(HASH_SLASH),
            op_srcpage("a:name", SRC_CTX[0]), op_srcpage("a:name", SRC_CTX[1]), op_srcpage("label", SRC_CTX[0]),
            op_srcpage("label", SRC_CTX[1]), op_srcpage("a:name", SRC_CTX[2]), op_srcpage("label", SRC_CTX[2]),
            op_srcpage("h:q/r", SRC_CTX[1]), op_compact("http://a.example/x#q/r"), op_dump()]),
        # a URI that is itself a namespace (empty local part) compacts to "ns<N>:" - and that CURIE expands back
        mk([op_compact("http://a.example/x/"), op_expand("ns3:"), op_compact("http://a.example/x#"), op_expand("ns4:"),
            op_tcompact("http://a.example/y/"), op_expand("ns5:"), op_assert("urn:x:"), op_expand("ns6:"), op_expand("ns6:tail"),
            op_restart(), op_expand("ns3:"), op_expand("ns0:"), op_dump()]),
        # URI shapes
        mk([op_compact(x) for x in ODD_URIS] + [op_compact(n + l) for n, l in zip(NS_POOL, LOCALS)]
           + [op_restart()] + [op_compact(n + l) for n, l in zip(NS_POOL, LOCALS)] + [op_expand("ns3:"), op_expand("nocolon"),
                                                                                      op_expand(":x"), op_expand("ns99:x"), op_dump()]),
        mk([op_nsid("x:foo", LOCAL_NS), op_nsid("foo", LOCAL_NS), op_nsid("foo", {"x": "http://loc.example/x/"}),
            op_nsid("unknown:foo", LOCAL_NS), op_nsid(":foo", LOCAL_NS), op_nsid("x:a:b", LOCAL_NS), op_nsid("", LOCAL_NS),
            op_nsid("http://a.example/x#l", LOCAL_NS), op_nsid("h:l", LOCAL_NS), op_assert(""), op_assert("weird"), op_assert(""),
            op_getprefix("weird"), op_getprefix("nope"), op_dump()]),
    ]


def corpus_cases():
    return []


def rand_ents(rng, bad_ok=True):
    n = rng.range(1, 3)
    ids = list(ENT_IDS)
    rng.shuffle(ids)
    out = []
    for i in ids[:n]:
        if rng.chance(3, 5):
            t = rng.choice(REF_T)
            if bad_ok and rng.chance(1, 12):
                t = ""
            out.append(ent(i, rng.choice(REF_P), t))
        else:
            out.append(ent(i))
    if bad_ok and rng.chance(1, 25):
        out[rng.below(len(out))]["id"] = ""
    return out


def rand_case(rng, nops, flavour):
    ops = []
    pub = None
    pages = list(DSS)
    if rng.chance(1, 2):
        pool = list(NS_POOL)
        rng.shuffle(pool)
        pub = [("p", pool[:rng.range(1, 2)])]
        pages.append("p")
    nfetch = 0
    nctx = 0
    for _ in range(nops):
        r = rng.below(100)
        if flavour == "ns":
            r = r % 45
        elif flavour == "ids":
            r = 45 + r % 55
        if r < 12 and rng.chance(1, 3):
            k = rng.below(4)
            if k == 0:
                ops.append(op_jsonld(rng.choice(pages)))
            elif k == 1:
                ops.append(op_namespaces())
            else:
                ops.append(op_page(rng.choice(pages), rng.chance(1, 3)))
        elif r < 12 and rng.chance(1, 3):
            u = rng.choice(NS_POOL + [HASH_SLASH[:-1]]) + rng.choice(LOCALS + ["q/r", "1"])
            if rng.chance(1, 2) and has_path(u):
                ops.append(op_tcompact(u))
            else:
                ops.append(op_srcpage(rng.choice(SRC_KEYS), rng.choice(SRC_CTX)))
        elif r < 12:
            ops.append(op_compact(rng.choice(NS_POOL + [HASH_SLASH[:-1]]) + rng.choice(LOCALS + ["q/r", "1"])))
        elif r < 15:
            ops.append(op_compact(rng.choice(ODD_URIS)))
        elif r < 19:
            ops.append(op_assert(rng.choice(NS_POOL + ["", "weird", "urn:x:"])))
        elif r < 24:
            ops.append(op_expand("ns%d:%s" % (rng.range(0, 9), rng.choice(LOCALS))))
        elif r < 26:
            ops.append(op_expand(rng.choice(["nocolon", ":x", "ns99:x", "ns1", "NS1:x"])))
        elif r < 29:
            ops.append(op_getprefix(rng.choice(NS_POOL + ["nope"])))
        elif r < 33:
            locs = dict(LOCAL_NS)
            if rng.chance(1, 3):
                del locs["_"]
            ops.append(op_nsid(rng.choice(["x:foo", "foo", "unknown:foo", ":foo", "x:a:b", "h:l", "http://a.example/x/e1", "_:u"]), locs))
        elif r < 39:
            ops.append(op_fetch())
            nfetch += 1
        elif r < 45:
            ops.append(op_read(rng.below(nfetch + 1) if rng.chance(1, 10) else rng.below(max(nfetch, 1))))
        elif r < 63:
            if rng.chance(1, 4):
                ops.append(op_batch(rng.choice(DSS), rand_ents(rng), rng.chance(2, 3), rng.below(3)))
                nctx = 0
            else:
                ops.append(op_batch(rng.choice(DSS), rand_ents(rng), rng.chance(1, 3)))
        elif r < 70:
            ops.append(op_ctxnew())
            nctx += 1
        elif r < 84:
            if nctx == 0:
                ops.append(op_ctxnew())
                nctx += 1
            elif rng.chance(1, 5):
                ops.append(op_ctxtxn(rng.below(nctx), rng.choice(DSS), rand_ents(rng), rng.below(3)))
                nctx = 0
            else:
                ops.append(op_ctxtxn(rng.below(nctx), rng.choice(DSS), rand_ents(rng)))
        elif r < 92:
            ops.append(op_restart(rng.chance(1, 2)))
            nctx = 0
        else:
            ops.append(op_dump())
    ops.append(op_dump())
    return mk(ops, pub)


def big_case(n):
    ents = [ent("ns7:big%d" % i) for i in range(n)]
    return mk([op_batch("a", ents), op_dump(), op_restart(True), op_batch("b", [ent("ns7:after")]), op_restart(False),
               op_batch("b", [ent("ns7:after2")]), op_dump()])


def conc_case(readers, asserters, iters):
    return {"dss": DSS, "ops": [], "conc": {"readers": readers, "asserters": asserters, "iters": iters}}


def burst_case(k, rounds, resolvers=0, grow=0):
    return {"dss": DSS, "ops": [], "conc": {"readers": 0, "asserters": 0, "iters": 0, "k": k, "rounds": rounds,
                                            "resolvers": resolvers, "grow": grow}}


def gen(rng, tier):
    out = []
    if tier == "quick":
        out.append(burst_case(8, 24, 6, 1500))
        out.append(burst_case(16, 12, 8, 800))
        for i in range(72):
            out.append(rand_case(rng, rng.range(8, 22), ["mix", "ns", "ids"][i % 3]))
        return out
    if tier == "search":
        for i in range(150):
            out.append(rand_case(rng, rng.range(6, 30), ["mix", "ns", "ids"][i % 3]))
        return out
    for i in range(240):
        out.append(rand_case(rng, rng.range(8, 40), ["mix", "ns", "ids", "ids"][i % 4]))
    out.append(big_case(1100))
    out.append(burst_case(8, 60, 6, 3000))
    out.append(burst_case(16, 30))
    out.append(burst_case(4, 60))
    out.append(conc_case(4, 4, 300))
    out.append(conc_case(2, 6, 200))
    return out


def run(binp, cases):
    return vlib.run_driver(binp, cases, died_obs={"outs": []}, timeout_per_case=150)


# ---------------------------------------------------------------------------------------------- canonicalisation

def nsnum(p):
    m = re.fullmatch(r"ns(\d+)", p)
    return (0, int(m.group(1)), "") if m else (1, 0, p)


# "crashed" = the write reached its hook point and the process died there: the model reports HOBatch OcOk for it
OUTCOME = {"ok": "OcOk", "empty": "OcErrEmpty", "discarded": "OcErrDiscarded", "panic": "OcPanic", "crashed": "OcOk"}
CONC = {"": 0, "survived": 1, "died-map": 2, "died-other": 3, "hang": 4, "inconsistent": 5, "died-map-burst": 6}


def ss(pairs):
    return vlib.coq_list(["(%s, %s)" % (s2l(a), s2l(b)) for a, b in pairs])


def out_term(o, op=None, c=None):
    k = o["k"]
    if k == "ctx" and op is not None and op["op"] == "page" and pub_exps(c, op["ds"]) is not None:
        # GetContext(publicNamespaces) is built by walking the declared expansions in order
        m = o.get("m") or []
        done, pairs = set(), []
        for e in pub_exps(c, op["ds"]):
            for pe in m:
                if pe[1] == e and pe[0] not in done:
                    done.add(pe[0])
                    pairs.append(pe)
        pairs += [pe for pe in m if pe[0] not in done]
        return "HONs (OCtx %s)" % ss(pairs)
    if k == "none":
        return "HONs ONone"
    if k == "str":
        return "HONs (OStr %s)" % s2l(o.get("s", ""))
    if k == "err":
        return "HONs OErr"
    if k == "ctx":
        return "HONs (OCtx %s)" % ss(sorted(o.get("m") or [], key=lambda pe: nsnum(pe[0])))
    if k == "unit":
        return "HOUnit"
    if k == "batch":
        oc = OUTCOME.get(o.get("oc"))
        if oc is None:
            return "HONs ONone"   # an error the model does not know: disagrees with every variant
        return "HOBatch %s %s" % (oc, vlib.coq_list(["%d" % i for i in (o.get("ids") or [])]))
    if k == "dump":
        p2e = sorted(o.get("p2e") or [], key=lambda pe: nsnum(pe[0]))
        e2p = sorted(o.get("e2p") or [], key=lambda ep: nsnum(ep[1]))
        u2i = sorted(o.get("u2i") or [], key=lambda x: x["i"])
        i2u = sorted(o.get("i2u") or [], key=lambda x: x["i"])
        stored = sorted(o.get("stored") or [], key=lambda x: x["i"])
        return "HODump %s %s %s %s %s" % (
            ss(p2e), ss(e2p), vlib.coq_list(["(%s, %d)" % (s2l(x["u"]), x["i"]) for x in u2i]),
            vlib.coq_list(["(%d, %s)" % (x["i"], s2l(x["u"])) for x in i2u]),
            vlib.coq_list(["(%s, %d)" % (s2l(x["u"]), x["i"]) for x in stored]))
    return "HONs ONone"


def ent_term(e):
    return "(%s, %s)" % (s2l(e["id"]), ("Some (%s, %s)" % (s2l(e["p"]), s2l(e["t"]))) if e["ref"] else "None")


def op_term(op, c=None):
    k = op["op"]
    if k == "assert":
        return "HNs (NAssert %s)" % s2l(op["s"])
    if k == "compact":
        return "HNs (NCompact %s)" % s2l(op["s"])
    if k == "nsid":
        return "HNs (NNsId %s %s)" % (s2l(op["s"]), ss(sorted((op.get("locals") or {}).items())))
    if k == "expand":
        return "HNs (NExpand %s)" % s2l(op["s"])
    if k == "getprefix":
        return "HNs (NGetPrefix %s)" % s2l(op["s"])
    if k == "tcompact":
        return "HNs (NCompact %s)" % s2l(op["s"])
    if k == "srcpage":
        return "HNs (NNsId %s %s)" % (s2l(op["s"]), ss(sorted((op.get("locals") or {}).items())))
    if k == "fetch":
        return "HNs NFetch"
    if k == "namespaces":
        return "HNs NCtxAll"
    if k == "jsonld":
        return "HNs NJsonLD"
    if k == "page":
        exps = pub_exps(c, op["ds"]) if c is not None else None
        return "HNs NCtxAll" if exps is None else "HNs (NDsCtx %s)" % vlib.coq_list([s2l(e) for e in exps])
    if k == "read":
        return "HNs (NRead %d)" % op["h"]
    if k == "batch" and op.get("crashpt") is not None:
        return "HCrashWrite %s None %s %s %d" % (vlib.coq_bool(op.get("txn", False)), s2l(op["ds"]),
                                                 vlib.coq_list([ent_term(e) for e in op["ents"]]), op["crashpt"])
    if k == "ctxtxn" and op.get("crashpt") is not None:
        return "HCrashWrite true (Some %d%%nat) %s %s %d" % (op["k"], s2l(op["ds"]), vlib.coq_list([ent_term(e) for e in op["ents"]]),
                                                        op["crashpt"])
    if k == "batch":
        return "HBatch %s %s %s" % (vlib.coq_bool(op.get("txn", False)), s2l(op["ds"]), vlib.coq_list([ent_term(e) for e in op["ents"]]))
    if k == "ctxnew":
        return "HCtxNew"
    if k == "ctxtxn":
        return "HCtxTxn %d %s %s" % (op["k"], s2l(op["ds"]), vlib.coq_list([ent_term(e) for e in op["ents"]]))
    if k == "restart":
        return "HRestart %s" % vlib.coq_bool(op.get("crash", False))
    if k == "dump":
        return "HDump"
    raise ValueError(k)


def term(c, o):
    # C13_agree_implies_spec assumes the op sequence ends with a dump (spec_ok judges against the last dump)
    assert c.get("conc") is not None or (c["ops"] and c["ops"][-1]["op"] == "dump"), "case does not end with a dump"
    outs = o.get("outs") or []
    if o.get("outcome") != "ok":
        outs = []
    return ("({| c_dss := %s; c_ops := %s; c_conc := %s; o_outs := %s; o_conc := %d |})%%N" % (
        vlib.coq_list([s2l(d) for d in c["dss"]] + [s2l(p["name"]) for p in (c.get("pub") or [])]),
        vlib.coq_list(["\n   " + op_term(op, c) for op in c["ops"]]),
        vlib.coq_bool(c.get("conc") is not None),
        vlib.coq_list(["\n   " + out_term(x, op, c) for x, op in zip(outs, c["ops"])]),
        CONC.get(o.get("conc", ""), 9)))


def predict_text(c, o):
    t = term(c, o)
    ok, out, _ = vlib.coq_eval("C13p", [CHECK_MODULE],
                               "Definition c : tcase := %s.\nEval vm_compute in (predict v_current c, predict v_fixed c).\n" % t)
    return out.strip()[:6000]


def attribute(c, o):
    """signature of the recorded findings"""
    outs = o.get("outs") or []
    if o.get("conc") == "died-map":
        return "F13a"
    fetched = []
    for op, x in zip(c["ops"], outs):
        if op["op"] == "fetch":
            fetched.append(x.get("m"))
        if op["op"] == "read" and op["h"] < len(fetched) and x.get("m") != fetched[op["h"]]:
            return "F13a"
    ocs = [x.get("oc") for x in outs if x.get("k") == "batch"]
    if "panic" in ocs:
        return "F13d"
    if "discarded" in ocs:
        return "F13b"
    # F13c: ids handed out by an acknowledged contextual-store transaction are not durable
    # (also when the process dies after the contextual store's entity commit: its id "commit" committed nothing);
    # deaths inside writes of the main store are never excused by it
    died_main = any(op.get("crashpt") is not None and op["op"] != "ctxtxn" for op in c["ops"])
    ctx_ok = any(op["op"] == "ctxtxn" and ((op.get("crashpt") is None and x.get("oc") == "ok")
                                           or (op.get("crashpt") is not None and op["crashpt"] >= 2 and x.get("oc") == "crashed"))
                 for op, x in zip(c["ops"], outs))
    if ctx_ok and not died_main:
        return "F13c"
    return None


def size(c):
    return len(c["ops"]) * 10 + sum(len(op.get("ents") or []) for op in c["ops"])


def classify(c, o):
    if c.get("conc"):
        return "concurrent"
    kinds = [op["op"] for op in c["ops"]]
    if "restart" in kinds or "ctxtxn" in kinds or any(op.get("crashpt") is not None for op in c["ops"]):
        return "history"
    if ("read" in kinds or "page" in kinds or "namespaces" in kinds) and ("compact" in kinds or "assert" in kinds or "jsonld" in kinds):
        return "snapshot"
    return None


def tags(c, o):
    t = []
    if c.get("conc"):
        return [("burst=" if c["conc"].get("rounds") else "concurrent=") + (o.get("conc") or "?")]
    kinds = [op["op"] for op in c["ops"]]
    for k in ("restart", "ctxtxn", "read", "batch", "compact", "nsid", "page", "jsonld", "namespaces", "tcompact", "srcpage"):
        if k in kinds:
            t.append("has-" + k)
    if any(op["op"] == "restart" and op.get("crash") for op in c["ops"]):
        t.append("has-crash")
    for op in c["ops"]:
        if op.get("crashpt") is not None:
            t.append("dies-at-hook=%s/%d" % ("ctxtxn" if op["op"] == "ctxtxn" else ("txn" if op.get("txn") else "batch"), op["crashpt"]))
    for x in (o.get("outs") or []):
        if x.get("k") == "batch":
            t.append("batch-outcome=" + str(x.get("oc")))
    t.append("driver=" + str(o.get("outcome")))
    return t
