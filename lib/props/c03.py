"""C03 - relationship queries equal the graph implied by the latest versions."""
import json

import storecases as sc
import vlib

ID = "C03"
PROP_FILE = "Properties/C03.v"
CHECK_MODULE = "Model.Store Model.Refs Model.Query Check.C03Check"
CASE_TYPE = "tcase"
EVAL_FN = "evaluate"
DRIVER_PKG = "cmd/verif_c03"
SHARD = 8

NOW = 1 << 62

# order = Check/C03Check.v [variants]
FLAGS = [(lk, dm, i1, sa, na) for lk in (True, False) for dm in ("stored_and_local", "local_else_stored")
         for i1 in (True, False) for sa in (True, False) for na in (True, False)]
VARIANTS = [{"name": "lenkeys=%s,dup=%s,inv1=%s,scope_all=%s,noadd=%s" % f,
             "findings": (["F03c"] if f[0] else []) + (["F03a"] if f[2] else []) + (["F03b"] if f[3] else []) + (["F03d"] if f[4] else [])}
            for f in FLAGS]
VARIANTS[0]["name"] = "current(" + VARIANTS[0]["name"] + ")"
VARIANTS[-1]["name"] = "fixed(" + VARIANTS[-1]["name"] + ")"

RULE = ("a case is a history over 2 datasets, 4 entity ids and 2 predicates: batches, two-dataset transactions and forced two-writer races "
        "(a batch or transaction waiting for the dataset lock while another batch commits) whose entities "
        "carry single and array references (several predicates between one pair, repeated targets), deleted flags, delete/un-delete "
        "inside a batch and across batches, the same entity in both datasets with different delete states, engineered equal-length "
        "un-deletes; interleaved with dumps of the raw reference keys and followed by relationship queries: start x {r1, r2, *} x "
        "{outgoing, incoming} x scope {none, a, b, a+b, unknown, a+unknown} x page limits {0,1,2} (continuations followed), "
        "multi-start queries, and queries pinned to earlier instants; non-trivial = the history removes or re-adds a reference, "
        "repeats an id inside a batch or stores an entity in both datasets; distinct = distinct history JSON")
TRUSTED = [
    "URI codes of the model are the internal ids the implementation assigned (dumped by the driver from the URI->id index); commit times "
    "are replaced by the rank of the write op; serialized lengths (c_len) are observed from Go",
    "badger is modelled as a set of decoded reference keys iterated in lexicographic order of their field lists (the driver decodes "
    "every raw outgoing and incoming key with the model's layout and the check compares the key SETS after writes)",
    "map-iteration nondeterminism of the pinned incoming scan (which spill-over result is picked) is modelled as a choice: the observed "
    "result must be one of the candidates",
]
ASSUMPTIONS = ["sequential histories (one client); no dataset deletion (C07), compaction (C12) or crash (C04) inside a history",
               "strictly increasing commit times (time.Now) across the write ops of a history"]

IDS = ["e1", "e2", "e3", "e4"]
PREDS = ["r1", "r2"]
DSN = ["a", "b"]
U = lambda x: sc.NS + x


# ------------------------------------------------------------------ canonicalisation / Coq terms
class IdCodes:
    """URI -> the internal id the store assigned (observed); URIs the store never saw get codes from 100000"""

    def __init__(self, obs):
        self.ids = {}
        ns = obs.get("ns") or {}
        for curie, i in (obs.get("ids") or {}).items():
            self.ids[sc.expand(curie, ns)] = i
        self.fake = {}
        self.val = {}

    def ucode(self, full):
        if full in self.ids:
            return self.ids[full]
        if full not in self.fake:
            self.fake[full] = 100000 + len(self.fake)
        return self.fake[full]

    def vcode(self, cv):
        k = json.dumps(cv, sort_keys=True)
        if k not in self.val:
            self.val[k] = len(self.val) + 1
        return self.val[k]


def ds_code(obs, name):
    return (obs.get("dsids") or {}).get(name, 99)


def write_ticks(case):
    """logical time after every write op, by op index; a race op is two writes (writer 2, then writer 1):
    (index, "pre") = the tick before it, (index, "mid") = between the two"""
    t = 0
    ticks = {}
    for i, op in enumerate(case["ops"]):
        if op["op"] in ("batch", "txn"):
            t += 1
            ticks[i] = t
        elif op["op"] == "race":
            ticks[(i, "pre")] = t
            ticks[(i, "mid")] = t + 1
            t += 2
            ticks[i] = t
    return ticks


def at_tick(ticks, at):
    if at.get("phase"):
        return ticks.get((at["after_op"], at["phase"]), 0)
    return ticks.get(at["after_op"], 0)


def time_ticks(case, obs):
    """raw commit time -> tick of the write.  The two commits of a race op get their ticks in the order of their
    TIMES (the model's histories have commit order = time order; an implementation that commits later with an older
    timestamp then shows up as a difference in the keys and in every query)"""
    ticks = write_ticks(case)
    m = {}
    seen = 0
    for i, op in enumerate(case["ops"]):
        if i >= len(obs.get("ops", [])):
            continue
        oo = obs["ops"][i]
        if op["op"] in ("batch", "txn"):
            t = oo.get("time", 0)
            if t > seen:
                m[t] = ticks[i]
                seen = t
        elif op["op"] == "race":
            t2, t1 = oo.get("time2", 0), oo.get("time1", 0)
            if t2 and t1:
                lo, hi = sorted([t1, t2])
                m.setdefault(lo, ticks[i] - 1)
                m.setdefault(hi, ticks[i])
            elif t2:
                m.setdefault(t2, ticks[i] - 1)
            elif t1:
                m.setdefault(t1, ticks[i])
            seen = max(seen, t1, t2)
    return m


def key_term(k, tmap, user_ds):
    src, t, p, tg, d, ds = k
    return "{| r_src := %d; r_time := %s; r_pred := %d; r_tgt := %d; r_del := %s; r_ds := %d |}" % (
        src, vlib.zlit(tmap.get(t, -1)), p, tg, vlib.coq_bool(d == 1), ds)


BAD_PAGES = "(Some [[((-9), (-9), (-9))]])"


def term(c, o):
    _SEEN[json.dumps(c, sort_keys=True)] = (c, o)
    return _term(c, o)


def _term(c, o):
    codes = IdCodes(o)
    ns = o.get("ns") or {}
    ticks = write_ticks(c)
    tmap = time_ticks(c, o)
    user_ds = set((o.get("dsids") or {}).values())
    dss = vlib.coq_list([str(ds_code(o, d)) for d in c["datasets"] + c.get("proxies", []) if d in (o.get("dsids") or {})])
    terms = []
    dead = o.get("outcome") != "ok"
    for i, op in enumerate(c["ops"]):
        oo = o["ops"][i] if i < len(o.get("ops", [])) else {}
        bad = dead or bool(oo.get("err") or oo.get("panic"))
        k = op["op"]
        if k == "batch":
            lens = oo.get("lens") or [0] * len(op["ents"])
            ents = vlib.coq_list([sc.ent_term(codes, e, l) for e, l in zip(op["ents"], lens)])
            terms.append("QWrite (WBatch %d %s)" % (ds_code(o, op["ds"]), ents))
            if bad:
                terms.append("QRelated [] 0 false [] 0 [] %s" % BAD_PAGES)
        elif k == "txn":
            lens = list(oo.get("lens") or [])
            sets = []
            for s in op["sets"]:
                ls = lens[:len(s["ents"])] + [0] * (len(s["ents"]) - len(lens[:len(s["ents"])]))
                lens = lens[len(s["ents"]):]
                sets.append("(%d, %s)" % (ds_code(o, s["ds"]), vlib.coq_list([sc.ent_term(codes, e, l) for e, l in zip(s["ents"], ls)])))
            terms.append("QWrite (WTxn %s)" % vlib.coq_list(sets))
            if bad:
                terms.append("QRelated [] 0 false [] 0 [] %s" % BAD_PAGES)
        elif k == "race":
            lens = list(oo.get("lens") or [0] * (len(op["ents"]) + len(op["second"])))
            l1, l2 = lens[:len(op["ents"])], lens[len(op["ents"]):]
            dsc = ds_code(o, op["ds"])
            # sequential outcome: writer 2 (a batch), then writer 1
            terms.append("QWrite (WBatch %d %s)" % (dsc, vlib.coq_list([sc.ent_term(codes, e, l) for e, l in zip(op["second"], l2)])))
            first = vlib.coq_list([sc.ent_term(codes, e, l) for e, l in zip(op["ents"], l1)])
            terms.append(("QWrite (WTxn [(%d, %s)])" if op.get("first_txn") else "QWrite (WBatch %d %s)") % (dsc, first))
            if bad:
                terms.append("QRelated [] 0 false [] 0 [] %s" % BAD_PAGES)
        elif k == "delete_ds":
            terms.append("QHide %d" % ds_code(o, op["ds"]))
            if bad:
                terms.append("QRelated [] 0 false [] 0 [] %s" % BAD_PAGES)
        elif k in ("httpcont", "jscont", "relcont"):
            pass                                    # its pages belong to the httpq / jsq / relq op of the same id
        elif k == "refkeys":
            ok = [x for x in (oo.get("outkeys") or []) if x[5] in user_ds]
            ik = [x for x in (oo.get("inkeys") or []) if x[5] in user_ds]
            if bad or sorted(ok) != sorted(ik):
                # the two families must hold the same records; if not, no variant can match
                terms.append("QKeys [{| r_src := -1; r_time := -1; r_pred := -1; r_tgt := -1; r_del := false; r_ds := -1 |}]")
            else:
                terms.append("QKeys %s" % vlib.coq_list([key_term(x, tmap, user_ds) for x in ok]))
        elif k in ("related", "jsquery", "httpq", "jsq", "httpat", "relq"):
            split = None
            oo = dict(oo)
            if k == "jsquery":
                op = dict(op, limits=[op.get("limit", 0)])
                if not oo.get("rpages"):
                    oo["rpages"] = [[]]             # PagedQuery does not call back for an empty page
            if k == "httpat":
                op = dict(op, limits=[op.get("limit", 0)])      # POST /query {continuations built by the driver, pinned to op.at}
            if k in ("httpq", "jsq", "relq"):
                # POST /query resp. a transform's PagedQuery, continued through its continuation tokens by the httpcont / jscont
                # op of the same id (possibly later)
                op = dict(op, limits=[op.get("limit", 0)])
                more = [j for j in range(i + 1, len(c["ops"])) if c["ops"][j]["op"] in ("httpcont", "jscont", "relcont") and c["ops"][j]["id"] == op["id"]]
                dels = [c["ops"][j]["ds"] for j in range(i + 1, more[0] if more else i + 1) if c["ops"][j]["op"] == "delete_ds"]
                if dels:
                    # a dataset is deleted between the first page(s) and the continuation: (pages before, dataset)
                    split = (len(oo.get("rpages") or []), ds_code(o, dels[0]))
                mo = o["ops"][more[0]] if more and more[0] < len(o.get("ops", [])) else {"err": "no continuation op"}
                if (mo.get("err") or mo.get("panic")) and not bad:
                    bad = True
                oo["rpages"] = list(oo.get("rpages") or []) + list(mo.get("rpages") or [])
                if k == "jsq" and not oo["rpages"]:
                    oo["rpages"] = [[]]
            at = NOW
            if op.get("at"):
                at = at_tick(ticks, op["at"])
            pred = 0 if op["pred"] == "*" else codes.ucode(sc.expand(op["pred"]))
            starts = vlib.coq_list([str(codes.ucode(sc.expand(s))) for s in op["starts"]])
            req = vlib.coq_list([str(ds_code(o, d)) for d in op.get("datasets", [])])
            lims = vlib.coq_list([vlib.zlit(x) for x in op.get("limits", [])])
            if bad and "could not load predicate id" in (oo.get("err") or ""):
                pages = "None"
            elif bad:
                pages = BAD_PAGES
            else:
                pages = "(Some %s)" % vlib.coq_list([vlib.coq_list(["(%d, %d, %d)" % (
                    codes.ucode(sc.expand(r["start"], ns)), codes.ucode(sc.expand(r["pred"], ns)), codes.ucode(sc.expand(r["id"], ns)))
                    for r in pg]) for pg in (oo.get("rpages") or [])])
            if split:
                terms.append("QSplit %s %d %s %s %s %d %d %s" % (starts, pred, vlib.coq_bool(op.get("inverse", False)), req, lims, split[0], split[1], pages))
            else:
                terms.append("QRelated %s %d %s %s %d %s %s" % (starts, pred, vlib.coq_bool(op.get("inverse", False)), req, at, lims, pages))
        else:
            raise ValueError("op kind not handled: " + k)
    return "{| tc_ds := %s; tc_ops := %s |}" % (dss, vlib.coq_list(["\n  " + t for t in terms]))


# ------------------------------------------------------------------ cases
def ent(i, refs=None, deleted=False, props=None):
    e = {"id": i, "props": props if props is not None else {}, "refs": refs or {}}
    if deleted:
        e["deleted"] = True
    return e


def q(starts, pred="*", inverse=False, datasets=None, limits=(0,), at=None, exact=False, phase=None):
    op = {"op": "related", "starts": [U(s) for s in starts], "pred": pred if pred == "*" else U(pred), "inverse": inverse,
          "limits": list(limits)}
    if datasets:
        op["datasets"] = list(datasets)
    if at is not None:
        op["at"] = {"after_op": at, "exact": bool(exact)}
        if phase:
            op["at"]["phase"] = phase
    return op


def B(ds, *ents):
    return {"op": "batch", "ds": ds, "ents": list(ents)}


def ha(starts, pred="*", inverse=False, datasets=None, limit=1, at=None, exact=True, phase=None):
    """POST /query from the first page on, with continuation tokens the driver pins to the given instant"""
    op = q(starts, pred, inverse, datasets, (limit,), at, exact, phase)
    op.pop("limits")
    op.update(op="httpat", limit=limit)
    return op


def js(sid, start, pred="*", datasets=None, limit=1):
    """a transform's PagedQuery interrupted after the first page and continued with the tokens added to the same parameter object
    (outgoing, one start point: the page structure is then determined, see jq)"""
    op = {"op": "jsq", "id": sid, "starts": [U(start)], "pred": pred if pred == "*" else U(pred), "inverse": False, "limit": limit}
    if datasets:
        op["datasets"] = list(datasets)
    return [op, {"op": "jscont", "id": sid}]


def R(ds, first, second, txn=True):
    """forced schedule: writer 1 (a transaction if txn) waits for the dataset lock while writer 2 commits; outcome = second, then first"""
    op = {"op": "race", "ds": ds, "ents": list(first), "second": list(second)}
    if txn:
        op["first_txn"] = True
    return op


KEYS = {"op": "refkeys"}


def DEL(ds):
    return {"op": "delete_ds", "ds": ds}


def jq(starts, pred="*", inverse=False, datasets=None, limit=0):
    """the query run from inside a job's javascript transform: Query (limit 0) or PagedQuery(limit).
    PagedQuery does not call back for an empty page, and the pinned incoming scan can end with one: paged only outgoing, one start."""
    if inverse or len(starts) > 1:
        limit = 0
    op = {"op": "jsquery", "starts": [U(s) for s in starts], "pred": pred if pred == "*" else U(pred), "inverse": inverse, "limit": limit}
    if datasets:
        op["datasets"] = list(datasets)
    return op


def hq(sid, starts, pred="*", inverse=False, datasets=None, limit=1, resend=False):
    """POST /query with a page limit, then all continuation requests: two ops sharing the session id.
    resend: every continuation request is the original query document with the tokens added"""
    op = {"op": "httpq", "id": sid, "starts": [U(s) for s in starts], "pred": pred if pred == "*" else U(pred), "inverse": inverse, "limit": limit}
    if datasets:
        op["datasets"] = list(datasets)
    cont = {"op": "httpcont", "id": sid, "limit": limit}
    if resend:
        cont["resend"] = True
    return [op, cont]


def rq(sid, starts, pred="*", inverse=False, datasets=None, limit=1):
    """the same split in two through the store API: first page, then the kept continuation list to the end"""
    op = {"op": "relq", "id": sid, "starts": [U(s) for s in starts], "pred": pred if pred == "*" else U(pred), "inverse": inverse, "limit": limit}
    if datasets:
        op["datasets"] = list(datasets)
    return [op, {"op": "relcont", "id": sid, "limit": limit}]


def around(ops_between, *sessions):
    """first ops of the sessions, then ops_between, then their continuation ops"""
    return [s[0] for s in sessions] + list(ops_between) + [s[1] for s in sessions]


def big_fanout_case():
    """one entity with 150 outgoing references (and 150 entities referring to one target): page limits far above the
    fan-out, above 1000, exactly 1000 and small - the union of the pages must always be all 150"""
    tg = ["t%d" % k for k in range(1, 151)]
    ops = [B("a", ent("e1", {"r1": tg[:120], "r2": tg[100:]})), B("b", ent("e2", {"r1": tg[:5]}))]
    for lim in (5000, 1001, 1000, 101, 100, 40):
        ops += hq("f%d" % lim, ["e1", "e2"], limit=lim, resend=(lim == 1001))
    ops += hq("g1", ["e1"], "r1", limit=2000) + hq("g2", ["t101", "t3"], inverse=True, limit=1500)
    ops += [q(["e1"], limits=[5000]), q(["e1", "e2"], limits=[64]), ha(["e1"], limit=3000, at=0), jq(["e1"])]
    return {"datasets": DSN, "ops": ops}


def witness_cases():
    return [dict(c, proxies=PROXIES) for c in _witness_cases() + [big_fanout_case()]]


def _witness_cases():
    both = {"r1": "e2", "r2": "e2"}
    return [
        # F03a: two predicates between one pair, one removed: keep r1 -> incoming 0 results, keep r2 -> 2
        {"datasets": DSN, "ops": [B("a", ent("e1", both)), B("a", ent("e1", {"r1": "e2"})), KEYS,
                                  q(["e2"], inverse=True), q(["e1"]), q(["e2"], "r1", True), q(["e2"], "r2", True)]},
        {"datasets": DSN, "ops": [B("a", ent("e1", both)), B("a", ent("e1", {"r2": "e2"})), KEYS,
                                  q(["e2"], inverse=True), q(["e1"]), q(["e2"], "r1", True), q(["e2"], "r2", True)]},
        # F03b: scope naming only unknown datasets = unrestricted
        {"datasets": DSN, "ops": [B("a", ent("e1", {"r1": "e2"})), q(["e1"], datasets=["zz"]), q(["e1"], datasets=["b"]),
                                  q(["e2"], inverse=True, datasets=["zz"]), q(["e1"], datasets=["a", "zz"])]},
        # F03c: in-batch un-delete with equal serialized length keeps the tombstone keys
        {"datasets": DSN, "ops": [B("a", ent("e1", {"r1": "e2"}, True, {"p1": "b"}), ent("e1", {"r1": "e2"}, False, {"p1": "b", "p4": "uvw"})),
                                  KEYS, q(["e1"]), q(["e2"], inverse=True)]},
        # F03d: the same relation live in two datasets + a page boundary between its two keys
        {"datasets": DSN, "ops": [B("a", ent("e1", {"r1": ["e4", "e2"]})), B("b", ent("e1", {"r1": "e2"})), KEYS,
                                  q(["e1"], limits=[1]), q(["e1"], limits=[2]), q(["e1"])]},
        # F03a, multi-dataset shape (lead from the C07 work): tombstones of one relation interleaved across two datasets;
        # the mid-loop spill-over branch keeps a stale entry: the relation is dead in both datasets and still returned
        {"datasets": DSN, "ops": [B("a", ent("e1", {"r2": "e4"})), B("b", ent("e1", {"r2": "e4"})), B("a", ent("e1", {}, True)),
                                  B("b", ent("e1", {})), B("a", ent("e2", {"r1": "e4"})), KEYS,
                                  q(["e4"], inverse=True), q(["e1"]), q(["e4"], inverse=True, limits=[1])]},
        # job entry point (contextual store) after a dataset delete without gc; HTTP paging with several continuation tokens
        {"datasets": DSN, "ops": [B("a", ent("e1", {"r1": "e2"})), B("b", ent("e1", {"r1": "e3"}), ent("e4", {"r1": "e2"})), KEYS,
                                  jq(["e1"]), jq(["e2"], inverse=True, limit=1)]
                                 + hq("h1", ["e1", "e4", "e2"], limit=1) + hq("h2", ["e2", "e3"], inverse=True, limit=1)
                                 + [DEL("b"), q(["e1"]), jq(["e1"]), jq(["e2"], inverse=True), jq(["e1"], datasets=["b"]), jq(["e1"], limit=1),
                                    jq(["e2", "e3"], inverse=True), q(["e2"], inverse=True, datasets=["a", "b"])]
                                 + hq("h3", ["e1", "e4", "e2"], limit=1)},
        # a scope naming a proxy dataset; HTTP continuation tokens pinned exactly at commit times; a transform continuing its PagedQuery
        {"datasets": DSN, "ops": [B("a", ent("e1", {"r1": ["e2", "e3"]})), B("b", ent("e1", {"r2": "e2"})), B("a", ent("e1", {"r1": "e4"})),
                                  B("a", ent("e1", {"r1": ["e4", "e3"]})), B("a", ent("e1", {"r1": "e2"})), B("a", ent("e1", {})),
                                  q(["e1"], datasets=["px"]), q(["e2"], inverse=True, datasets=["px"]), q(["e1"], datasets=["px", "b"]),
                                  q(["e1"], datasets=["px"], limits=[1]), jq(["e1"], datasets=["px"])]
                                 + [ha(["e1"], limit=1, at=i) for i in range(6)] + [ha(["e3"], inverse=True, limit=2, at=i) for i in (0, 3, 4)]
                                 + [ha(["e1", "e2"], datasets=["px"], limit=1)]
                                 + js("j1", "e1", limit=1)},
        # continuation tokens carry internal dataset ids: a dataset deleted between two pages is hidden from the later pages;
        # a client that pages by re-sending its original query document with the tokens added
        {"datasets": DSN, "ops": [B("a", ent("e1", {"r1": ["e2", "e3"]}), ent("e4", {"r1": "e2"})), B("b", ent("e1", {"r2": ["e3", "e4"]}), ent("e4", {"r2": "e2"}))]
                                 + hq("h1", ["e1", "e4"], limit=1, resend=True) + hq("h2", ["e2", "e3"], inverse=True, datasets=["a", "b"], limit=2, resend=True)
                                 + around([DEL("b")], hq("h3", ["e1", "e4"], datasets=["a", "b"], limit=1), rq("s3", ["e1", "e4"], datasets=["a", "b"], limit=1),
                                          hq("h4", ["e2", "e3", "e4"], inverse=True, datasets=["b", "a", "px"], limit=1, resend=True),
                                          rq("s4", ["e1"], datasets=["b"], limit=1), rq("s5", ["e1", "e4"], limit=2))
                                 + [q(["e1"], datasets=["a", "b"])]},
        # a transaction queued behind a batch of the same dataset: commit order must be time order (second, then first)
        {"datasets": DSN, "ops": [B("a", ent("e1", {"r1": "e2"})), R("a", [ent("e1", {"r1": "e4"})], [ent("e1", {"r1": "e3"})]), KEYS,
                                  q(["e1"]), q(["e3"], inverse=True), q(["e4"], inverse=True), q(["e1"], at=1, phase="pre"),
                                  q(["e1"], at=1, phase="mid"), q(["e3"], inverse=True, at=1, phase="mid"),
                                  R("a", [ent("e1", {}, True)], [ent("e1", {"r2": ["e2", "e3"]})], txn=False), KEYS,
                                  q(["e1"]), q(["e2"], inverse=True), q(["e1"], at=9, phase="mid")]},
        # delete / un-delete inside a batch and across batches, several datasets with different delete states
        {"datasets": DSN, "ops": [B("a", ent("e1", {"r1": "e2"}), ent("e1", {"r1": "e2"}, True), ent("e1", {"r1": ["e2", "e3"]})),
                                  B("b", ent("e1", {"r1": "e2"}, True)), B("b", ent("e1", {"r2": "e3"})), B("a", ent("e1", {}, True)), KEYS,
                                  q(["e1"]), q(["e2"], inverse=True), q(["e3"], inverse=True), q(["e3"], inverse=True, at=1),
                                  q(["e1", "e2", "e3"], limits=[1]), q(["e2", "e3"], inverse=True, limits=[1])]},
    ]


def corpus_cases():
    return []


def gen_refs(rng):
    refs = {}
    for p in PREDS:
        r = rng.below(10)
        if r < 4:
            continue
        if r < 7:
            refs[p] = rng.choice(IDS[1:])
        else:
            refs[p] = [rng.choice(IDS[1:]) for _ in range(rng.range(1, 3))]
    return refs


def gen_ent(rng, i, memo_key, memo):
    prev = memo.get(memo_key)
    r = rng.below(12)
    if prev is not None and r < 2:
        e = json.loads(json.dumps(prev))                       # identical re-post
    elif prev is not None and r < 5:
        e = json.loads(json.dumps(prev))                       # toggle deleted, keep the references
        if e.get("deleted"):
            e.pop("deleted")
        else:
            e["deleted"] = True
    elif prev is not None and r < 6 and prev.get("deleted") and "p4" not in prev["props"]:
        e = json.loads(json.dumps(prev))                       # engineered: un-delete with a 15-byte property (equal length)
        e.pop("deleted")
        e["props"]["p4"] = "uvw"
    elif prev is not None and r < 8 and prev["refs"]:
        e = json.loads(json.dumps(prev))                       # drop or change one predicate, keep the other
        p = rng.choice(sorted(e["refs"]))
        if rng.chance(1, 2):
            e["refs"].pop(p)
        else:
            e["refs"][p] = rng.choice(IDS[1:])
    else:
        e = ent(i, gen_refs(rng), rng.chance(1, 5), {"p1": rng.choice(["a", "b"])} if rng.chance(1, 2) else {})
    e["id"] = i
    memo[memo_key] = e
    return e


def gen_history(rng, nw):
    ops = []
    memo = {}
    posted = set()
    for _ in range(nw):
        if rng.chance(1, 6):
            sets = []
            for d in DSN:
                ents = []
                for _ in range(rng.choice([1, 1, 2])):
                    i = rng.choice(IDS[:3])
                    e = gen_ent(rng, i, (d, i), memo)
                    # map order of the datasets of a transaction is random in Go: keep [isnew] out of it
                    if e.get("deleted") and e["refs"] and i not in posted:
                        e = json.loads(json.dumps(e))
                        e.pop("deleted")
                        memo[(d, i)] = e
                    ents.append(e)
                sets.append({"ds": d, "ents": ents})
            ops.append({"op": "txn", "sets": sets})
            for s in sets:
                posted.update(e["id"] for e in s["ents"])
            continue
        if rng.chance(1, 6):
            # two writers racing for one dataset, both (usually) touching the same entity with different references
            d = rng.choice(DSN)
            i = rng.choice(IDS[:3])
            second = [gen_ent(rng, i, (d, i), memo)]
            first = [gen_ent(rng, i if rng.chance(3, 4) else rng.choice(IDS[:3]), None, {})]
            first[0] = ent(first[0]["id"], gen_refs(rng) or {"r1": rng.choice(IDS[1:])}, rng.chance(1, 6), first[0]["props"])
            memo[(d, first[0]["id"])] = first[0]
            if rng.chance(1, 3):
                j = rng.choice(IDS[:3])
                second.append(gen_ent(rng, j, (d, j), memo) if j != first[0]["id"] else ent(j, gen_refs(rng)))
                if j == first[0]["id"]:
                    memo[(d, j)] = first[0]
            ops.append(R(d, first, second, txn=rng.chance(2, 3)))
            posted.update(e["id"] for e in first + second)
            continue
        d = rng.choice(DSN)
        ents = []
        for _ in range(rng.choice([1, 1, 2, 2, 3])):
            i = rng.choice(IDS[:3])
            if ents and rng.chance(1, 3):
                i = ents[-1]["id"]                              # repeat an id inside the batch
            ents.append(gen_ent(rng, i, (d, i), memo))
        ops.append(B(d, *ents))
        posted.update(e["id"] for e in ents)
    return ops


PROXIES = ["px"]        # a proxy dataset: exists, can be named in a scope, has no local data
SCOPES = [None, ["a"], ["b"], ["a", "b"], ["zz"], ["a", "zz"], ["px"], ["px", "b"]]


def all_queries(nw):
    qs = []
    for s in IDS:
        for p in ["*"] + PREDS:
            for inv in (False, True):
                for scp in SCOPES:
                    for lim in (0, 1, 2):
                        qs.append(q([s], p, inv, scp, [lim]))
    return qs


def gen_case(rng, nw, nq, full=False):
    writes = gen_history(rng, nw)
    ops = []
    for i, w in enumerate(writes):
        ops.append(w)
        if rng.chance(1, 3):
            ops.append(KEYS)
    ops.append(KEYS)
    allq = all_queries(nw)
    if full:
        qs = allq
    else:
        qs = [rng.choice(allq) for _ in range(nq)]
    # multi-start queries (limit accounting) and queries pinned to earlier instants
    widx = [i for i, op in enumerate(ops) if op["op"] in ("batch", "txn", "race")]
    for i in widx:
        if ops[i]["op"] == "race":      # instants taken while the first writer waits for the lock
            for ph in ("pre", "mid"):
                qs.append(q([rng.choice(IDS)], rng.choice(["*"] + PREDS), rng.chance(1, 2), rng.choice(SCOPES[:4]),
                            [rng.choice([0, 1, 2])], at=i, phase=ph))
    for _ in range(max(2, nq // 6)):
        starts = list(IDS)
        rng.shuffle(starts)
        qs.append(q(starts[:rng.range(2, 4)], rng.choice(["*"] + PREDS), rng.chance(1, 2), rng.choice(SCOPES),
                    [rng.choice([1, 2, 3])] if rng.chance(3, 4) else [1, 2]))
        qs.append(q([rng.choice(IDS)], rng.choice(["*"] + PREDS), rng.chance(1, 2), rng.choice(SCOPES[:4]),
                    [rng.choice([0, 1, 2])], at=rng.choice(widx), exact=rng.chance(1, 2)))
    # predicates that are certainly asserted (JS Query / PagedQuery swallow the "unknown predicate" refusal)
    jpreds = ["*"] + sorted(set(p for w in writes for _, es in _sets(w) for e in es if not e.get("deleted") for p in e["refs"]))
    # the other entry points: POST /query with continuation tokens (several start points), queries from inside a job transform
    for n in range(2):
        starts = list(IDS)
        rng.shuffle(starts)
        qs.extend(hq("h%d" % n, starts[:rng.range(2, 4)], rng.choice(["*"] + PREDS), rng.chance(1, 2), rng.choice(SCOPES), rng.choice([1, 1, 2]),
                     resend=rng.chance(1, 2)))
    qs.append(jq([rng.choice(IDS)], rng.choice(jpreds), rng.chance(1, 2), rng.choice(SCOPES), rng.choice([0, 1, 2])))
    qs.extend(js("j0", rng.choice(IDS), rng.choice(jpreds), rng.choice(SCOPES), rng.choice([1, 1, 2])))
    # HTTP continuation tokens pinned EXACTLY at commit times (19-digit nanosecond instants must survive the token codec)
    for _ in range(4):
        qs.append(ha([rng.choice(IDS)], rng.choice(["*"] + PREDS), rng.chance(1, 2), rng.choice(SCOPES[:4] + SCOPES[6:]),
                     rng.choice([1, 2, 3]), at=rng.choice(widx), exact=True))
    if rng.chance(1, 2):
        # delete one dataset (no garbage collection) and ask again, directly and through the job entry point
        d = rng.choice(DSN)
        # paged queries whose first page precedes the delete and whose continuation follows it (the tokens carry dataset ids)
        sess = []
        for n, mk in enumerate([hq, rq, rq]):
            starts = list(IDS)
            rng.shuffle(starts)
            sess.append(mk("d%d" % n, starts[:rng.range(1, 3)], rng.choice(jpreds), rng.chance(1, 2),
                           rng.choice([["a", "b"], ["a", "b"], ["b", "a", "px"], None, [d]]), rng.choice([1, 1, 2])))
        qs.extend(around([DEL(d)], *sess))
        for _ in range(4):
            s_ = rng.choice(IDS)
            p_, inv_, sc_ = rng.choice(jpreds), rng.chance(1, 2), rng.choice(SCOPES)
            qs.append(jq([s_], p_, inv_, sc_, rng.choice([0, 0, 1])))
            qs.append(q([s_], p_, inv_, sc_, [rng.choice([0, 1])]))
        starts = list(IDS)
        rng.shuffle(starts)
        qs.append(jq(starts[:2], "*", rng.chance(1, 2), None, 0))
    return {"datasets": DSN, "proxies": PROXIES, "ops": ops + qs}


def gen(rng, tier):
    if tier == "quick":
        return [gen_case(rng, rng.range(2, 7), 40) for _ in range(120)]
    if tier == "search":
        return [gen_case(rng, rng.range(2, 8), 40) for _ in range(150)]
    cases = [gen_case(rng, rng.range(2, 6), 0, full=True) for _ in range(60)]
    return cases + [gen_case(rng, rng.range(2, 10), 60) for _ in range(1200)]


def run(binp, cases):
    return vlib.run_driver(binp, cases, died_obs={"ops": [], "ns": {}, "ids": {}, "dsids": {}})


def predict_text(c, o):
    t = term(c, o)
    body = "Definition c : tcase := %s.\n" % t
    body += ("Eval vm_compute in (first_bad v_current (tc_ds c) rstore0 (tc_ops c) 0%N, first_bad v_fixed (tc_ds c) rstore0 (tc_ops c) 0%N, "
             "spec_ok c).\nEval vm_compute in predict v_current (tc_ds c) rstore0 (tc_ops c).\n")
    ok, out, _ = vlib.coq_eval("C03p", CHECK_MODULE.split(), body)
    return ("index (among non-write ops... counted over all ops) of the first op the model does not predict [current, fixed]; spec_ok; "
            "then the pinned model's pages per query:\n" + out.strip())


def _hist(c):
    return [op for op in c["ops"] if op["op"] in ("batch", "txn", "race")]


def _sets(op):
    """(dataset, entities) groups of a write op"""
    if op["op"] == "batch":
        return [(op["ds"], op["ents"])]
    if op["op"] == "race":
        return [(op["ds"], op["second"]), (op["ds"], op["ents"])]
    return [(s["ds"], s["ents"]) for s in op["sets"]]


_SEEN = {}      # case JSON -> (case, obs), filled by term()
_UNEXPLAINED = None


def _explain_all():
    """one Coq run over every case seen so far: which cases have a query whose observation violates the spec
    AND is not what the pinned model (all known deviations) predicts"""
    global _UNEXPLAINED
    keys = list(_SEEN)
    terms = [_term(*_SEEN[k]) for k in keys]
    ev = vlib.coq_evaluate_cases(ID + "x", CHECK_MODULE, CASE_TYPE, terms, fn="unexplained_all", shard=SHARD)
    bad = set(ev[0])
    _UNEXPLAINED = {k: (i in bad) for i, k in enumerate(keys)}


def attribute(c, o):
    """a known finding id iff every spec failure of this case is exactly what the pinned model predicts, else None"""
    k = json.dumps(c, sort_keys=True)
    if _UNEXPLAINED is None or k not in _UNEXPLAINED:
        _SEEN.setdefault(k, (c, o))
        _explain_all()
    if _UNEXPLAINED.get(k, True):
        return None
    for op in c["ops"]:
        if op["op"] == "related" and any(d not in c["datasets"] + c.get("proxies", []) for d in op.get("datasets", [])):
            return "F03b"
    return "F03a"


def _still_unexplained(binp, case):
    o = run(binp, [case])[0]
    ev = vlib.coq_evaluate_cases(ID + "s", CHECK_MODULE, CASE_TYPE, [_term(case, o)], fn="unexplained_all", shard=SHARD)
    return bool(ev[0]), o


def shrink(binp, c, o):
    """smallest sub-case that is still an unexplained spec failure: one query at a time, then drop trailing writes"""
    try:
        QK = ("related", "jsquery", "httpq", "httpcont", "jsq", "jscont", "httpat", "relq", "relcont")
        writes = [op for op in c["ops"] if op["op"] not in QK]
        for qop in [op for op in c["ops"] if op["op"] in QK and op["op"] not in ("httpcont", "jscont", "relcont")]:
            if qop.get("at"):
                continue        # op indices of 'at' refer to the original case
            conts = [op for op in c["ops"] if op["op"] in ("httpcont", "jscont", "relcont") and qop["op"] in ("httpq", "jsq", "relq") and op["id"] == qop["id"]]
            # a query stays behind the dataset deletes that preceded it; deletes between its first page and its continuation stay between
            before = c["ops"].index(qop)
            after = c["ops"].index(conts[0]) if conts else before
            keep = [op for op in writes if op["op"] != "delete_ds" or c["ops"].index(op) < before]
            mid = [op for op in writes if op["op"] == "delete_ds" and before < c["ops"].index(op) < after]
            qops = [qop] + mid + conts
            cand = {"datasets": c["datasets"], "proxies": c.get("proxies", []), "ops": keep + qops}
            bad, o2 = _still_unexplained(binp, cand)
            if bad:
                cand2 = {"datasets": c["datasets"], "proxies": c.get("proxies", []), "ops": [op for op in keep if op["op"] != "refkeys"] + qops}
                bad2, o3 = _still_unexplained(binp, cand2)
                return (cand2, o3) if bad2 else (cand, o2)
    except Exception:
        pass
    return c, o


def size(c):
    return len(json.dumps(c))


def classify(c, o):
    dsets = set()
    for op in _hist(c):
        for d, es in _sets(op):
            ids = [e["id"] for e in es]
            if len(ids) != len(set(ids)):
                return "in-batch-repeat"
            dsets.add(d)
            if any(e.get("deleted") for e in es):
                return "delete"
        if op["op"] == "race":
            return "race"
    if len(dsets) > 1:
        return "multi-dataset"
    return None


def tags(c, o):
    t = ["writes=%d" % len(_hist(c))]
    nq = [op for op in c["ops"] if op["op"] in ("related", "jsquery", "httpq", "jsq", "httpat", "relq")]
    if any(op.get("resend") for op in c["ops"]):
        t.append("http-resend-original-document")
    if any(op["op"] == "relq" for op in c["ops"]):
        t.append("continuation-across-dataset-delete")
    if any(op["op"] == "httpat" for op in c["ops"]):
        t.append("http-tokens-at-commit-times")
    if any(op["op"] == "jsq" for op in c["ops"]):
        t.append("job-pagedquery-continued")
    if any("px" in (op.get("datasets") or []) for op in c["ops"]):
        t.append("proxy-scope")
    if any(op["op"] == "delete_ds" for op in c["ops"]):
        t.append("has-dataset-delete")
    if any(op["op"] == "jsquery" for op in c["ops"]):
        t.append("job-entry-point")
    if any(op["op"] == "httpq" for op in c["ops"]):
        t.append("http-paging")
    t.append("queries=%d" % (len(nq) // 10 * 10))
    if any(op["op"] == "txn" for op in c["ops"]):
        t.append("has-txn")
    if any(op["op"] == "race" for op in c["ops"]):
        t.append("has-race")
    if any(op.get("inverse") for op in nq):
        t.append("has-incoming")
    if any(op.get("at") for op in nq):
        t.append("has-at")
    if any(len(op["starts"]) > 1 for op in nq):
        t.append("multi-start")
    t.append("outcome=" + o.get("outcome", "?"))
    return t
