"""C04 - batches and transactions are all-or-nothing and durable across a crash."""
import itertools
import json
import os
import shutil
import subprocess
from concurrent.futures import ThreadPoolExecutor

import storecases as sc
import vlib

ID = "C04"
PROP_FILE = "Properties/C04.v"
CHECK_MODULE = "Model.Store Model.FeedSpec Model.Crash Check.StoreCheck Check.C04Check"
CASE_TYPE = "C04Check.tcase"
EVAL_FN = "C04Check.evaluate"
DRIVER_PKG = "cmd/verif_c04"
SHARD = 40
PAR = 8

STORE_FLAGS = [(lk, ob, dm) for dm in ("stored_and_local", "local_else_stored") for (lk, ob) in ((True, True), (False, True), (True, False), (False, False))]
VARIANTS = []
for cm in ("separate", "in_data"):
    for f in STORE_FLAGS:
        VARIANTS.append({"name": "counter=%s,lenkeys=%s,objneq=%s,dup=%s" % ((cm,) + f),
                         "findings": ["F04a"] if cm == "separate" else [],
                         "rank": (0 if cm == "in_data" else 1) * 8 + (3 - (0 if f[0] else 1) - (0 if f[1] else 1) - (0 if f[2] == "stored_and_local" else 1))})
VARIANTS[0]["name"] = "current(" + VARIANTS[0]["name"] + ")"
VARIANTS[-1]["name"] = "fixed(" + VARIANTS[-1]["name"] + ")"

POINTS = ["batch.beforeIdCommit", "batch.afterIdCommit", "batch.afterCommit", "batch.afterUpdateDataset",
          "txn.beforeIdCommit", "txn.afterIdCommit", "txn.afterCommit", "txn.afterUpdateDataset"]

RULE = ("a case = (history of 3-6 batches / multi-dataset transactions / clean restarts over 1-2 datasets and a 3-5 id pool, contents "
        "from the store catalogue incl. references, deletes, identical re-posts and in-batch repeats) x (hook point, hit 1..3; thorough: "
        "hits 1..8 and SIGKILL at a trace line + random microseconds) x (tail: retry of the interrupted write + 2 further writes); the "
        "history runs in a child process that dies at the point; the parent reopens, dumps sequence keys, id table, change log with raw "
        "positions, latest feed, listing, counters, reference keys, relationship queries, runs the tail, dumps again, and runs the "
        "crash-free reference histories (without / with the interrupted write) on a fresh store; non-trivial = the child really died "
        "inside a write; distinct = distinct (history, crash) JSON.  Plus (a) targeted histories whose transaction / batch touches only "
        "EXISTING entities but adds never-seen predicates and reference targets (ids are assigned for those too), crashed at every point "
        "x hit 1..3 and closed cleanly, tail = retry + writes of the new targets; (b) dataset-management cases: acknowledged writes, then "
        "create / delete / rename dies at each create.* / delete.* / rename.* hook point (or completes), the parent reopens, reads every "
        "registered dataset, creates and writes a fresh dataset (and re-creates + writes a deleted name), runs GarbageCollector.Cleandeleted "
        "and reads again; datasets created without / with publicNamespaces; (c) ONE batch of 66000 generated entities through "
        "Dataset.StoreEntities, refused because of its last entity / killed at its first batch.afterCommit (thorough: more points), "
        "judged on counts; (d) a batch refused (nil reference) at the very instant another writer stands at batch/txn.beforeIdCommit "
        "or afterIdCommit holding uncommitted new ids (run inside the hook), then clean close, reopen, reads by URI, same write again; "
        "(e) a transaction over three datasets whose first / middle / last dataset (by name; list order shuffled) ends in an entity with a "
        "nil reference: must be refused and leave nothing anywhere; (f) about 1 in 5 posted entities carries an upstream \"recorded\" "
        "value as the HTTP body parser would keep it: the stored version's recorded must equal the time in its version key")
TRUSTED = [
    "badger: a committed transaction is atomic and durable, Sequence leases are persisted before first use (a crash here is process death "
    "at a hook point or by SIGKILL, not power loss; the OS page cache survives)",
    "the step order of the model (lease, id lease, release, id commit, data commit, counter commit) is a reading of dataset.go/store.go; "
    "hook points only separate [all leases+releases] | id commit | data commit | counter commits - the lease/release interleaving is "
    "exercised by the SIGKILL cases of the thorough tier only",
    "reference keys and relationship queries are not in the Coq model: they are compared between the recovered store and the crash-free "
    "reference run of the implementation by lib/props/c04.py (canonicalised: URIs for ids, ranks for times)",
    "internal ids are compared as sets (URIs known, ids in use): the assignment order inside one write follows Go map iteration; the order "
    "in which a transaction's datasets are processed (a Go map range) is observed through the driver's statsd client and given to the model",
    "F04b (first NewStore after a SIGKILL during Close fails once) is detected and reported by the Python harness, not modelled in Coq",
    "harness-level oracles (lib/props/c04.py, not Coq): every internal id in a reference key has a URI; every entity of a latest view is "
    "found through its URI, once, under the id its URI maps to; dataset-management crash cases (registry sane: pairwise distinct ids, no "
    "registered id in the deleted set; every dataset that still exists holds exactly its acknowledged writes after reopen, after a fresh "
    "dataset was created and written, and after garbage collection) are compared with a crash-free reference run of the implementation",
]
ASSUMPTIONS = ["one client; no dataset create/delete/rename, compaction or job token inside a history (C07, C12, C08 cover their own crash points)",
               "core.Dataset itself is not written by the histories"]

CODES = sc.Codes()
CASES_SEEN = []
# badger v4.2.0: logFile.Delete truncates the memtable WAL to 0 and then removes it; a kill in between leaves an empty NNNNN.mem,
# which the next Open reports as "Create a new file"; Store.Open only logs the error and goes on with a nil database
F04B_SIGNATURE = "while opening memtables"


# ------------------------------------------------------------------------------------------------ cases

def mk_case(datasets, ops, crash, tail, pool):
    return {"datasets": datasets, "ops": ops, "crash": crash, "tail": tail, "pool": pool}


def witness_cases():
    A = {"props": {"p1": "a"}, "refs": {"r1": "e2"}}
    B = {"props": {"p1": "b"}, "refs": {}}
    b1 = {"op": "batch", "ds": "a", "ents": [sc.with_id("e1", A)]}
    b2 = {"op": "batch", "ds": "a", "ents": [sc.with_id("e2", B), sc.with_id("e3", B)]}
    tx = {"op": "txn", "sets": [{"ds": "a", "ents": [sc.with_id("e4", B)]}, {"ds": "b", "ents": [sc.with_id("e1", B), sc.with_id("e4", A)]}]}
    tail = [{"op": "retry"}, {"op": "batch", "ds": "a", "ents": [sc.with_id("e5", A)]}]
    pool = ["e1", "e2", "e3", "e4", "e5"]
    res = []
    # F04a: data committed, counter not (batch, then transaction).  Hits count the nested core.Dataset batch of updateDataset too:
    # b1 = hits 1 (a) and 2 (core.Dataset), b2 = hit 3
    res.append(mk_case(["a", "b"], [b1, b2], {"point": "batch.afterCommit", "hit": 3}, tail, pool))
    res.append(mk_case(["a", "b"], [b1, tx], {"point": "txn.afterCommit", "hit": 1}, tail, pool))
    # ids committed, data lost; retry
    res.append(mk_case(["a", "b"], [b1, b2], {"point": "batch.afterIdCommit", "hit": 3}, tail, pool))
    res.append(mk_case(["a", "b"], [b1, tx], {"point": "txn.afterIdCommit", "hit": 1}, tail, pool))
    # nothing committed
    res.append(mk_case(["a", "b"], [b1, tx], {"point": "txn.beforeIdCommit", "hit": 1}, tail, pool))
    # inside updateDataset of a transaction (second dataset's counter)
    res.append(mk_case(["a", "b"], [b1, tx], {"point": "txn.afterUpdateDataset", "hit": 1}, tail, pool))
    # no crash at all: clean close
    res.append(mk_case(["a", "b"], [b1, {"op": "restart"}, tx], None, tail[1:], pool))
    # a transaction that only updates existing entities but introduces a new predicate and a new target, then a clean close
    up = {"op": "txn", "sets": [{"ds": "a", "ents": [{"id": "e1", "props": {"p1": "a"}, "refs": {"r1": "e2", "r9": "e7"}}]},
                                {"ds": "b", "ents": [{"id": "e1", "props": {"p1": "b"}, "refs": {"r8": ["e4"]}}]}]}
    res.append(mk_case(["a", "b"], [b1, tx, up], None, [{"op": "batch", "ds": "a", "ents": [sc.with_id("e7", B)]}], pool + ["e7"]))
    res.append(mk_case(["a", "b"], [b1, tx, up], {"point": "txn.afterCommit", "hit": 2}, [{"op": "retry"}, {"op": "batch", "ds": "a", "ents": [sc.with_id("e7", B)]}], pool + ["e7"]))
    # dataset management dying between its persistence steps
    for m, p in (({"op": "create", "ds": "n"}, "create.afterRecord"), ({"op": "create", "ds": "n"}, "create.afterNextId"),
                 ({"op": "delete", "ds": "a"}, "delete.afterDeletedSet"), ({"op": "delete", "ds": "a"}, "delete.afterRecord"),
                 ({"op": "rename", "ds": "a", "to": "r"}, "rename.afterMove")):
        c = mk_case(["a", "b"], [b1, b2], {"point": p, "hit": 1}, [], pool + ["w1"])
        c["mgmt"] = m
        res.append(c)
    # acknowledged delete of a dataset created with publicNamespaces, clean close, restart
    c = mk_case(["a", "b"], [b1, b2], None, [], pool + ["w1"])
    c["mgmt"] = {"op": "delete", "ds": "a"}
    c["public"] = True
    res.append(c)
    return res


def corpus_cases():
    return []


def gen_history(rng, nw):
    nds = rng.choice([1, 2, 2])
    pool = sc.IDS[:rng.choice([3, 4, 5])]
    writes = sc.gen_writes(rng, nds, nw, pool, rich=True)
    if nds > 1 and not any(w["op"] == "txn" for w in writes):
        writes[rng.below(len(writes))] = {"op": "txn", "sets": [{"ds": d, "ents": sc.gen_batch(rng, pool, {}, d, True)} for d in sc.DS_NAMES[:nds]]}
    if rng.chance(1, 3):
        writes.insert(rng.range(1, len(writes)), {"op": "restart"})
    tail = [{"op": "retry"}] + sc.gen_writes(rng, nds, 2, pool, rich=True)
    for w in writes + tail:
        for s_ in ([w] if w["op"] == "batch" else w.get("sets") or []):
            for e in s_["ents"]:
                if rng.chance(1, 5):
                    e["rec"] = 1700000000000000000 + rng.below(1000)   # "recorded" of an upstream hub
    return sc.DS_NAMES[:nds], writes, tail, pool


def plain(i, v):
    return {"id": i, "props": {"p1": v}, "refs": {}}


def gen_newpred_history(rng, k):
    """every entity of the transaction (and of the later batch) ALREADY exists in its dataset; the writes only add never-seen
    predicates and never-seen reference targets - ids are assigned for those too (assertIDForURI for refs ignores isnew)"""
    r1, r2, r3 = "r%d" % (10 + 3 * k), "r%d" % (11 + 3 * k), "r%d" % (12 + 3 * k)
    t1, t2 = "e%d" % (20 + 2 * k), "e%d" % (21 + 2 * k)
    setup = [{"op": "batch", "ds": "a", "ents": [plain("e1", "a"), plain("e2", "b")]},
             {"op": "batch", "ds": "b", "ents": [plain("e1", "c")]}]
    if rng.chance(1, 2):
        setup.append({"op": "restart"})
    tx = {"op": "txn", "sets": [{"ds": "a", "ents": [{"id": "e1", "props": {"p1": "a"}, "refs": {r1: t1}}]},
                                {"ds": "b", "ents": [{"id": "e1", "props": {"p1": "c"}, "refs": {r2: ["e2", t2]}}]}]}
    upd = {"op": "batch", "ds": "a", "ents": [{"id": "e2", "props": {"p1": "b"}, "refs": {r3: [t1]}}]}
    ops = setup + ([tx, upd] if rng.chance(1, 2) else [upd, tx])
    tail = [{"op": "retry"}, {"op": "batch", "ds": "a", "ents": [plain(t1, "t")]}, {"op": "batch", "ds": "b", "ents": [plain(t2, "u")]}]
    return ["a", "b"], ops, tail, ["e1", "e2", t1, t2]


MGMT = {"create": ["create.afterNextId", "create.afterRecord", "create.afterMeta"],
        "delete": ["delete.afterRecord", "delete.afterDeletedSet", "delete.afterMeta"],
        "rename": ["rename.afterMove", "rename.afterOldMeta", "rename.afterNewMeta"]}


def gen_mgmt(rng, nh):
    """dataset-management crash points: acknowledged writes, then create / delete / rename dies at every hook point"""
    cases = []
    for _ in range(nh):
        pool = sc.IDS[:rng.choice([3, 4])]
        writes = sc.gen_writes(rng, 2, rng.range(2, 4), pool, rich=True)
        for op, pts in sorted(MGMT.items()):
            m = {"op": op, "ds": "n" if op == "create" else rng.choice(["a", "b"])}
            if op == "rename":
                m["to"] = "r"
            for public in (False, True):
                for p in pts + [None]:
                    if public and op != "delete" and p is not None:
                        continue
                    c = mk_case(["a", "b"], writes, {"point": p, "hit": 1} if p else None, [], pool + ["w1"])
                    c["mgmt"] = m
                    if public:
                        c["public"] = True
                    cases.append(c)
    return cases


LONG_N = 66000      # > 65536: the version key holds uint16(position in batch)


def long_cases(tier):
    """ONE batch of LONG_N generated entities through Dataset.StoreEntities: refused because of its LAST entity / killed at the first
    batch.afterCommit of the long batch (hits 1, 2 = the small acknowledged batch and its counter write) / at the id commit"""
    small = {"op": "batch", "ds": "a", "ents": [plain("e1", "a"), plain("e2", "b"), plain("e3", "c")]}
    res = []
    specs = [(True, None), (False, {"point": "batch.afterCommit", "hit": 3})]
    if tier != "quick":
        specs += [(False, {"point": "batch.afterIdCommit", "hit": 3}), (False, {"point": "batch.afterCommit", "hit": 4}), (False, None),
                  (True, {"point": "batch.beforeIdCommit", "hit": 3})]
    for bad, crash in specs:
        c = mk_case(["a"], [small], crash, [], ["e1", "e2", "e3"])
        c["long"] = {"ds": "a", "n": LONG_N, "bad": bad}
        res.append(c)
    return res


def refuse_cases(rng, n):
    """writer one (last op, dataset a or a transaction) stands at a hook point holding uncommitted new ids; writer two's batch on
    dataset b is refused (nil reference) at that very instant; then a clean close, reopen, reads by URI, the same write again"""
    res = []
    for k in range(n):
        w1 = {"op": "batch", "ds": "a", "ents": [{"id": "e%d" % (30 + k), "props": {"p1": "o"}, "refs": {"r%d" % (30 + k): "e%d" % (40 + k)}}]}
        if k % 3 == 2:
            w1 = {"op": "txn", "sets": [{"ds": "a", "ents": w1["ents"]}]}
        pre = sc.gen_writes(rng, 2, rng.range(1, 2), sc.IDS[:3], rich=False)
        pt = ("txn." if w1["op"] == "txn" else "batch.") + ["beforeIdCommit", "afterIdCommit", "afterCommit"][k % 3 if w1["op"] == "batch" else 0]
        c = mk_case(["a", "b"], pre + [w1], None, [w1, {"op": "batch", "ds": "b", "ents": [plain("e%d" % (40 + k), "t")]}],
                    sc.IDS[:3] + ["e%d" % (30 + k), "e%d" % (40 + k), "e%d" % (50 + k)])
        c["refuse"] = {"ds": "b", "at": pt, "ents": [{"id": "e%d" % (50 + k), "props": {"p1": "x"}, "refs": {"r%d" % (50 + k): "e1"}}]}
        res.append(c)
    return res


def rejtxn_cases(rng, n):
    """a transaction over three datasets one of whose lists ends in an entity with a nil reference (first / middle / last dataset by
    name): it must be refused and leave NOTHING in any dataset; then a clean close, reopen, one more write"""
    res = []
    for k in range(n):
        pre = [{"op": "batch", "ds": d, "ents": [plain("e1", d)]} for d in ("a", "b", "c")][:rng.range(1, 3)]
        sets = [{"ds": d, "ents": [{"id": "e%d" % (60 + 3 * k + j), "props": {"p1": d}, "refs": {"r%d" % (60 + k): "e1"}}, plain("e1", d + "2")]}
                for j, d in enumerate(("a", "b", "c"))]
        rng.shuffle(sets)
        for bad in ("a", "b", "c"):
            tx = {"op": "txn", "sets": sets, "reject_in": bad}
            c = mk_case(["a", "b", "c"], pre + [tx], None, [{"op": "batch", "ds": "a", "ents": [plain("e%d" % (60 + 3 * k), "again")]}],
                        ["e1"] + ["e%d" % (60 + 3 * k + j) for j in range(3)])
            c["rejtxn"] = bad
            res.append(c)
    return res


def gen(rng, tier):
    return (rejtxn_cases(rng, {"quick": 2, "thorough": 10, "search": 3}[tier]) + gen_writes_cases(rng, tier) + gen_newpred_cases(rng, tier) + gen_mgmt(rng, {"quick": 1, "thorough": 6, "search": 2}[tier])
            + long_cases(tier) + refuse_cases(rng, {"quick": 6, "thorough": 30, "search": 9}[tier]))


def gen_newpred_cases(rng, tier):
    cases = []
    for k in range({"quick": 2, "thorough": 8, "search": 3}[tier]):
        dss, ops, tail, pool = gen_newpred_history(rng, k)
        for p in [None] + POINTS:
            for h in ([1] if p is None else [1, 2, 3]):
                cases.append(mk_case(dss, ops, {"point": p, "hit": h} if p else None, tail, pool))
        if tier != "quick":
            for _ in range(6):
                cases.append(mk_case(dss, [w for w in ops if w["op"] != "restart"],
                                     {"kill_line": rng.range(2, 40), "kill_us": rng.choice([0, 50, 200, 800])}, tail, pool))
    return cases


def gen_writes_cases(rng, tier):
    nh = {"quick": 16, "thorough": 60, "search": 30}[tier]
    hits = {"quick": [1, 2, 3], "thorough": [1, 2, 3, 4, 5, 6, 8], "search": [1, 2, 3, 4]}[tier]
    cases = []
    for _ in range(nh):
        dss, writes, tail, pool = gen_history(rng, rng.range(3, 6))
        for p in POINTS:
            if p.startswith("txn.") and not any(w["op"] == "txn" for w in writes):
                continue
            for h in hits:
                cases.append(mk_case(dss, writes, {"point": p, "hit": h}, tail, pool))
        if tier != "quick":
            for _ in range(12):
                cases.append(mk_case(dss, [w for w in writes if w["op"] != "restart"],
                                     {"kill_line": rng.range(2, 6 + 9 * len(writes)), "kill_us": rng.choice([0, 0, 20, 50, 100, 200, 400, 800])}, tail, pool))
    return cases


# ------------------------------------------------------------------------------------------------ driver

def run(binp, cases):
    """shard the cases over PAR driver processes (each case spawns its own child)"""
    n = len(cases)
    if n == 0:
        return []
    par = min(PAR, n)
    chunks = [list(range(i, n, par)) for i in range(par)]
    base = "/dev/shm" if os.path.isdir("/dev/shm") and os.access("/dev/shm", os.W_OK) else vlib.BUILD
    res = [None] * n

    def one(k):
        idx = chunks[k]
        sd = os.path.join(base, "verif-c04-%d-%d" % (os.getpid(), k))
        shutil.rmtree(sd, ignore_errors=True)
        os.makedirs(sd)
        try:
            todo = list(idx)
            while todo:
                inp = "".join(json.dumps(cases[i]) + "\n" for i in todo)
                try:
                    p = subprocess.run([binp, sd], input=inp, stdout=subprocess.PIPE, stderr=subprocess.PIPE, text=True,
                                       env=vlib.goenv(), timeout=90 * len(todo) + 60)
                    out, err, rc = p.stdout, p.stderr, p.returncode
                except subprocess.TimeoutExpired as ex:
                    out = ex.stdout.decode() if isinstance(ex.stdout, bytes) else (ex.stdout or "")
                    err, rc = "timeout", -9
                got = []
                for l in out.splitlines():
                    if l.startswith("@@OBS "):
                        try:
                            got.append(json.loads(l[6:]))
                        except ValueError:
                            break
                for i, o in zip(todo, got):
                    res[i] = o
                todo = todo[len(got):]
                if todo and rc != 0:
                    res[todo[0]] = {"outcome": "died", "detail": (err or "")[-400:]}
                    todo = todo[1:]
                elif todo:
                    raise RuntimeError("driver returned too few lines without failing")
        finally:
            shutil.rmtree(sd, ignore_errors=True)

    with ThreadPoolExecutor(max_workers=par) as ex:
        list(ex.map(one, range(par)))
    return res


# ------------------------------------------------------------------------------------------------ trace -> crash position

def op_lines(trace, idx):
    """trace lines of op idx after its 'op' line"""
    out, on = [], False
    for t in trace:
        if t["k"] == "op":
            on = t.get("op", 0) == idx
        elif t["k"] == "done":
            on = False
        elif on and t["k"] == "hit":
            out.append((t.get("n", ""), t.get("a", "")))
    return out


def lens_of(trace):
    return {t.get("op", 0): t.get("lens") or [] for t in trace if t["k"] == "op"}


def done_ops(trace):
    return [(t.get("op", 0), t.get("err", "")) for t in trace if t["k"] == "done"]


def share_order(trace, idx):
    """datasets of op idx in the order StoreEntitiesWithTransaction was entered for them"""
    out, on = [], False
    for t in trace:
        if t["k"] == "op":
            on = t.get("op", 0) == idx
        elif t["k"] == "done":
            on = False
        elif on and t["k"] == "share" and t.get("a") not in out:
            out.append(t.get("a"))
    return out


def crash_position(c, o):
    """(kind, op index, phase, datasets whose counter commit completed, processing order) from the child's trace"""
    if o.get("exit") == 0:
        return ("none", -1, 0, [], [])
    idx = o.get("inprog", -1)
    order = share_order(o["trace"], idx) if idx >= 0 else []
    if o.get("exit") == -1 or (c.get("crash") or {}).get("kill_line"):
        return ("kill", idx, 0, [], order)
    if idx < 0:
        return ("kill", idx, 0, [], order)   # died outside a write (cannot happen for hook points; treated as unknown instant)
    op = c["ops"][idx]
    lines = op_lines(o["trace"], idx)
    pre = "batch." if op["op"] == "batch" else "txn."
    top = [n for n, a in lines if n.startswith(pre) and (op["op"] == "txn" or a == op["ds"])]
    phase = 2 if pre + "afterCommit" in top else (1 if pre + "afterIdCommit" in top else 0)
    # counter commits: updateDataset.afterRead(X) ... batch.afterCommit(core.Dataset) = the counter of X is committed
    done, cur = [], None
    for n, a in lines:
        if n == "updateDataset.afterRead" and a != "core.Dataset":
            cur = a
        elif n == "batch.afterCommit" and a == "core.Dataset" and cur is not None:
            done.append(cur)
            cur = None
    return ("hook", idx, phase, done, order)


# ------------------------------------------------------------------------------------------------ Coq terms

def wop_term(c, op, lens, order=None):
    lens = list(lens or [])
    if op["op"] == "batch":
        ls = lens[:len(op["ents"])] + [0] * (len(op["ents"]) - len(lens))
        return "(WBatch %d %s)" % (sc.ds_code(c, op["ds"]), vlib.coq_list([sc.ent_term(CODES, e, l) for e, l in zip(op["ents"], ls)]))
    sets = []
    for s in op["sets"]:
        n = len(s["ents"])
        ls = lens[:n] + [0] * (n - len(lens[:n]))
        lens = lens[n:]
        sets.append((s["ds"], "(%d, %s)" % (sc.ds_code(c, s["ds"]), vlib.coq_list([sc.ent_term(CODES, e, l) for e, l in zip(s["ents"], ls)]))))
    if order:
        sets.sort(key=lambda p: order.index(p[0]) if p[0] in order else len(order))
    return "(WTxn %s)" % vlib.coq_list([t for _, t in sets])


def dsd_term(c, d, ns):
    log = ["(%d, %s)" % (s, sc.oent_term(CODES, e, ns)) for s, e in zip(d["seqs"], d["changes"])]
    return ("{| od_ds := %d; od_dseq := %d; od_items := %d; od_log := %s; od_latest := %s; od_listing := %s |}" % (
        sc.ds_code(c, d["name"]), max(d["dseq"], 0), d["items"], vlib.coq_list(log),
        vlib.coq_list([sc.oent_term(CODES, e, ns) for e in d["latest"]]),
        vlib.coq_list([sc.oent_term(CODES, e, ns) for e in d["listing"]])))


def new_ids(dump, base):
    ns = dump.get("ns") or {}
    res = []
    for u, i in sorted((dump.get("ids") or {}).items(), key=lambda p: p[1]):
        if u in (base.get("ids") or {}):
            continue
        res.append((CODES.ucode(sc.expand(u, ns)), i))
    return res


def dump_term(c, dump, base):
    ns = dump.get("ns") or {}
    ids = vlib.coq_list(["(%d, %d)" % p for p in new_ids(dump, base)])
    return "{| o_idp := %d; o_next := %d; o_ids := %s; o_ds := %s |}" % (
        dump["idp"], dump["idnext"], ids, vlib.coq_list([dsd_term(c, d, ns) for d in dump["ds"]]))


BAD = ("{| t_next0 := 0; t_idp0 := 0; t_prefix := []; t_crash := CNone; t_after := {| o_idp := -1; o_next := -1; o_ids := []; o_ds := [] |}; "
       "t_tail := []; t_final := {| o_idp := -1; o_next := -1; o_ids := []; o_ds := [] |}; t_refA := []; t_refB := None |}")


def usable(o):
    return o.get("outcome") == "ok" and o.get("after") and o.get("final") and o.get("base") and o.get("refA") \
        and not o["after"].get("err") and not o["final"].get("err")


def tail_ops(c, o):
    """the tail as executed: 'retry' resolved to the interrupted write (dropped if there was none)"""
    res = []
    shares = o.get("tail_shares") or []
    for i, (op, oo) in enumerate(zip(c["tail"], o.get("tail") or [])):
        if op["op"] == "retry":
            if o.get("inprog", -1) < 0:
                continue
            op = c["ops"][o["inprog"]]
        res.append((op, oo.get("lens") or [], (shares[i] if i < len(shares) else None) or []))
    return res


NEUTRAL = ("{| t_next0 := 0; t_idp0 := 0; t_prefix := []; t_crash := CNone; t_after := {| o_idp := 1000; o_next := 0; o_ids := []; o_ds := [] |}; "
           "t_tail := []; t_final := {| o_idp := 1000; o_next := 0; o_ids := []; o_ds := [] |}; t_refA := []; t_refB := None |}")


def term(c, o):
    if c.get("mgmt"):
        # dataset-management cases are judged by the harness-level oracle (mgmt_problems); the Coq model has no dataset registry
        return NEUTRAL if (o.get("outcome") == "ok" and o.get("mgmt")) else BAD
    if c.get("long"):
        return NEUTRAL if (o.get("outcome") == "ok" and o.get("long")) else BAD
    if c.get("rejtxn"):
        return NEUTRAL if usable(o) else BAD       # same reason as for refused batches below
    if c.get("refuse"):
        # a refused batch leaves its own pending ids in the shared id transaction (committed by the next writer): Model/Crash.v has
        # no pending ids between writes, Model/CrashExt.v (idtxn) does; the case is judged by refuse_problems
        return NEUTRAL if usable(o) else BAD
    if not usable(o):
        return BAD
    kind, idx, phase, cdone, order = crash_position(c, o)
    lens = lens_of(o["trace"])
    errs = [e for _, e in done_ops(o["trace"]) if e] + [oo.get("err", "") + oo.get("panic", "") for op, oo in zip(c["tail"], o["tail"])
                                                        if op["op"] != "retry" and (oo.get("err") or oo.get("panic"))]
    if errs:
        return BAD
    n = idx if idx >= 0 else (len(c["ops"]) if kind == "none" else o.get("ndone", 0))
    prefix = []
    for i in range(n):
        op = c["ops"][i]
        prefix.append("ERestart" if op["op"] == "restart" else "EOp %s" % wop_term(c, op, lens.get(i), share_order(o["trace"], i)))
    if kind == "none":
        crash = "CNone"
    elif kind == "hook":
        crash = "CHook %s %d %s" % (wop_term(c, c["ops"][idx], lens.get(idx), order), phase,
                                    vlib.coq_list([str(sc.ds_code(c, d)) for d in cdone]))
    elif idx < 0:
        crash = "CKill []"
    else:
        crash = "CKill [%s]" % wop_term(c, c["ops"][idx], lens.get(idx), order)
    base = o["base"]
    tail = vlib.coq_list([wop_term(c, op, ls, sh) for op, ls, sh in tail_ops(c, o)])
    refA = vlib.coq_list([dsd_term(c, d, o["refA"].get("ns") or {}) for d in o["refA"]["ds"]])
    refB = "None"
    if o.get("refB"):
        refB = "(Some %s)" % vlib.coq_list([dsd_term(c, d, o["refB"].get("ns") or {}) for d in o["refB"]["ds"]])
    return ("{| t_next0 := %d; t_idp0 := %d;\n  t_prefix := %s;\n  t_crash := %s;\n  t_after := %s;\n  t_tail := %s;\n  t_final := %s;\n"
            "  t_refA := %s;\n  t_refB := %s |}" % (
                base["idnext"], base["idp"], vlib.coq_list(prefix), crash, dump_term(c, o["after"], base), tail,
                dump_term(c, o["final"], base), refA, refB))


# ------------------------------------------------------------------------------------------------ harness-level oracle: references

def canon_refs(dump):
    """reference keys as relation histories: URIs for ids, ranks for times; per (family, src, pred, tgt, dataset) the sequence of
    live/deleted states in key order, compressed to state CHANGES starting from 'absent' (a tombstone with no live key before it
    says the same as no key: whether a brand-new deleted entity writes tombstones depends on `isnew`, i.e. on whether its id was
    asserted earlier - by Go map order inside a transaction, or by an interrupted earlier attempt)"""
    ns = dump.get("ns") or {}
    times = sorted({e["rec"] for d in dump["ds"] for e in d["changes"]} | {r["time"] for r in (dump.get("refs") or [])})
    rank = {t: i for i, t in enumerate(times)}
    groups = {}
    for r in dump.get("refs") or []:
        k = (r["out"], sc.expand(r["src"], ns), sc.expand(r["pred"], ns), sc.expand(r["tgt"], ns), r["ds"])
        groups.setdefault(k, []).append((rank[r["time"]], r["del"]))
    out = []
    for k, l in sorted(groups.items()):
        state, hist = True, []          # True = deleted/absent
        for t, dele in sorted(l):
            if dele != state:
                hist.append((t, dele))
                state = dele
        if hist:
            out.append((k, hist))
    return out


def canon_rel(dump):
    """answers of the OUTGOING relationship queries (even pages).  The inverse queries are dumped but not compared: the pinned
    incoming scan (finding F03a of C03) answers differently depending on the numeric order of the predicates' internal ids, which
    follows Go map order at assignment time and so differs between two runs of the same history - crash or no crash.  The raw
    keys of BOTH index families are compared (canon_refs), which is the stronger index-level statement."""
    ns = dump.get("ns") or {}
    pages = dump.get("rel") or []
    return [sorted((sc.expand(r["start"], ns), sc.expand(r["pred"], ns), sc.expand(r["id"], ns)) for r in page)
            for i, page in enumerate(pages) if i % 2 == 0]


def canon_gets(dump):
    ns = dump.get("ns") or {}
    return [[json.dumps(sc.canon_value({"id": e["id"], "props": e.get("props"), "refs": e.get("refs"), "deleted": e.get("deleted")}, ns), sort_keys=True)
             for e in d["gets"]] for d in dump["ds"]]


def refs_verdict(c, o):
    """does the recovered store carry exactly the reference keys / relationship answers / lookups of the crash-free run
    without (A) or with (B) the interrupted write?  -> 'A' | 'B' | 'AB' | None"""
    if not usable(o):
        return None
    got = (canon_refs(o["after"]), canon_rel(o["after"]), canon_gets(o["after"]))
    v = ""
    for name in ("refA", "refB"):
        r = o.get(name)
        if r and got == (canon_refs(r), canon_rel(r), canon_gets(r)):
            v += name[-1]
    return v or None


def dump_problems(dump, what):
    """clauses on one dump that the Coq model does not hold: every internal id in a reference key has a URI; every entity of a
    latest view is found through its URI, once, under the id its URI maps to"""
    ns = dump.get("ns") or {}
    out = []
    for r in dump.get("refs") or []:
        if r["src"].startswith("?") or r["pred"].startswith("?") or r["tgt"].startswith("?"):
            out.append("%s: reference key of dataset %s holds an internal id without URI: %s -%s-> %s" % (what, r["ds"], r["src"], r["pred"], r["tgt"]))
            break
    ids = dump.get("ids") or {}
    for d in dump["ds"]:
        for e, kt in zip(d["changes"], d.get("seqtimes") or []):
            if kt != -1 and e.get("rec", 0) != kt:
                out.append("%s: version of %s in %s says recorded=%s but sits under time %s in its version key / change entry" % (
                    what, sc.expand(e["id"], ns), d["name"], e.get("rec"), kt))
                break
        seen = {}
        for e in d["listing"]:
            u = sc.expand(e["id"], ns)
            if u in seen and seen[u] != e.get("iid"):
                out.append("%s: %s is twice in the latest view of %s (internal ids %s and %s)" % (what, u, d["name"], seen[u], e.get("iid")))
            seen[u] = e.get("iid")
            if e["id"] in ids and ids[e["id"]] != e.get("iid", 0):
                out.append("%s: %s is stored in %s under internal id %s but its URI maps to %s" % (what, u, d["name"], e.get("iid"), ids[e["id"]]))
            if e["id"] not in ids:
                out.append("%s: %s of %s has no URI -> id mapping" % (what, u, d["name"]))
        found = {sc.expand(e["id"], ns) for e in d["gets"]}
        for u in seen:
            if u.startswith(sc.NS + "e") and u not in found:
                out.append("%s: %s is in the latest view of %s but a lookup by its URI finds nothing" % (what, u, d["name"]))
    return out


def canon_ent(e, ns):
    return json.dumps(sc.canon_value({"id": e["id"], "props": e.get("props"), "refs": e.get("refs"), "deleted": e.get("deleted")}, ns), sort_keys=True)


def canon_ds(dump, name):
    """everything a dataset holds, by URI, times as ranks inside the dataset"""
    if dump is None:
        return None
    ns = dump.get("ns") or {}
    for d in dump["ds"]:
        if d["name"] != name:
            continue
        refs = [r for r in (dump.get("refs") or []) if r["ds"] == name]
        times = sorted({e["rec"] for e in d["changes"]} | {r["time"] for r in refs})
        rank = {t: i for i, t in enumerate(times)}
        groups = {}
        for r in refs:
            k = (r["out"], sc.expand(r["src"], ns), sc.expand(r["pred"], ns), sc.expand(r["tgt"], ns))
            groups.setdefault(k, []).append((rank[r["time"]], r["del"]))
        hist = []
        for k, l in sorted(groups.items()):
            state, h = True, []
            for t, dele in sorted(l):
                if dele != state:
                    h.append((t, dele))
                    state = dele
            if h:
                hist.append((k, h))
        return {"changes": [canon_ent(e, ns) for e in d["changes"]], "latest": [canon_ent(e, ns) for e in d["latest"]],
                "listing": sorted(canon_ent(e, ns) for e in d["listing"]), "gets": sorted(canon_ent(e, ns) for e in d["gets"]),
                "refs": hist}
    return None


EMPTY_DS = {"changes": [], "latest": [], "listing": [], "gets": [], "refs": []}


def mgmt_problems(c, o):
    """dataset-management crash case: the registry is sane and every acknowledged batch of a dataset that still exists is fully
    present - after reopen, after a fresh dataset was created and written, and after the garbage collector ran"""
    m = o.get("mgmt")
    if o.get("outcome") != "ok" or not m:
        return ["driver outcome %s: %s" % (o.get("outcome"), (o.get("detail") or "")[:300])]
    out = []
    if m.get("err") or m.get("new_err") or m.get("gc_err"):
        out.append("errors: %s %s %s" % (m.get("err"), m.get("new_err"), m.get("gc_err")))
    mg = c["mgmt"]
    done = [t for t in o.get("trace") or [] if t["k"] == "mgmtdone"]
    if mg["op"] == "delete" and done and not done[0].get("err") and any(d["name"] == mg["ds"] for d in m["reg"]["datasets"]):
        out.append("the delete of dataset %s was acknowledged and the dataset is registered again after the restart" % mg["ds"])
    for what, reg, dump in (("after reopen", m["reg"], m["after"]), ("after creating dataset zz", m["reg2"], m["after2"]),
                            ("after garbage collection", m["reg2"], m["after3"])):
        ids = [d["id"] for d in reg["datasets"]]
        if len(ids) != len(set(ids)):
            out.append("%s: registered datasets share an internal id: %s" % (what, reg["datasets"]))
        hit = [d for d in reg["datasets"] if d["id"] in reg["deleted"]]
        if hit:
            out.append("%s: registered dataset(s) %s are in the persisted deleted-datasets set %s" % (what, hit, reg["deleted"]))
        if dump.get("err"):
            out.append("%s: read errors: %s" % (what, dump["err"][:300]))
        out += dump_problems(dump, what)
        for d in dump["ds"]:
            name = d["name"]
            got = canon_ds(dump, name)
            if name == mg["ds"] and m.get("recreated") and what != "after reopen":
                if len(got["changes"]) != 1 or len(got["listing"]) != 1 or len(got["gets"]) != 1:  # pool of mgmt cases contains w1
                    out.append("%s: dataset %s was deleted, created again and written once; it holds %d change entries / %d entities / %d found by URI" % (
                        what, name, len(got["changes"]), len(got["listing"]), len(got["gets"])))
                continue
            if name == "zz":
                if len(got["changes"]) != 1 or len(got["listing"]) != 1:
                    out.append("%s: the fresh dataset zz holds %d change entries / %d entities instead of the 1 written" % (what, len(got["changes"]), len(got["listing"])))
                continue
            origin = name if name in c["datasets"] else (mg["ds"] if mg["op"] == "rename" and name == mg.get("to") else None)
            want = (canon_ds(m["ref"], origin) if origin else None) or EMPTY_DS
            if got != want:
                diff = [k for k in want if got[k] != want[k]]
                out.append("%s: dataset %s still exists but does not hold exactly its acknowledged writes (differs in %s: %s vs %s)" % (
                    what, name, diff, json.dumps(got[diff[0]])[:200], json.dumps(want[diff[0]])[:200]))
    return out


def long_problems(c, o):
    """a batch is one unit whatever its length: refused => nothing of it; killed => nothing or all of it; stored again => all, once"""
    l = o.get("long")
    if o.get("outcome") != "ok" or not l:
        return ["driver outcome %s: %s" % (o.get("outcome"), (o.get("detail") or "")[:300])]
    n, base = c["long"]["n"], l["base"]
    out = []
    a, f = l["after"], l["final"]
    if c["long"].get("bad") and l["err"] == "":
        out.append("a batch ending in an entity with a nil reference was accepted")
    if l["err"] not in ("", "?") or c["long"].get("bad"):
        allowed = [base]                       # refused (or would have been): entirely absent
    elif l["err"] == "":
        allowed = [base + n]                   # acknowledged
    else:
        allowed = [base, base + n]             # never returned
    if a["changes"] not in allowed or a["latest"] not in allowed or a["changes"] != a["latest"]:
        out.append("after reopen the dataset has %d change entries / %d entities; the long batch of %d (status %r) allows only %s" % (
            a["changes"], a["latest"], n, l["err"], allowed))
    if a["changes"] == base + n and not a["found"]:
        out.append("the batch is present but its last entity is not found through its URI")
    if not (a["maxseq"] < a["dseq"] or a["changes"] == 0):
        out.append("next change position %d is not beyond the last one in use %d" % (a["dseq"], a["maxseq"]))
    if l["retry"]:
        out.append("storing the batch again failed: " + l["retry"])
    elif f["changes"] != base + n or f["latest"] != base + n or not f["found"]:
        out.append("after storing the batch (again) the dataset has %d change entries / %d entities, want %d" % (f["changes"], f["latest"], base + n))
    return out


def refuse_problems(c, o):
    """a refused batch has no effect on any shared state: the other writer's acknowledged write is complete and findable by URI, the
    refused batch's dataset is unchanged, storing the same write again adds nothing"""
    if not usable(o):
        return ["driver outcome %s: %s" % (o.get("outcome"), (o.get("detail") or (o.get("after") or {}).get("err") or "")[:300])]
    out = []
    ref = [t for t in o["trace"] if t["k"] == "refused"]
    if not ref:
        out.append("the interleaving did not happen (hook point %s not reached)" % c["refuse"]["at"])
    elif not ref[0].get("err"):
        out.append("the batch with a nil reference was accepted")
    out += write_case_problems(c, o)
    for name in c["datasets"]:
        if canon_ds(o["after"], name) != canon_ds(o["refA"], name):
            out.append("after restart dataset %s differs from the run without the refused batch" % name)
    w1ds = [s_["ds"] for s_ in c["ops"][-1]["sets"]] if c["ops"][-1]["op"] == "txn" else [c["ops"][-1]["ds"]]
    for name in w1ds:
        a, f = canon_ds(o["after"], name), canon_ds(o["final"], name)
        if a and f and (a["changes"] != f["changes"] or a["listing"] != f["listing"]):
            out.append("storing the identical write again changed dataset %s: %d -> %d change entries, %d -> %d entities" % (
                name, len(a["changes"]), len(f["changes"]), len(a["listing"]), len(f["listing"])))
    return out


def rejtxn_problems(c, o):
    """a transaction refused because of ANY of its datasets is refused as a whole: error returned, nothing of it anywhere"""
    if not usable(o):
        return ["driver outcome %s: %s" % (o.get("outcome"), (o.get("detail") or (o.get("after") or {}).get("err") or "")[:300])]
    out = []
    n = len(c["ops"]) - 1
    errs = [e for i, e in done_ops(o["trace"]) if i == n]
    if not errs or not errs[0]:
        out.append("the transaction whose dataset %s holds an entity with a nil reference was acknowledged" % c["rejtxn"])
    out += write_case_problems(c, o)
    for name in c["datasets"]:
        a, r = canon_ds(o["after"], name), canon_ds(o["refA"], name)
        if a != r:
            out.append("after restart dataset %s holds %d change entries / %d entities; without the refused transaction it holds %d / %d" % (
                name, len(a["changes"]), len(a["listing"]), len(r["changes"]), len(r["listing"])))
    return out


def write_case_problems(c, o):
    out = []
    for name in ("after", "final"):
        out += dump_problems(o[name], name)
    return out


def predict_text(c, o):
    if c.get("mgmt"):
        return "dataset-management case (harness-level oracle): " + "; ".join(mgmt_problems(c, o) or ["no problem found"])
    if c.get("rejtxn"):
        return "refused-transaction case (harness-level oracle): " + "; ".join(rejtxn_problems(c, o) or ["no problem found"])
    if c.get("long"):
        return "long-batch case (harness-level oracle): " + "; ".join(long_problems(c, o) or ["no problem found"])
    if c.get("refuse"):
        return "refused-batch case (harness-level oracle): " + "; ".join(refuse_problems(c, o) or ["no problem found"])
    t = term(c, o)
    body = "Definition c : C04Check.tcase := %s.\n" % t
    body += ("Eval vm_compute in (map (fun v => C04Check.agree v c) C04Check.variants, C04Check.spec_core c, C04Check.spec_ok c, "
             "C04Check.atomic_ok c).\n")
    ok, out, _ = vlib.coq_eval("C04p", CHECK_MODULE.split(), body)
    return ("crash position %s; references (keys, queries, lookups) equal to crash-free run: %s; agree per variant, spec_core, spec_ok, "
            "atomic_ok: %s" % (crash_position(c, o) if usable(o) else "?", refs_verdict(c, o), out.strip()[-1500:]))


def counter_lag(o):
    for name in ("after", "final"):
        for d in (o.get(name) or {}).get("ds") or []:
            if d["items"] != len(d["listing"]):
                return True
    return False


def attribute(c, o):
    if c.get("mgmt") or c.get("long") or c.get("refuse") or c.get("rejtxn"):
        return None
    if usable(o) and write_case_problems(c, o):
        return None
    if usable(o) and counter_lag(o):
        kind, idx, phase, cdone, order = crash_position(c, o)
        if kind == "kill" or (kind == "hook" and phase == 2):
            return "F04a"
    return None


def size(c):
    return len(json.dumps(c))


def classify(c, o):
    if c.get("rejtxn"):
        return "refused-transaction"
    if c.get("long"):
        return "long-batch"
    if c.get("refuse"):
        return "refused-interleaved" if any(t["k"] == "refused" for t in o.get("trace") or []) else None
    if c.get("mgmt"):
        return "mgmt-" + c["mgmt"]["op"] if (c.get("crash") and o.get("exit") == 137) else None
    if not usable(o):
        return None
    kind, idx, phase, cdone, order = crash_position(c, o)
    if kind == "hook":
        return "hook-phase-%d" % phase
    if kind == "kill" and idx >= 0:
        return "kill-in-write"
    return None


def tags(c, o):
    if c.get("rejtxn"):
        order = [s_["ds"] for s_ in c["ops"][-1]["sets"]]
        return ["refused-transaction", "bad-dataset=" + c["rejtxn"], "outcome=" + o.get("outcome", "?")]
    if c.get("long"):
        return ["long-batch", "bad=%s" % bool(c["long"].get("bad")), "point=" + ((c.get("crash") or {}).get("point") or "none"), "child-exit=%s" % o.get("exit")]
    if c.get("refuse"):
        return ["refused-batch", "at=" + c["refuse"]["at"], "outcome=" + o.get("outcome", "?")]
    if c.get("mgmt"):
        return ["mgmt=" + c["mgmt"]["op"], "point=" + ((c.get("crash") or {}).get("point") or "none"), "outcome=" + o.get("outcome", "?"),
                "child-exit=%s" % o.get("exit")]
    t = ["datasets=%d" % len(c["datasets"])]
    cr = c.get("crash") or {}
    t.append("point=" + (cr.get("point") or ("kill" if cr.get("kill_line") else "none")))
    if usable(o):
        kind, idx, phase, cdone, order = crash_position(c, o)
        t.append("crash=%s" % kind + (":phase%d" % phase if kind == "hook" else ""))
        if kind == "hook":
            t.append("interrupted=" + c["ops"][idx]["op"])
        t.append("refs-equal-to=" + str(refs_verdict(c, o)))
        if counter_lag(o):
            t.append("counter-lag")
    t.append("outcome=" + o.get("outcome", "?"))
    return t


def main(tier, seed, replay=None):
    """the generic engine, plus the harness-level oracle for the families the Coq model does not hold (reference keys,
    relationship queries, scoped lookups): recovered store == crash-free reference run chosen by the crash position"""
    import engine
    import sys
    P = sys.modules[__name__]
    bad = []
    first_open = []
    orig_run = P.run

    def run_and_check(binp, cases):
        obs = orig_run(binp, cases)
        CASES_SEEN.clear()
        CASES_SEEN.extend(zip(cases, obs))
        for i, (c, o) in enumerate(zip(cases, obs)):
            if c.get("mgmt"):
                pr = mgmt_problems(c, o)
                if pr:
                    bad.append((i, c, o, "dataset management interrupted at %s: %s" % ((c.get("crash") or {}).get("point"), pr[0])))
                continue
            if c.get("long"):
                pr = long_problems(c, o)
                if pr:
                    bad.append((i, c, o, "long batch (%d entities, crash %s): %s" % (c["long"]["n"], json.dumps(c.get("crash")), pr[0])))
                continue
            if c.get("rejtxn"):
                pr = rejtxn_problems(c, o)
                if pr:
                    bad.append((i, c, o, "multi-dataset transaction with a refusing entity in dataset %s: %s" % (c["rejtxn"], pr[0])))
                continue
            if c.get("refuse"):
                pr = refuse_problems(c, o)
                if pr:
                    bad.append((i, c, o, "batch refused while another writer stood at %s: %s" % (c["refuse"]["at"], pr[0])))
                continue
            if o.get("first_open"):
                if F04B_SIGNATURE in o["first_open"] and o.get("exit") == -1:
                    first_open.append(i)
                else:
                    bad.append((i, c, o, "the first NewStore after the child's death failed: " + o["first_open"][:400]))
                    continue
            if not usable(o):
                bad.append((i, c, o, "driver outcome %s: %s" % (o.get("outcome"), (o.get("detail") or (o.get("after") or {}).get("err") or "")[:300])))
                continue
            pr = write_case_problems(c, o)
            if pr:
                bad.append((i, c, o, pr[0]))
                continue
            kind, idx, phase, cdone, order = crash_position(c, o)
            v = refs_verdict(c, o)
            want = "A" if kind == "none" or idx < 0 else ("B" if kind == "hook" and phase == 2 else ("A" if kind == "hook" else "AB"))
            if v is None or not (set(v) & set(want)):
                bad.append((i, c, o, "reference keys / relationship queries / lookups of the recovered store equal neither crash-free run "
                                     "allowed at this crash position (got %s, allowed %s)" % (v, want)))
        return obs

    class Shim:
        pass
    S = Shim()
    for k in dir(P):
        if not k.startswith("__"):
            setattr(S, k, getattr(P, k))
    S.run = run_and_check
    import io
    import contextlib
    buf = io.StringIO()
    with contextlib.redirect_stdout(buf):
        rc = engine.run_check(S, tier, seed, replay)
    for line in buf.getvalue().splitlines():
        if line.startswith("OK ") and bad:
            continue      # the harness-level oracle below found a failing input: no OK line
        print(line)
    if first_open:
        known = {f["id"]: f for f in vlib.load_known()}
        if known.get("F04b", {}).get("status") == "open":
            print("KNOWN-FINDING: property=%s F04b %s (%d of the SIGKILL cases of this run)" % (ID, known["F04b"]["what"], len(first_open)))
        else:
            i = first_open[0]
            bad.insert(0, (i, None, None, "F04b (first NewStore after a SIGKILL fails) is exhibited and not listed as an open finding"))
    if bad:
        i, c, o, what = bad[0]
        if c is None:
            c, o = CASES_SEEN[i]
        path = vlib.write_replay(ID, {"property": ID, "kind": "failing-input", "what": what, "case": c, "observed": o})
        print("VIOLATION property=%s replay=%s" % (ID, path))
        return 1
    return rc
