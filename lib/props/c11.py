"""C11 - every accepted job ends with a recorded outcome; one run per job id (raffle)."""
import itertools

import vlib

ID = "C11"
PROP_FILE = "Properties/C11.v"
CHECK_MODULE = "Check.C11Check"
CASE_TYPE = "tcase"
DRIVER_PKG = "cmd/verif_c11"
SHARD = 200

FIX = ["F11a", "F11b", "F11c", "F11d", "F11e"]   # fix_endctx, fix_verify, fix_panic, fix_chunk, fix_clone
VARIANTS = []
for a, b, c, d, e in itertools.product([False, True], repeat=5):   # same order as all_variants in Check/C11Check.v
    fx = lambda x: "fixed" if x else "current"
    VARIANTS.append({"name": "endctx=%s,verify=%s,panic=%s,chunk=%s,clone=%s" % (fx(a), fx(b), fx(c), fx(d), fx(e)),
                     "findings": [f for f, fixed in zip(FIX, (a, b, c, d, e)) if not fixed]})
RULE = ("configuration cases = source {dataset, sample, slow, http remote, http remote stalling mid-body, proxy dataset with a silent remote, union source re-defined with fewer members after a run} x transform {none, js, js with parallelism 10 on pages of 15, js whose transform stage panics (injected by the harness), js that returns no entity, a JavascriptTransform block without code} x sink "
        "{devnull, dataset, dataset that does not exist} x trigger {cron, onchange} x job type x handler set {none, log, rerun, "
        "log+rerun, unknown type, 'Log'} (+ kill for the slow source and the http remotes, which stall when the job is to be killed): the whole lattice (thorough, 4320 configurations) or the "
        "witnesses plus a PRNG sample of 45 (quick), each through Scheduler.AddJob and the real trigger path in its own process; "
        "barrier cases = 2-8 requesters for ONE job id (mixed flavours) released together by a spinning gate, 10000 (quick) / 100000 (thorough) rounds each, calling raffle.borrowTicket directly; per round the number of tickets held at once; "
        "raffle cases = pool sizes x job objects (ids shared between objects, both kinds) x 4-12 goroutines x 20-60 Run calls each; "
        "non-trivial = a wrapper is installed or the run does not succeed (configuration) / at least one refused ticket (raffle)")
TRUSTED = [
    "process liveness is the exit status of a child process per configuration (watchdog 40 s); debug.SetMaxStack(4 MB) in the child "
    "only shortens the runaway recursion",
    "the linearised raffle log is taken at pipeline.sync entry/exit (inside the ticket interval) and at the statsd gauge calls "
    "(inside the raffle mutex); Go's sync.Mutex is trusted to make borrowTicket/returnTicket atomic",
    "the outcome model of pipeline.sync in Model/JobRun.v is abstract (ok / err / interrupt / panic / diverge per building block): "
    "which block produces which is read from the code and checked on every configuration of the lattice, not derived",
]
ASSUMPTIONS = [
    "one trigger per job definition (verify returns at the first onchange trigger, so later triggers are not checked at all)",
    "job definitions with an id, a title, a source and a sink block of a known type (other definitions are rejected before verify's trigger loop)",
    "HttpDatasetSource/Sink, HttpTransform, MultiSource and UnionDatasetSource are not part of the lattice",
]
EXHAUSTIVE = {"thorough": True}

SRC = ["dataset", "sample", "slow", "http", "httpmid", "proxy", "union"]
KILLABLE = ("slow", "http", "httpmid")
TR = ["none", "js", "jspar", "panic", "empty", "nocode"]
SNK = ["devnull", "dataset", "missing"]
TRIG = ["cron", "onchange"]
JT = ["incremental", "fullsync"]
HS = ["none", "log", "rerun", "logrerun", "bad", "Log"]
COQ = {"dataset": "SDataset", "sample": "SSample", "slow": "SSlow", "http": "SHttp", "httpmid": "SHttpMid", "proxy": "SProxy", "union": "SUnion", "nocode": "TNoCode", "none": "TNone", "js": "TJs", "panic": "TPanic", "jspar": "TJsPar", "empty": "TEmpty",
       "devnull": "KDevNull", "missing": "KMissing", "cron": "GCron", "onchange": "GOnChange", "incremental": "JIncr",
       "fullsync": "JFull"}
COQ_SNK = {"devnull": "KDevNull", "dataset": "KDataset", "missing": "KMissing"}
COQ_H = {"none": "HNone", "log": "HLog", "rerun": "HRerun", "logrerun": "HLogRerun", "bad": "HBad", "Log": "HLogCap"}


def cfg(source="dataset", transform="none", sink="devnull", trigger="cron", jobType="incremental", handlers="none", kill=False,
        delete=False):
    return {"kind": "cfg", "source": source, "transform": transform, "sink": sink, "trigger": trigger, "jobType": jobType,
            "handlers": handlers, "kill": kill, "delete": delete}


def raffle(capF, capI, jobs, workers, iters):
    return {"kind": "raffle", "capF": capF, "capI": capI, "jobs": [{"id": i, "full": f} for i, f in jobs],
            "workers": workers, "iters": iters}


def barrier(capF, capI, reqs, rounds, distinct=False):
    return {"kind": "barrier", "capF": capF, "capI": capI, "reqs": list(reqs), "rounds": rounds, "distinct": distinct}


def lattice():
    for s, t, k, g, j, h in itertools.product(SRC, TR, SNK, TRIG, JT, HS):
        yield cfg(s, t, k, g, j, h, False)
        if s in KILLABLE:
            yield cfg(s, t, k, g, j, h, True, delete=(s == "slow" and (len(t) + len(k) + len(h)) % 2 == 0))


def witness_cases():
    return [
        cfg(),
        cfg(transform="js", handlers="log"),                                   # F11a
        cfg(transform="js", handlers="logrerun", jobType="fullsync"),          # F11a
        cfg(trigger="onchange", handlers="log", sink="missing"),               # F11b nil handler
        cfg(trigger="onchange", handlers="bad"),                               # F11b unverified handler accepted
        cfg(handlers="bad"),
        cfg(transform="panic"),                                                # F11c panic under cron
        cfg(transform="panic", trigger="onchange"),
        cfg(transform="panic", jobType="fullsync"),
        cfg(transform="jspar"), cfg(transform="jspar", source="sample", trigger="onchange"),     # F11d (= F10b): chunk arithmetic
        cfg(transform="jspar", handlers="log"), cfg(transform="jspar", handlers="logrerun", sink="dataset"),   # F11e: shared JS runtime
    ] + [cfg(source=sr, transform="jspar", sink=sk, handlers="log") for sr in ("dataset", "sample", "slow") for sk in ("devnull", "dataset")] + [
        # a filtering transform empties the batch, the sink rejects it, log handler: recorded failure, no bisection
        cfg(source="sample", transform="empty", sink="missing", handlers="log"),
        cfg(transform="empty", sink="missing", handlers="logrerun", jobType="incremental"),
        cfg(transform="empty", sink="missing", handlers="log", trigger="onchange"),
        cfg(transform="empty", sink="missing"), cfg(transform="empty", sink="dataset", handlers="log"),
        # wrappers without a transform: every wrappedSink method on the fullsync path
        cfg(jobType="fullsync", handlers="log"), cfg(jobType="fullsync", handlers="logrerun", sink="dataset", source="sample"),
        cfg(handlers="log", sink="dataset"), cfg(jobType="fullsync", handlers="Log", trigger="cron", sink="dataset"),
        cfg(sink="missing"), cfg(sink="missing", handlers="log"), cfg(source="slow", kill=True),
        cfg(trigger="onchange", handlers="Log", sink="missing"),
        raffle(1, 2, [(0, False), (0, True), (1, False), (2, False), (3, True), (3, True)], 8, 40),
        raffle(5, 10, [(0, False), (0, False), (1, True), (1, False)], 6, 30),
        # simultaneous requests for ONE job id released by a spinning gate: never two tickets at once
        barrier(2, 3, [False, True, False, True, False, False, True, False], 10000),
        barrier(5, 10, [False, False], 10000),
        # pool limits with sizes that differ (configured through the environment like the hub): 6 fullsync jobs with different
        # ids ask together, never more than JOBS_MAX_FULLSYNC of them hold a ticket; the same for the incremental pool
        barrier(2, 5, [True] * 6, 3000, True), barrier(4, 2, [False] * 6, 3000, True),
        # transform block without code (= no transform), http sources, kill while the remote stalls
        cfg(transform="nocode"), cfg(transform="nocode", jobType="fullsync", handlers="log"),
        cfg(transform="nocode", trigger="onchange", sink="dataset"),
        cfg(source="http"), cfg(source="httpmid", jobType="fullsync", sink="dataset"), cfg(source="http", transform="js", handlers="log"),
        cfg(source="http", kill=True), cfg(source="httpmid", kill=True), cfg(source="http", kill=True, jobType="fullsync", handlers="rerun"),
        cfg(source="httpmid", kill=True, trigger="onchange", sink="dataset"),
        # proxy dataset whose remote stays silent (the request must time out), union job re-defined with fewer members
        cfg(source="proxy"), cfg(source="proxy", jobType="fullsync", handlers="log", transform="js"),
        cfg(source="proxy", trigger="onchange", sink="dataset", handlers="rerun"),
        cfg(source="union"), cfg(source="union", jobType="fullsync", sink="dataset"),
        # kill of a running job: also after its definition was deleted; with reRun / log handlers and both job types the
        # driver then waits longer than the retry delay: one run, recorded as killed, not started again
        cfg(source="slow", kill=True, delete=True), cfg(source="slow", kill=True, delete=True, jobType="fullsync", trigger="onchange"),
        cfg(source="slow", kill=True, handlers="rerun"), cfg(source="slow", kill=True, handlers="rerun", jobType="fullsync"),
        cfg(source="slow", kill=True, handlers="logrerun", jobType="fullsync", sink="dataset"),
        cfg(source="slow", kill=True, handlers="logrerun"), cfg(source="slow", kill=True, handlers="log", jobType="fullsync"),
        cfg(source="union", trigger="onchange", handlers="log", transform="js"),
    ]


def corpus_cases():
    return []


def gen_raffle(rng, count):
    out = []
    for _ in range(count):
        nid = rng.range(1, 5)
        jobs = [(rng.below(nid), rng.chance(1, 3)) for _ in range(rng.range(2, 8))]
        out.append(raffle(rng.range(1, 3), rng.range(1, 4), jobs, rng.range(4, 12), rng.range(20, 60)))
    return out


def gen_barrier(rng, count, rounds):
    out = []
    for _ in range(count):
        if rng.chance(1, 3):
            kind = rng.chance(1, 2)
            out.append(barrier(rng.range(1, 4), rng.range(1, 4), [kind] * rng.range(3, 7), max(rounds // 8, 1000), True))
            continue
        g = rng.range(2, 8)
        out.append(barrier(rng.range(2, 5), rng.range(2, 10), [rng.chance(1, 3) for _ in range(g)], rounds))
    return out


def gen(rng, tier):
    if tier == "thorough":
        return list(lattice()) + gen_raffle(rng, 40) + gen_barrier(rng, 6, 100000)
    lat = list(lattice())
    n = 45 if tier == "quick" else 200
    out = [lat[rng.below(len(lat))] for _ in range(n)]
    return out + gen_raffle(rng, 12 if tier == "quick" else 40) + gen_barrier(rng, 1 if tier == "quick" else 4, 10000)


DIED = {"accepted": False, "live": "died", "result": "none", "stored": "none", "ticket": False, "log": [], "finalF": -1,
        "finalI": -1, "running": -1, "hist": [], "badAcct": -1, "rounds": 0}


def run(binp, cases):
    # the driver answers in case order and the harness watchdog wants to see progress: the raffle / barrier cases (run first,
    # alone) are put in front, the configuration cases (children, 8 at a time) follow; the answers are put back in place
    order = [i for i, c in enumerate(cases) if c["kind"] != "cfg"] + [i for i, c in enumerate(cases) if c["kind"] == "cfg"]
    got = vlib.run_driver(binp, [cases[i] for i in order], died_obs=DIED, timeout_per_case=10)
    obs = [None] * len(cases)
    for i, o in zip(order, got):
        obs[i] = o
    return obs


LIVE = {"alive": 0, "died": 1, "hang": 2}
RES = {"success": 0, "failure": 1, "kill": 2, "none": 3}


def term(c, o):
    if c["kind"] == "cfg":
        cf = "{| c_src := %s; c_tr := %s; c_snk := %s; c_trig := %s; c_jt := %s; c_h := %s; c_kill := %s |}" % (
            COQ[c["source"]], COQ[c["transform"]], COQ_SNK[c["sink"]], COQ[c["trigger"]], COQ[c["jobType"]],
            COQ_H[c["handlers"]], vlib.coq_bool(c["kill"]))
        capF = capI = 0
    else:
        cf = "{| c_src := SDataset; c_tr := TNone; c_snk := KDevNull; c_trig := GCron; c_jt := JIncr; c_h := HNone; c_kill := false |}"
        capF, capI = c["capF"], c["capI"]
    log, gauge = [], []
    for e in o.get("log") or []:
        if e[0] == 0:
            log.append("OBorrow %d %s" % (e[1], vlib.coq_bool(e[2] == 1)))
        elif e[0] == 1:
            log.append("OReturn %d" % e[1])
        else:
            gauge.append("(%s, %s)" % (vlib.coq_bool(e[1] == 1), vlib.zlit(e[2])))
    reqs = vlib.coq_list([vlib.coq_bool(x) for x in c.get("reqs", [])])
    hist = vlib.coq_list([vlib.zlit(x) for x in o.get("hist") or []])
    return ("{| t_distinct := %s; t_barrier := %s; t_reqs := %s; t_rounds := %d; ob_rounds := %d; ob_hist := %s; ob_badacct := %s; t_iscfg := %s; t_c := %s; t_capF := %d; t_capI := %d; ob_outcome := %d; ob_accepted := %s; ob_live := %d; "
            "ob_result := %d; ob_stored := %d; ob_ticket := %s; ob_log := %s; ob_gauge := %s; ob_finalF := %s; ob_finalI := %s; "
            "ob_running := %s |}" % (
                vlib.coq_bool(c.get("distinct", False)), vlib.coq_bool(c["kind"] == "barrier"), reqs, c.get("rounds", 0), o.get("rounds", 0) if isinstance(o.get("rounds", 0), int) else 0, hist, vlib.zlit(o.get("badAcct", -1)),
                vlib.coq_bool(c["kind"] == "cfg"), cf, capF, capI, 0 if o.get("outcome") == "ok" else 1,
                vlib.coq_bool(o.get("accepted", False)), LIVE.get(o.get("live"), 9), RES.get(o.get("result"), 9),
                RES.get(o.get("stored"), 9), vlib.coq_bool(o.get("ticket", False)), vlib.coq_list(log), vlib.coq_list(gauge),
                vlib.zlit(o.get("finalF", -1)), vlib.zlit(o.get("finalI", -1)), vlib.zlit(o.get("running", -1))))


def predict_text(c, o):
    if c["kind"] == "barrier":
        return "barrier case: every round must grant exactly grant_count (= 1 with non-empty pools) tickets for the id"
    if c["kind"] != "cfg":
        return "raffle case: the observed log must be accepted by Model/Raffle.v (replay)"
    t = term(c, o)
    ok, out, _ = vlib.coq_eval("C11p", [CHECK_MODULE],
                               "Definition c : tcase := %s.\nEval vm_compute in (run_job jcurrent (t_c c), run_job jfixed (t_c c)).\n" % t)
    return out.strip()


def has_log(c):
    if c["handlers"] in ("log", "logrerun"):
        return True
    return c["handlers"] == "Log" and c["trigger"] == "cron"


def racy(c):
    return has_log(c) and c["transform"] == "jspar" and c["jobType"] == "incremental" and not c["kill"] and not (
        c["handlers"] == "bad" and c["trigger"] == "cron")


def attribute(c, o):
    if c["kind"] != "cfg" or not o.get("accepted"):
        return None
    d = o.get("detail", "")
    if racy(c) and "injected panic" not in d and "makeslice" not in d and not ("stack overflow" in d and "EndStoreContext" not in d):
        if "EndStoreContext" in d:
            return "F11a"
        return "F11e"      # shared JS runtime in the parallel workers: whatever went wrong in this run
    if o.get("live") == "alive":
        return None
    if "stack overflow" in d and "EndStoreContext" in d and c["transform"] != "none" and has_log(c):
        return "F11a"
    if "nil pointer" in d and c["trigger"] == "onchange" and has_log(c):
        return "F11b"
    if "injected panic" in d and c["transform"] == "panic":
        return "F11c"      # only the panic the harness injected is explained by F11c; any other panic is a new defect
    if "makeslice" in d and c["transform"] == "jspar" and c["jobType"] == "incremental":
        return "F11d"
    return None


def size(c):
    if c["kind"] == "barrier":
        return 500 + len(c["reqs"])
    return 1 if c["kind"] == "cfg" else 1000 + len(c["jobs"]) * c["workers"] * c["iters"]


def classify(c, o):
    if c["kind"] == "cfg":
        return "interesting" if (has_log(c) or o.get("result") != "success" or not o.get("accepted")) else None
    if c["kind"] == "barrier":
        return "simultaneous"
    starts = sum(1 for e in o.get("log") or [] if e[0] == 0)
    return "contended" if starts < c["workers"] * c["iters"] else None


def tags(c, o):
    if c["kind"] == "barrier":
        return ["kind=barrier", "requesters=%d" % len(c["reqs"]), "rounds=%d" % c["rounds"]]
    if c["kind"] == "raffle":
        return ["kind=raffle", "capF=%d" % c["capF"], "capI=%d" % c["capI"]]
    return ["kind=cfg", "source=" + c["source"], "transform=" + c["transform"], "sink=" + c["sink"], "trigger=" + c["trigger"],
            "jobType=" + c["jobType"], "handlers=" + c["handlers"], "kill=%s" % c["kill"], "accepted=%s" % o.get("accepted"),
            "live=%s" % o.get("live"), "result=%s" % o.get("result")]
