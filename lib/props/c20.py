"""C20 - a backup contains everything committed before it ran; a foreign location is never written."""
import itertools
import os

import vlib

ID = "C20"
PROP_FILE = "Properties/C20.v"
CHECK_MODULE = "Check.C20Check"
CASE_TYPE = "tcase"
DRIVER_PKG = "cmd/verif_c20"
SHARD = 150

# order = order of the lists returned by C20Check.evaluate
VARIANTS = [
    {"name": "current(reopen=os.Open read-only, cursor read from datahub-backupManager.lastseen)", "findings": ["F20a", "F20b"]},
    {"name": "append_only(reopen=append, cursor read from datahub-backupManager.lastseen)", "findings": ["F20b"]},
    {"name": "name_only(reopen=os.Open read-only, cursor read from datahub-backup.lastseen)", "findings": ["F20a"]},
    {"name": "fixed(reopen=append, cursor read from datahub-backup.lastseen)", "findings": []},
]
RULE = ("case = history over {write one entity (dataset ds0|ds1, entity e0..e5, value, deleted flag) | backup run "
        "(BackupManager.Run) | hub restart (Store.Close + NewStore + NewBackupManager) | the environment replaces the "
        "location's DATAHUB_BACKUPID by a given byte string | removes it} on a fresh store whose own id file is hub-generated "
        "or operator-assigned, and a backup location that is empty or pre-filled (id file + somebody's files); ids from an "
        "adversarial alphabet (generated-looking numbers, labels, whitespace/newline variants, prefixes, leading zeros, empty); "
        "quick = hand-written witnesses + 170 PRNG histories of <= 11 steps with <= 4 backup runs; thorough = every "
        "step-shape sequence over {w,b,r} of length <= 6 with PRNG payloads + 690 longer PRNG histories; non-trivial = at "
        "least two returned backup runs with a commit in between (the incremental path), or a run attempted while the "
        "location carries a different id; distinct = distinct histories")
TRUSTED = [
    "Badger (hypotheses of every C20 theorem, Model/Backup.v badger_backup / badger_load / latest): DB.Backup(w, since) "
    "sends every entry with version > since and returns the highest version sent (0 if none, (0, err) if a write fails); "
    "DB.Load replays a stream so that reads return the highest version per key regardless of order/duplicates; committed "
    "entries (including delete markers) are still in the LSM tree when the next incremental run reads them - Badger's own "
    "compaction dropping a delete marker between two runs is outside the model",
    "one model entry stands for everything one hub operation commits (several Badger transactions); backups do not run "
    "concurrently with writes in the model; the store version after each step (DB.MaxVersion) is an input of the model "
    "taken from the run, the theorems quantify over all stamps",
    "OS: os.Open = read-only descriptor whose writes fail, os.Create = truncate, append = O_APPEND; files are whole values "
    "(no torn writes, no crash in the middle of a run, no disk-full)",
    "hub read APIs are functions of the Badger content (checked per case: every read of the restored hub is compared "
    "with the source's answer captured when the backup run started)",
]
ASSUMPTIONS = [
    "native backup mode; the backup location starts empty (or is a complete foreign location: id file + files)",
    "backup runs do not overlap writes, a run is not interrupted (crash mid-run and partially written files are not modelled)",
    "the store's own DATAHUB_BACKUPID file exists and does not change (Store.Open writes it once)",
]
EXHAUSTIVE = {"thorough": False}


def W(ds, k, v, dele=False):
    return {"op": "w", "ds": ds, "k": k, "v": v, "del": dele}


B = {"op": "b"}
R = {"op": "r"}


def C(*post):
    """a native run during which a writer commits `post` (forced schedule, see the driver)"""
    return {"op": "c", "post": [dict(w) for w in post]}


D = {"op": "d"}   # Store.Delete() = delete all datasets


def K(ds):
    """DsManager.DeleteDataset("ds<ds>") (no-op when it does not exist)"""
    return {"op": "k", "ds": ds}


DROP_ID = 1000
F = {"op": "f"}   # rsync-mode run whose rsync exits non-zero


def I(idstr):
    return {"op": "i", "id": idstr}


X = {"op": "x"}

# storage ids: hub-generated look-alikes, operator-assigned labels, ids that differ only in whitespace / a trailing
# newline / leading zeros, prefixes of one another, empty
IDS = ["1790000000000000001", "1790000000000000002", "17900000000000000010", "hub-a", "hub-b", "hub-a\n", " hub-a",
       "hub", "", "0", "00", "4711", "4711\n"]


def mk(ops, foreign=False, sid=None, locid0="4711", rsync=False, bsl="", bslid=""):
    """sid None = the hub generates its DATAHUB_BACKUPID; foreign = location pre-filled with id file locid0 + files;
    bsl = configuration BACKUP_SOURCE_LOCATION: "" unset | "same" the store dir | "empty" an empty dir | "other" another
    store's directory whose id file holds bslid.  The pinned validLocation reads the id of the OPEN store, so the model
    does not depend on it (native mode)."""
    return {"ops": [dict(o) for o in ops], "foreign": foreign, "sid": sid, "locid0": locid0 if foreign else "",
            "rsync": rsync, "bsl": bsl, "bslid": bslid if bsl == "other" else ""}


def burst(rng_or_none, n, ds=0):
    """n single-entity batches (about 3.7 Badger versions each once the dataset exists): 40 push the store version
    over 127, 72 over 255, 4600 over 16383"""
    return [W(ds, i % 6, (i * 5 + 1) % 8) for i in range(n)]


def witness_cases():
    return [
        mk([W(0, 1, 3), B, W(0, 2, 4), B]),                      # F20a: the DESIGN witness
        mk([W(0, 1, 3), B, R]),                                   # F20b: cursor after restart
        mk([W(0, 1, 3), B, R, W(1, 2, 4), B, B]),
        mk([W(0, 1, 3), B, B, R, B]),                             # nothing new: Backup returns 0
        mk([W(0, 1, 3), B, W(0, 1, 5), R, W(0, 1, 3, True), B, W(1, 0, 0), B, R, B]),
        mk([W(0, 1, 3)]),                                         # no backup at all
        mk([B]),
        mk([W(0, 1, 3), B, W(0, 1, 3), B], foreign=True),
        mk([B, R, B, W(1, 1, 1), B], foreign=True),
        # the location's id file is replaced / emptied / removed between runs of ONE process and across restarts
        mk([W(0, 1, 3), B, I("1790000000000000002"), B, W(0, 2, 4), R, B, X, B]),
        mk([W(0, 1, 3), B, I(""), W(0, 2, 4), B, R, B, X, R, B]),
        mk([W(0, 1, 3), B, X, W(0, 2, 4), B]),
        # operator-assigned ids: labels, whitespace, prefixes, empty, leading zeros
        mk([B, R, W(0, 1, 3), B], foreign=True, sid="hub-b", locid0="hub-a"),
        mk([W(0, 1, 3), B, R, B, I("hub-b"), B, R, B], sid="hub-a"),
        mk([W(0, 1, 3), B, I("hub-a\n"), B, I(" hub-a"), R, B, I("hub"), R, B, I("hub-a"), R, B], sid="hub-a"),
        mk([B, R, B], foreign=True, sid="0", locid0="00"),
        mk([B, R, B], foreign=True, sid="", locid0="0"),
        mk([W(1, 0, 1), B, R, W(1, 0, 2), B], foreign=True, sid="", locid0=""),
        mk([B], foreign=True, sid="4711\n", locid0="4711"),
        # BACKUP_SOURCE_LOCATION left over from the OLD store the pre-filled location belongs to / empty dir / same dir
        mk([W(0, 1, 3), B, R, B, W(0, 2, 2), B], foreign=True, locid0="4711", bsl="other", bslid="4711"),
        mk([B, B], foreign=True, sid="hub-b", locid0="hub-a", bsl="other", bslid="hub-a"),
        mk([W(0, 1, 3), B, W(0, 2, 4), B, R, B], bsl="other", bslid="4711"),
        mk([W(0, 1, 3), B, W(0, 2, 4), R, B], bsl="empty"),
        mk([W(0, 1, 3), B, I("4711"), B, R, B], bsl="other", bslid="4711"),
        mk([W(0, 1, 3), B, W(0, 2, 4), B], bsl="same"),
        # a writer commits while a run is in progress; then a quiet run
        mk([W(0, 1, 3), C(W(0, 2, 4), W(1, 0, 1)), B]),
        mk([W(0, 1, 3), B, W(0, 1, 4), C(W(0, 2, 4)), R, C(W(1, 3, 3), W(0, 2, 5, True)), B]),
        # delete all datasets between runs: the emptied store is a different store
        mk([W(0, 1, 3), B, D, W(1, 2, 4), B]),
        mk([W(0, 1, 3), B, W(0, 2, 2), D, W(1, 2, 4), B, R, B, B]),
        # rsync mode, with a failing rsync followed by good runs
        mk([W(0, 1, 3), F, W(0, 2, 4), B], rsync=True),
        mk([W(0, 1, 3), B, W(0, 2, 4), F, B, R, F, W(1, 1, 1), B, B], rsync=True),
        mk([W(0, 1, 3), B, W(0, 2, 4), W(1, 1, 1), B], rsync=True),          # two good runs in one hub life
        # a dataset is deleted after a run, the hub restarts before the next run
        mk([W(0, 1, 3), W(1, 1, 1), B, K(0), R, B]),
        mk([W(0, 1, 3), W(1, 0, 2), B, R, K(1), R, B]),
        mk([W(0, 1, 3), B, K(0), W(0, 2, 2), R, B, K(0), K(1), R, R, B]),
        # store version beyond 127 / 255 at the time of a run, then restart, write, run
        mk(burst(None, 40) + [B, R, W(1, 1, 1), B]),
        mk(burst(None, 72) + [B, R, W(1, 1, 1), W(1, 2, 2), B]),
        mk(burst(None, 40) + [B, R, W(1, 1, 1), W(1, 2, 2), B, B]),
    ]


def corpus_cases():
    return []


def rand_w(rng):
    return W(rng.below(2), rng.below(4), rng.below(8), rng.chance(1, 6))


def rand_id(rng, sid):
    """an id for the location: adversarial w.r.t. the store's id when that is known"""
    if sid is not None and rng.chance(1, 4):
        return sid
    if sid is not None and rng.chance(1, 3):
        return rng.choice([sid + "\n", " " + sid, sid[:-1], sid + "0", "0" + sid])
    return rng.choice(IDS)


def rand_hist(rng, maxlen, maxb=4, env=0, sid=None):
    """env = chance (in tenths) that a step is an environment change of the location's id file"""
    n = rng.range(2, maxlen)
    ops = []
    nb = 0
    for _ in range(n):
        if env and rng.below(10) < env:
            ops.append(I(rand_id(rng, sid)) if rng.chance(3, 4) else X)
            continue
        x = rng.below(10)
        if x < 5:
            ops.append(rand_w(rng))
        elif x < 8 and nb < maxb:
            ops.append(B)
            nb += 1
        elif x >= 8:
            ops.append(R)
        else:
            ops.append(rand_w(rng))
    return ops


def gen(rng, tier):
    out = []
    def idcases(n_env, n_pre):
        for _ in range(n_env):      # id file changed under a running / restarted hub
            sid = rng.choice([None, None] + IDS)
            ops = rand_hist(rng, 10, env=2, sid=sid)
            if not any(o["op"] == "b" for o in ops):
                ops.append(B)
            bsl = rng.choice(["", "", "", "same", "empty", "other"])
            out.append(mk(ops, sid=sid, bsl=bsl, bslid=rng.choice(IDS)))
        for _ in range(n_pre):      # pre-filled location, ids from the adversarial alphabet
            sid = rng.choice([None] + IDS)
            loc0 = rand_id(rng, sid)
            bsl = rng.choice(["", "", "same", "empty", "other", "other"])
            bslid = loc0 if rng.chance(2, 3) else rng.choice(IDS)   # mostly: the store the location belongs to
            out.append(mk(rand_hist(rng, 6, env=1, sid=sid) + [B, B], foreign=True, sid=sid, locid0=loc0,
                          bsl=bsl, bslid=bslid))
    def drops(n):                   # dataset deletes, mostly followed by a restart before the next run
        for _ in range(n):
            ops = []
            for o in rand_hist(rng, 10):
                ops.append(o)
                if o["op"] == "b" and rng.chance(1, 2):
                    ops.append(K(rng.below(2)))
                    if rng.chance(2, 3):
                        ops.append(R)
                elif o["op"] == "r" and rng.chance(1, 3):
                    ops += [K(rng.below(2)), R]
            ops.append(B)
            out.append(mk(ops))

    def special(n_conc, n_del, n_rsync, n_burst):
        for _ in range(n_conc):     # some runs have a writer committing during the run
            ops = rand_hist(rng, 9)
            ops = [C(*[rand_w(rng) for _ in range(rng.range(1, 3))]) if (o["op"] == "b" and rng.chance(2, 3)) else o
                   for o in ops]
            if not any(o["op"] == "c" for o in ops):
                ops.append(C(rand_w(rng)))
            if rng.chance(2, 3):
                ops.append(B)       # a quiet run at the end: the restored hub must then be complete
            out.append(mk(ops))
        for _ in range(n_del):      # Store.Delete after at least one run, no environment steps
            pre = rand_hist(rng, 5) + [B] + rand_hist(rng, 3)
            post = rand_hist(rng, 6)
            if not any(o["op"] == "b" for o in post):
                post.append(B)
            # Store.Delete keeps the namespace maps in memory without writing them to the new database, so after
            # a restart of the emptied hub every write fails ("Could not get prefix for unknown URI expansion"):
            # no hub write after the first restart that follows the delete (runs and restarts only)
            seen_r = False
            post2 = []
            for o in post:
                seen_r = seen_r or o["op"] == "r"
                post2.append(B if (seen_r and o["op"] == "w") else o)
            out.append(mk(pre + [D] + post2))
        for _ in range(n_rsync):    # rsync mode with failing runs
            ops = [F if (o["op"] == "b" and rng.chance(1, 3)) else o for o in rand_hist(rng, 9)]
            if not any(o["op"] == "f" for o in ops):
                ops.insert(rng.below(len(ops) + 1), F)
            ops += [rand_w(rng), B]
            out.append(mk(ops, rsync=True))
        for _ in range(n_burst):    # version boundaries of the cursor encoding
            n = rng.choice([31, 33, 36, 40, 66, 70, 75])
            tail = rand_hist(rng, 5)
            out.append(mk(burst(rng, n, rng.below(2)) + [B, R, rand_w(rng), B] + tail))
    if tier == "quick":
        for _ in range(80):
            out.append(mk(rand_hist(rng, 11), sid=rng.choice([None, None, None] + IDS)))
        idcases(40, 20)
        special(14, 10, 10, 4)
        drops(14)
        return out
    if tier == "search":
        for _ in range(120):
            out.append(mk(rand_hist(rng, 9)))
        idcases(60, 40)
        special(30, 20, 20, 8)
        drops(30)
        return out
    # thorough: every shape over {w,b,r} up to length 6, PRNG payloads
    for n in range(1, 7):
        for shape in itertools.product("wbr", repeat=n):
            if shape.count("b") > 4:
                continue
            ops = [rand_w(rng) if s == "w" else (B if s == "b" else R) for s in shape]
            out.append(mk(ops))
    for _ in range(200):
        out.append(mk(rand_hist(rng, 14)))
    idcases(300, 150)
    special(120, 80, 60, 30)
    drops(120)
    # one history that takes the store version past 16383 (2-byte varint boundary; about 4600 single-entity batches)
    out.append(mk(burst(rng, 4600) + [B, R, W(1, 1, 1), B]))
    return out


DIED = {"maxv": [], "cursor": [], "disk": [], "bres": [], "grew": [], "snap": None, "hassnap": False,
        "restored": None, "hasrest": False, "richeq": False, "raweq": False, "sid": "", "locid": [], "touched": [], "sidv": [], "running": [], "diskraw": [], "post": []}


def run(binp, cases):
    """one driver process per 200 cases: bounds the memory of a driver (every store open maps a 128 MB memtable).
    A driver PROCESS that dies (Go runtime fatal error under resource exhaustion on an overloaded machine: the driver
    limits its own address space, and thread creation can fail) takes down whatever case was in flight, so a case
    reported as died is executed again alone in a fresh driver, twice at most; a crash that belongs to the case
    reproduces and is then reported as died."""
    env = {"VERIF_C20_WORKERS": os.environ.get("VERIF_C20_WORKERS", "2")}
    obs = []
    for i in range(0, len(cases), 200):
        obs.extend(vlib.run_driver(binp, cases[i:i + 200], died_obs=DIED, env=env))
    env1 = dict(env, VERIF_C20_WORKERS="1")
    for i, o in enumerate(obs):
        tries = 0
        while o.get("outcome") == "died" and tries < 2:
            tries += 1
            o = vlib.run_driver(binp, [cases[i]], died_obs=DIED, env=env1)[0]
            o["retried"] = tries
        obs[i] = o
    return obs


def rows(l):
    # a value the driver could not read back (namespace lost in the restored hub) is reported as -1
    return vlib.coq_list(["(%d, %d, %d, %s)" % (r[0], r[1], r[2] if r[2] >= 0 else 999999, vlib.coq_bool(bool(r[3])))
                          for r in l])


def opt(present, txt):
    return "(Some %s)" % txt if present else "None"


def bts(x):
    """byte string -> Coq list N"""
    return vlib.coq_list(["%d" % b for b in x.encode("utf-8")])


def optb(x):
    return "None" if x is None else "(Some %s)" % bts(x)


def term(c, o):
    ops = c["ops"]
    good = o.get("outcome") == "ok" and len(o.get("maxv") or []) == len(ops) + 1
    maxv = o["maxv"] if good else [0] * (len(ops) + 1)
    t_ops = []
    for i, op in enumerate(ops):
        m = maxv[i + 1]
        if op["op"] == "w":
            t_ops.append("OWrite %d %d %d %d %s" % (m, op["ds"], op["k"], op["v"], vlib.coq_bool(op.get("del", False))))
        elif op["op"] == "k":
            # deleting a dataset is a commit like any other: an entry under the reserved id DROP_ID of that dataset
            t_ops.append("OWrite %d %d %d 0 true" % (m, op["ds"], DROP_ID))
        elif op["op"] in "bcf" and c.get("rsync"):
            t_ops.append("OBackupRsync %s" % vlib.coq_bool(op["op"] != "f"))
        elif op["op"] == "c" and good and i < len(o["post"]) and o["post"][i]:
            # the writes the concurrent writer committed during this run (driver: Post[i] belongs to op i)
            ws = ["(%d, %d, %d, %d, %s)" % (st, w["ds"], w["k"], w["v"], vlib.coq_bool(w.get("del", False)))
                  for st, w in zip(o["post"][i], op["post"])]
            t_ops.append("OBackupConc %s" % vlib.coq_list(ws))
        elif op["op"] in "bcf":
            t_ops.append("OBackup")
        elif op["op"] == "d":
            t_ops.append("ODeleteAll %d %s" % (m, bts(o["sidv"][i + 1]) if good else "[]"))
        elif op["op"] == "i":
            t_ops.append("OSetLocId %s" % bts(op["id"]))
        elif op["op"] == "x":
            t_ops.append("ODelLocId")
        else:
            t_ops.append("ORestart %d" % m)
    steps = []
    rawl = []
    if good:
        for i in range(1, len(ops) + 1):
            d = o["disk"][i]
            steps.append("{| x_cursor := %d; x_disk := %s; x_res := %d; x_grew := %s; x_locid := %s; x_touched := %s; "
                         "x_sid := %s; x_running := %s |}" % (
                             o["cursor"][i], opt(d >= 0, "%d" % max(d, 0)), o["bres"][i], vlib.coq_bool(o["grew"][i]),
                             optb(o["locid"][i]), vlib.coq_bool(o["touched"][i]), bts(o["sidv"][i]),
                             vlib.coq_bool(o["running"][i])))
            raw = o["diskraw"][i]
            rawl.append("None" if raw is None else "(Some %s)" % vlib.coq_list(["%d" % b for b in raw]))
    return ("({| c_m0 := %d; c_ops := %s; c_sid := %s; c_rsync := %s; c_foreign := %s; c_locid0 := %s; o_cursor0 := %d; "
            "o_locid0 := %s; o_steps := %s; o_diskraw := %s; o_snap := %s; o_restored := %s; o_rich_eq := %s; "
            "o_raw_eq := %s |})%%N" % (
                maxv[0], vlib.coq_list(t_ops), bts(o.get("sid", "") if good else ""), vlib.coq_bool(c.get("rsync", False)),
                vlib.coq_bool(c.get("foreign", False)),
                bts(c.get("locid0", "") or ""), o["cursor"][0] if good else 0,
                optb(o["locid"][0]) if good else "None", vlib.coq_list(steps), vlib.coq_list(rawl),
                opt(o.get("hassnap"), rows(o.get("snap") or [])),
                opt(o.get("hasrest"), rows(o.get("restored") or [])),
                vlib.coq_bool(o.get("richeq", False)), vlib.coq_bool(o.get("raweq", False))))


def predict_text(c, o):
    t = term(c, o)
    body = ("Definition c : tcase := %s.\n"
            "Definition show (v : variant) := let p := predict v c in (p_cursor0 p, p_steps p, option_map listing (p_snap p), "
            "option_map listing (p_file p)).\n"
            "Eval vm_compute in (show current).\nEval vm_compute in (show fixed).\n" % t)
    ok, out, _ = vlib.coq_eval("C20p", [CHECK_MODULE, "Model.Backup"], body)
    return out.strip()


def attribute(c, o):
    """signature of the recorded findings: a returned run that found datahub-backup.kv already there and left it
    unchanged although the store had moved past the cursor (F20a).  F20b alone never breaks the restore."""
    if c.get("foreign") or o.get("outcome") != "ok":
        return None
    for i, op in enumerate(c["ops"]):   # a write into a foreign location is never one of the recorded findings
        if op["op"] not in "ix" and o["locid"][i] is not None and o["locid"][i] != o["sid"] and (
                o["touched"][i + 1] or o["bres"][i + 1] == 1):
            return None
    seen_file = False
    for i, op in enumerate(c["ops"]):
        if op["op"] != "b" or o["bres"][i + 1] != 1:
            continue
        if seen_file and not o["grew"][i + 1] and o["maxv"][i + 1] > o["cursor"][i]:
            return "F20a"
        seen_file = True
    return None


def size(c):
    return len(c["ops"]) * 10 + sum(1 for x in c["ops"] if x["op"] == "b")


def classify(c, o):
    if o.get("outcome") != "ok":
        return None
    for i, op in enumerate(c["ops"]):   # a run attempted while the location carries a different id
        if op["op"] == "b" and o["locid"][i] is not None and o["locid"][i] != o["sid"]:
            return "foreign-run"
    if c.get("foreign"):
        return None
    last = None
    for i, op in enumerate(c["ops"]):
        if op["op"] == "b" and o["bres"][i + 1] == 1:
            if last is not None and o["maxv"][i + 1] > last:
                return "incremental"
            last = o["maxv"][i + 1]
    return None


def tags(c, o):
    nb = sum(1 for x in c["ops"] if x["op"] == "b")
    nr = sum(1 for x in c["ops"] if x["op"] == "r")
    ne = sum(1 for x in c["ops"] if x["op"] in "ix")
    sid = c.get("sid")
    cfgtag = "backup-source-location=" + (c.get("bsl") or "unset")
    kind = "generated" if sid is None else ("numeric" if sid.isdigit() else ("empty" if sid == "" else "label/whitespace"))
    extra = ["re-executed-after-driver-crash"] if o.get("retried") else []
    return extra + ["backups=%d" % nb, "restarts=%d" % min(nr, 3), "prefilled=%s" % bool(c.get("foreign")),
            "idfile-changes=%d" % min(ne, 3), "store-id=" + kind, cfgtag,
            "outcome=" + str(o.get("outcome")), "len=%d" % min(len(c["ops"]), 12),
            "restore=" + ("none" if not o.get("hasrest") else ("equal" if o.get("richeq") else "differs"))]
