"""C14 - stopping and starting the hub is observably a no-op."""
import json
import re

import vlib

ID = "C14"
PROP_FILE = "Properties/C14.v"
CHECK_MODULE = "Check.C14Check"
CASE_TYPE = "tcase"
DRIVER_PKG = "cmd/verif_c14"
SHARD = 12

# variant index bits (most significant first): acl, init, prov, fs, delay; 0 = pinned, 1 = repaired
FLAG_FINDINGS = ["F14a", "F14b", "F14c", "F14d", "F14e"]
FLAG_NAMES = [("AclFileClients", "AclFileAcls"), ("InitAborts", "InitIndependent"), ("ProvRawKey", "ProvLowerKey"),
              ("FsVolatile", "FsPersisted"), ("DelayRescale", "DelayStable")]
VARIANTS = []
for _i in range(32):
    _bits = [(_i >> (4 - k)) & 1 for k in range(5)]
    VARIANTS.append({"name": ("current(" if _i == 0 else "fixed(" if _i == 31 else "mixed(") +
                     ",".join(FLAG_NAMES[k][_bits[k]] for k in range(5)) + ")",
                     "findings": [FLAG_FINDINGS[k] for k in range(5) if not _bits[k]]})

RULE = ("cases = mixed histories (dataset create [plain / proxy / virtual, with and without public namespaces] / delete / rename / public namespaces, entity batches with references and deletes, the "
        "HTTP full-sync protocol, job add/pause/resume/delete/run of a dataset-to-dataset copy job, client registration and ACLs, "
        "login providers) with restart ops after every op, at random positions, at one position, or - one case per position - at every "
        "position of one history; each is also run without its "
        "restarts; a case is non-trivial when a restart happens after at least two state-changing ops of two different "
        "subsystems; distinct = distinct op lists")
TRUSTED = [
    "hub-level driver harness/C14 (package jobs + two read-only accessors in package server): builds store, dataset manager, provider "
    "manager, security core, token providers, runner and scheduler in the order of NewDatahubInstance, without the web layer; its "
    "`post` replicates the full-sync protocol of web.datasetHandler.processEntities around Dataset.StoreEntities; jobs are run "
    "synchronously through job.Run instead of jobrunner.Now; the node key pair is provisioned (2048 bit) instead of generated",
    "Python canonicaliser of the snapshots (lib/props/c14.py): projection to integer rows for the model comparison; the "
    "complete snapshots (core.Dataset contents, point reads, relation queries, contexts, continuation tokens, raw job JSON, "
    "URI index) are compared before/after and with/without restarts as JSON values and enter the Coq record as booleans",
    "Badger: a committed update is durable; Sequence lease/Release as modelled (seq_next / seq_stop / seq_open)",
    "entity alphabet of the generator (one 2-digit property, at most one reference, deleted flag, no in-batch duplicates) on "
    "which the write-time equality does not depend on the data-layer flags (C01/C02 cover those)",
]
ASSUMPTIONS = [
    "restarts happen at quiescent points (no request, job run or lease timer in flight); crash restarts are modelled and proved "
    "safe (no id reuse) but not driven (C04)",
    "job ids, dataset names, client names and provider names range over the driver's small alphabets; batch size of the copy job "
    "exceeds the number of changes (one page per run); full-sync lease timeouts do not fire during a case",
]

CLIENTS = ["a", "b", "c"]
SYSNS = {"http://data.mimiro.io/core/dataset/": 9000, "http://data.mimiro.io/core/": 9001,
         "http://www.w3.org/1999/02/22-rdf-syntax-ns#": 9002}
FSID = {"": 0, "x": 1, "y": 2}
PROV_NAMES = {0: "Pa", 1: "Pb", 10: "pa", 11: "pb"}
PROV_CODES = {v: k for k, v in PROV_NAMES.items()}
RES = {"ok": "ROk", "err": "RErr", "conflict": "RConflict", "gone": "RGone", "nojob": "RNoJob", "failed": "RFailed"}


# ------------------------------------------------------------------------------------------------ cases

def op(o, **kw):
    d = {"op": o}
    d.update(kw)
    return d


R = op("restart")


def case(ops, probe=None):
    ents = set()
    for o in ops:
        if o["op"] == "addjob":
            o.setdefault("trig", -1)
        for e in o.get("es", []):
            ents.add(e[0])
            if e[2] >= 0:
                ents.add(e[2])
    return {"ops": ops, "probe": sorted(ents) if probe is None else probe}


def witness_cases():
    return [
        # F14a: delete-ACL writes the client registry into acls.json
        case([op("reg", c="a"), op("setacl", c="a", acl=[0]), op("reg", c="b"), op("setacl", c="b", acl=[6]),
              op("delacl", c="b"), R, op("setacl", c="b", acl=[2])]),
        # F14b: no clients.json => acls.json is not read
        case([op("setacl", c="a", acl=[0, 5]), R]),
        # ACLs of a subject that never registers (an external token provider's subject) next to a registered client
        case([op("reg", c="a"), op("setacl", c="a", acl=[0]), op("setacl", c="b", acl=[6, 3]), R, op("setacl", c="c", acl=[8]), R]),
        # F14c: live provider map keyed by lower-cased name, stored objects by raw name
        case([op("addprov", name="Pa", user="u1"), op("delprov", name="pa"), R]),
        case([op("addprov", name="pa", user="u1"), op("addprov", name="Pa", user="u2"), R, op("delprov", name="pa"), R]),
        # a provider with an upper-case letter must stay resolvable by the lower-cased name its consumers use
        case([op("addprov", name="Pb", user="u2"), op("addprov", name="pa", user="u1"), R, op("addprov", name="Pa", user="u3"), R]),
        # the target of a reference that arrived on a deleted version of a known id gets its internal id only when the
        # entity is written again (the predecessor's references are asserted then) - directly or through a copy job
        case([op("create", ds=1), op("create", ds=2), op("w", ds=1, es=[[2, 40, 3, 0]]), op("w", ds=1, es=[[3, 17, 1, 1]]), R,
              op("addjob", job=0, src=1, sink=2, paused=False, delay=0), op("run", job=0), R,
              op("w", ds=1, es=[[3, 80, 7, 0]]), R, op("run", job=0), R, op("w", ds=2, es=[[3, 17, 1, 1], [4, 18, 3, 0]]), R]),
        # onchange-only jobs on the real event bus: a write to the monitored dataset runs the job; a deleted or paused job
        # must not run any more - with or without a restart in between; chains (the sink of one job is monitored by the next)
        case([op("create", ds=1), op("create", ds=2), op("create", ds=3),
              op("addjob", job=0, src=1, sink=2, paused=False, delay=0, trig=1),
              op("addjob", job=1, src=2, sink=3, paused=False, delay=0, trig=2),
              op("w", ds=1, es=[[1, 10, -1, 0]]), R, op("deljob", job=0), op("w", ds=1, es=[[2, 11, 1, 0]]), R,
              op("w", ds=2, es=[[3, 12, -1, 0]]), op("pause", job=1), R, op("w", ds=2, es=[[4, 13, -1, 0]]),
              op("resume", job=1), R, op("w", ds=2, es=[[5, 14, -1, 0]]), R]),
        case([op("create", ds=1), op("create", ds=2), op("addjob", job=2, src=1, sink=2, paused=False, delay=0, trig=1),
              op("deljob", job=2), op("w", ds=1, es=[[1, 10, -1, 0]]), R, op("w", ds=1, es=[[2, 10, -1, 0]]),
              op("addjob", job=2, src=1, sink=2, paused=True, delay=0, trig=1), op("w", ds=1, es=[[3, 10, -1, 0]]), R]),
        # one batch into core.Dataset with the meta entities of several datasets changing their public namespaces
        case([op("create", ds=1), op("create", ds=2, pub=[0]), op("create", ds=3), op("pubnsm", sets=[[1, 1], [2, 2, 0], [3]]), R,
              op("pubnsm", sets=[[3, 0], [1]]), R, op("pubnsm", sets=[[2, 1], [4, 0]]), R]),
        # F14d: full-sync state is memory only
        case([op("create", ds=1), op("w", ds=1, es=[[1, 10, -1, 0], [2, 11, 1, 0]]),
              op("fsstart", ds=1, fs="x", es=[[1, 10, -1, 0]]), R, op("fsend", ds=1, fs="x", es=[])]),
        case([op("create", ds=1), op("fsstart", ds=1, fs="x", es=[[1, 10, -1, 0]]), R, op("w", ds=1, es=[[3, 12, -1, 0]])]),
        # F14e: retryDelay rescaled by every AddJob, including Start's
        case([op("create", ds=1), op("create", ds=2), op("addjob", job=0, src=1, sink=2, paused=False, delay=5), R, R,
              op("pause", job=0), R]),
        # unregistering a client that holds ACLs (RegisterClient with Deleted: true), no later ACL write, restart,
        # then the same id registered again: the ACL must stay gone (all subjects are listed, registered or not)
        case([op("reg", c="a"), op("setacl", c="a", acl=[2]), op("reg", c="b"), op("setacl", c="b", acl=[4, 9]),
              op("unreg", c="a"), R, op("reg", c="a"), R, op("unreg", c="b"), op("reg", c="c"), R]),
        case([op("setacl", c="c", acl=[6]), op("reg", c="c"), op("unreg", c="c"), R, op("reg", c="c"), op("setacl", c="b", acl=[1]), R]),
        # proxy and virtual datasets, with and without public namespaces: create, rename, delete, re-create as another
        # kind; the stored record must keep kind and configuration over every restart
        case([op("create", ds=5, kind=1, cfg=7), op("create", ds=6, kind=2, cfg=3), op("create", ds=7, kind=1, cfg=9, pub=[1]),
              R, op("rename", ds=5, to=1), op("rename", ds=6, to=5), R, op("rename", ds=7, to=6), op("w", ds=1, es=[[1, 10, -1, 0]]),
              R, op("delete", ds=1), op("create", ds=1, kind=2, cfg=4, pub=[0]), op("pubns", ds=5, pub=[2]), R,
              op("rename", ds=1, to=7), R]),
        # everything else survives
        case([op("create", ds=1), op("create", ds=2, pub=[1]), op("w", ds=1, es=[[1, 10, -1, 0], [2, 11, 1, 0]]),
              op("addjob", job=0, src=1, sink=2, paused=False, delay=0), op("run", job=0), op("pause", job=0),
              op("reg", c="a"), op("setacl", c="a", acl=[0, 5]), op("addprov", name="pa", user="u1"), R,
              op("w", ds=1, es=[[3, 12, -1, 0]]), op("create", ds=3), op("run", job=0), op("delete", ds=1), R,
              op("create", ds=1), op("w", ds=1, es=[[4, 10, 1, 0]]), op("rename", ds=2, to=4), op("pubns", ds=4, pub=[0, 2]), R]),
    ]


def corpus_cases():
    return []


def gen_history(rng, n, mode):
    """a mixed history; `mode`: 0 = restart after every op, 1 = restart with probability 1/3 after each op, 2 = one restart"""
    ops = []
    have_ds = set()
    have_px = set()
    have_job = set()
    have_acl = set()
    fs_open = {}
    weights = [("create", 6), ("w", 9), ("delete", 2), ("rename", 3), ("pubns", 2), ("pubnsm", 2), ("fs", 4),
               ("addjob", 4), ("pause", 2), ("resume", 2), ("deljob", 1), ("run", 5),
               ("reg", 3), ("unreg", 3), ("setacl", 4), ("delacl", 2), ("addprov", 3), ("delprov", 2)]
    total = sum(w for _, w in weights)

    def pick():
        x = rng.below(total)
        for k, w in weights:
            if x < w:
                return k
            x -= w

    def ents():
        k = rng.range(1, 3)
        ids = list(range(1, 9))
        rng.shuffle(ids)
        out = []
        for e in ids[:k]:
            t = rng.choice([-1, -1, rng.range(1, 8)])
            out.append([e, rng.range(10, 99), t, 1 if rng.chance(1, 6) else 0])
        return out

    def some_px():
        if have_px and rng.chance(7, 8):
            return rng.choice(sorted(have_px))
        return rng.range(5, 7)

    def some_ds():
        if have_ds and rng.chance(7, 8):
            return rng.choice(sorted(have_ds))
        return rng.range(1, 4)

    for _ in range(n):
        k = pick()
        if k == "create":
            if rng.chance(1, 3):
                # proxy / virtual datasets live under their own names (jobs never point at them: no network I/O)
                d = rng.range(5, 7)
                ops.append(op("create", ds=d, pub=rng.choice([[], [], [0], [1, 2]]), kind=rng.range(1, 2), cfg=rng.range(1, 9)))
                have_px.add(d)
            else:
                d = rng.range(1, 4)
                ops.append(op("create", ds=d, pub=rng.choice([[], [], [0], [1, 2]])))
                have_ds.add(d)
        elif k == "w":
            d = some_px() if (have_px and rng.chance(1, 8)) else some_ds()
            ops.append(op("w", ds=d, es=ents()))
        elif k == "delete":
            d = some_px() if (have_px and rng.chance(1, 3)) else some_ds()
            ops.append(op("delete", ds=d))
            have_ds.discard(d)
            have_px.discard(d)
        elif k == "rename":
            if have_px and rng.chance(1, 2):
                d = some_px()
                t = rng.range(5, 7)
                ops.append(op("rename", ds=d, to=t))
                if d in have_px and t not in have_px:
                    have_px.discard(d)
                    have_px.add(t)
            else:
                d = some_ds()
                t = rng.range(1, 4)
                ops.append(op("rename", ds=d, to=t))
                if d in have_ds and t not in have_ds:
                    have_ds.discard(d)
                    have_ds.add(t)
        elif k == "pubns":
            d = some_px() if (have_px and rng.chance(1, 3)) else some_ds()
            ops.append(op("pubns", ds=d, pub=rng.choice([[], [0], [1], [0, 2]])))
        elif k == "pubnsm":
            cand = sorted(have_ds) if len(have_ds) >= 2 else [1, 2, 3, 4]
            rng.shuffle(cand)
            ops.append(op("pubnsm", sets=[[d] + rng.choice([[], [0], [1], [0, 2], [2]]) for d in cand[:rng.range(2, 3)]]))
        elif k == "fs":
            d = some_ds()
            cur = fs_open.get(d)
            what = rng.choice(["fsstart", "fsw", "fsend"]) if cur else rng.choice(["fsstart", "fsstart", "fsend"])
            fid = cur if (cur and rng.chance(5, 6)) else rng.choice(["x", "y"])
            ops.append(op(what, ds=d, fs=fid, es=ents() if rng.chance(3, 4) else []))
            if what == "fsstart":
                fs_open[d] = fid
            elif what == "fsend":
                fs_open.pop(d, None)
        elif k == "addjob":
            j = rng.range(0, 2)
            s = some_ds()
            t = rng.choice([x for x in range(1, 5) if x != s])
            if rng.chance(2, 5):
                # an onchange-only job (no error handlers: verify does not reach them for an onchange trigger)
                ops.append(op("addjob", job=j, src=s, sink=t, paused=rng.chance(1, 4), delay=0, trig=rng.choice([s, s, s, t, rng.range(1, 4)])))
            else:
                ops.append(op("addjob", job=j, src=s, sink=t, paused=rng.chance(1, 3), delay=rng.choice([0, 0, 5, 30]), trig=-1))
            have_job.add(j)
        elif k in ("pause", "resume", "deljob", "run"):
            j = rng.choice(sorted(have_job)) if (have_job and rng.chance(7, 8)) else rng.range(0, 2)
            ops.append(op(k, job=j))
            if k == "deljob":
                have_job.discard(j)
        elif k in ("reg", "unreg", "delacl"):
            c = rng.choice(sorted(have_acl)) if (k != "reg" and have_acl and rng.chance(3, 4)) else rng.choice(CLIENTS)
            ops.append(op(k, c=c))
            if k != "reg":
                have_acl.discard(c)
        elif k == "setacl":
            c = rng.choice(CLIENTS)
            ops.append(op("setacl", c=c, acl=[rng.below(16) for _ in range(rng.range(0, 3))]))
            have_acl.add(c)
        elif k == "addprov":
            ops.append(op("addprov", name=PROV_NAMES[rng.choice([0, 1, 10, 11])], user="u%d" % rng.range(1, 3)))
        elif k == "delprov":
            ops.append(op("delprov", name=PROV_NAMES[rng.choice([0, 1, 10, 11])]))
    out = []
    if mode == 2:
        pos = rng.range(0, len(ops))
        out = ops[:pos] + [R] + ops[pos:]
    else:
        for o in ops:
            out.append(o)
            if mode == 0 or rng.chance(1, 3):
                out.append(R)
        if mode == 1 and R not in out:
            out.append(R)
    return case(out)


def every_position(rng, n):
    """one history, one case per restart position (0 .. n)"""
    base = [x for x in gen_history(rng, n, 2)["ops"] if x["op"] != "restart"]
    return [case(base[:pos] + [R] + base[pos:]) for pos in range(len(base) + 1)]


def gen(rng, tier):
    out = []
    if tier == "quick":
        out += every_position(rng, 9)
        for i in range(66):
            out.append(gen_history(rng, rng.range(5, 11), i % 3))
        return out
    if tier == "search":
        for i in range(90):
            out.append(gen_history(rng, rng.range(4, 12), i % 3))
        return out
    for _ in range(10):
        out += every_position(rng, rng.range(8, 14))
    for i in range(240):
        out.append(gen_history(rng, rng.range(6, 18), i % 3))
    return out


def run(binp, cases):
    return vlib.run_driver(binp, cases, died_obs={"res": [], "errs": [], "before": [], "after": [], "final": None,
                                                  "refres": [], "reffin": None})


# ------------------------------------------------------------------------------------------------ canonicalisation

def exp_code(e):
    if e in SYSNS:
        return SYSNS[e]
    m = re.fullmatch(r"http://v(\d+)/", e)
    return int(m.group(1)) if m else -7


def uri_code(curie, ns):
    """URI code of a stored CURIE given the namespace list of the same snapshot"""
    p, _, local = curie.partition(":")
    if not p.startswith("ns") or not p[2:].isdigit() or int(p[2:]) >= len(ns):
        return -7
    e = ns[int(p[2:])]
    c = exp_code(e)
    if c == 9000:
        if local == "core.Dataset":
            return 899
        m = re.fullmatch(r"d(\d+)", local)
        return 900 + int(m.group(1)) if m else -7
    if c == 9002 and local == "type":
        return 990
    if c == 9001 and local == "dataset":
        return 991
    if c == 9001 and local == "proxy-dataset":
        return 992
    if c == 9001 and local == "virtual-dataset":
        return 993
    if c == 0 and local == "r":
        return 800
    m = re.fullmatch(r"e(\d+)", local)
    if m and 0 <= c < 3 and int(m.group(1)) % 3 == c:
        return int(m.group(1))
    return -7


def project(s):
    """the sections of Model/Restart.v obs, in its order"""
    ns = s["ns"]
    ds = sorted(s["ds"], key=lambda r: r[0])
    ids = sorted(([uri_code(k, ns), v] for k, v in s["ids"].items()), key=lambda r: r[1])
    sec = []
    for c in CLIENTS:
        row = [1 if c in s["clients"] else 0]
        if c in s["acls"]:
            row += [1] + list(s["acls"][c])
        else:
            row += [0]
        sec.append(row)
    provs = [[PROV_CODES.get(p[0], -7), int(p[2][1:]) if re.fullmatch(r"u\d+", p[2]) else -7] for p in s["provs"]]
    tp = sorted([[PROV_CODES.get(p[0], -7), int(p[1][1:]) if re.fullmatch(r"u\d+", p[1]) else -7] for p in s["tp"]])
    out = [
        [list(r) for r in ds],
        [[s["next"]]],
        [list(s["del"])],
        [[exp_code(e) for e in ns]],
        ids,
        sorted([list(r) for r in s["jobs"]]),
        sorted([list(r) for r in s["tok"]]),
        [sorted(s["sched"])],
        sorted([list(r) for r in s["hist"]]),
        sec,
        provs,
        tp,
        [[PROV_CODES.get(r[0], -7)] + ([0, 0] if r[1] == "<none>" else [1, int(r[1][1:]) if re.fullmatch(r"u\d+", r[1]) else -7])
         for r in s["res"]],
        sorted([list(r) for r in s["fs"]]),
    ]
    for r in ds:
        if r[0] < 0:
            continue
        f = s["feeds"]["d%d" % r[0]]
        out += [[list(x) for x in f["ents"]], [list(x) for x in f["chg"]], [[f["next"], f["lnext"]]],
                [list(x) for x in f["lat"]]]
    return out


def strip_times(s):
    s = json.loads(json.dumps(s))
    for f in s["feeds"].values():
        f.pop("rec", None)
    return s


def full_same(a, b):
    return json.dumps(a, sort_keys=True) == json.dumps(b, sort_keys=True)


# ------------------------------------------------------------------------------------------------ Coq terms

def z(n):
    return vlib.zlit(int(n))


def zl(l):
    return vlib.coq_list([z(x) for x in l])


def snap_term(p):
    return vlib.coq_list([vlib.coq_list([zl(r) for r in sect]) for sect in p])


def went(e):
    return "{| w_e := %s; w_v := %s; w_t := %s; w_del := %s |}" % (z(e[0]), z(e[1]), z(e[2]), vlib.coq_bool(e[3] != 0))


def op_term(o):
    k = o["op"]
    if k == "restart":
        return "HRestart false"
    if k == "create":
        return "HDm (DCreate %s {| g_pub := %s; g_kind := %s; g_cfg := %s |})" % (
            z(o["ds"]), zl(o.get("pub") or []), z(o.get("kind", 0)), z(o.get("cfg", 0)))
    if k == "delete":
        return "HDm (DDelete %s)" % z(o["ds"])
    if k == "rename":
        return "HDm (DRename %s %s)" % (z(o["ds"]), z(o["to"]))
    if k == "pubns":
        return "HDm (DPubns %s %s)" % (z(o["ds"]), zl(o.get("pub") or []))
    if k == "pubnsm":
        return "HDm (DPubnsM %s)" % vlib.coq_list(["(%s, %s)" % (z(x[0]), zl(x[1:])) for x in o["sets"]])
    if k in ("w", "fsstart", "fsw", "fsend"):
        return "HDm (DPost %s %s %s %s %s)" % (z(o["ds"]), vlib.coq_bool(k == "fsstart"), z(FSID[o.get("fs", "")]),
                                             vlib.coq_bool(k == "fsend"), vlib.coq_list([went(e) for e in o.get("es") or []]))
    if k == "addjob":
        d = o.get("delay", 0)
        return "HJob (JAdd %s {| j_paused := %s; j_src := %s; j_sink := %s; j_delay := %s; j_trig := %s |})" % (
            z(o["job"]), vlib.coq_bool(o["paused"]), z(o["src"]), z(o["sink"]), "Some %s" % z(d) if d > 0 else "None",
            z(o.get("trig", -1)))
    if k == "pause":
        return "HJob (JPause %s true)" % z(o["job"])
    if k == "resume":
        return "HJob (JPause %s false)" % z(o["job"])
    if k == "deljob":
        return "HJob (JDelete %s)" % z(o["job"])
    if k == "run":
        return "HJob (JRun %s)" % z(o["job"])
    if k == "reg":
        return "HSec (OpRegister %s)" % vlib.coq_string(o["c"])
    if k == "unreg":
        return "HSec (OpUnregister %s)" % vlib.coq_string(o["c"])
    if k == "setacl":
        return "HSec (OpSetAcl %s (map ac_of_code %s))" % (vlib.coq_string(o["c"]), zl(o.get("acl") or []))
    if k == "delacl":
        return "HSec (OpDelAcl %s)" % vlib.coq_string(o["c"])
    if k == "addprov":
        return "HProv (PAdd %s %s)" % (z(PROV_CODES[o["name"]]), z(int(o["user"][1:])))
    if k == "delprov":
        return "HProv (PDelete %s)" % z(PROV_CODES[o["name"]])
    raise ValueError(k)


def res_term(l):
    return vlib.coq_list([RES.get(r, "RErr") for r in l])


EMPTY = "[]"


def term(c, o):
    ops = vlib.coq_list([op_term(x) for x in c["ops"]])
    cl = vlib.coq_list([vlib.coq_string(x) for x in CLIENTS])
    if o.get("outcome") != "ok" or o.get("final") is None or o.get("reffin") is None or \
            any(s.get("err") or s.get("hang") for s in o["before"] + o["after"] + [o["final"], o["reffin"]]):
        # the driver could not run the case: nothing agrees, the spec fails
        return ("{| c_ops := %s; c_clients := %s; o_res := []; o_pairs := []; o_full := [false]; o_final := []; o_refres := []; "
                "o_reffinal := []; o_reffull := false |}" % (ops, cl))
    pairs = vlib.coq_list(["(%s, %s)" % (snap_term(project(b)), snap_term(project(a)))
                           for b, a in zip(o["before"], o["after"])])
    full = vlib.coq_list([vlib.coq_bool(full_same(b, a)) for b, a in zip(o["before"], o["after"])])
    reffull = full_same(strip_times(o["final"]), strip_times(o["reffin"])) and \
        [r for r, x in zip(o["res"], c["ops"]) if x["op"] != "restart"] == o["refres"]
    return ("{| c_ops := %s; c_clients := %s; o_res := %s; o_pairs := %s; o_full := %s; o_final := %s; o_refres := %s; "
            "o_reffinal := %s; o_reffull := %s |}" % (
                ops, cl, res_term(o["res"]), pairs, full, snap_term(project(o["final"])), res_term(o["refres"]),
                snap_term(project(o["reffin"])), vlib.coq_bool(reffull)))


def predict_text(c, o):
    t = term(c, o)
    body = ("Definition c : tcase := %s.\n"
            "Eval vm_compute in (let '(h, rs, ps) := run_obs fl_current (c_clients c) (c_ops c) hub_init in (rs, ps, obs (c_clients c) h)).\n"
            "Eval vm_compute in (let '(h, rs, ps) := run_obs fl_fixed (c_clients c) (c_ops c) hub_init in (rs, map same ps)).\n" % t)
    ok, out, _ = vlib.coq_eval("C14p", [CHECK_MODULE], body)
    return out.strip()[:6000]


# ------------------------------------------------------------------------------------------------ attribution

def diff_keys(a, b):
    return [k for k in a if a[k] != b.get(k)]


def explain(b, a, seen):
    """finding ids explaining the difference of two snapshots around a restart, or None if some part of the
    difference has none of the recorded signatures"""
    keys = diff_keys(b, a)
    found = []
    for k in keys:
        if k == "acls":
            # both recorded ACL findings leave NO access control at all after the restart; F14b: clients.json never
            # written; F14a: the last write of acls.json before the restart came from a delete (explicit or by unregister)
            writers = [y["op"] for y in seen if y["op"] in ("setacl", "delacl", "unreg")]
            if a["acls"]:
                return None
            if not any(y["op"] in ("reg", "unreg") for y in seen):
                found.append("F14b")
            elif writers and writers[-1] in ("delacl", "unreg"):
                found.append("F14a")
            else:
                return None
        elif k in ("tp", "res"):
            # F14c: the stored list is unchanged and the live map after the restart is exactly the stored objects
            # registered in key order under their lower-cased names, every stored provider resolvable by its consumers
            if b["provs"] != a["provs"]:
                return None
            want = {}
            for p in a["provs"]:
                want[p[0].lower()] = p[2]
            if {p[0]: p[1] for p in a["tp"]} != want or len(a["tp"]) != len(want):
                return None
            if [[p[0], want[p[0].lower()]] for p in a["provs"]] != a.get("res"):
                return None
            found.append("F14c")
        elif k == "fs":
            # the same datasets, flags only go from started to not started
            if [r[0] for r in b["fs"]] != [r[0] for r in a["fs"]] or any(x[1] < y[1] for x, y in zip(b["fs"], a["fs"])):
                return None
            found.append("F14d")
        elif k in ("jobs", "jraw"):
            if k == "jobs":
                # only the retryDelay column moves
                if len(b["jobs"]) != len(a["jobs"]) or any(x[:5] != y[:5] for x, y in zip(b["jobs"], a["jobs"])):
                    return None
            if not any(y["op"] == "addjob" and y.get("delay", 0) > 0 for y in seen):
                return None
            found.append("F14e")
        else:
            return None
    return found


def attribute(c, o):
    """the recorded finding whose signature explains the first visible restart of the case (None when some part of
    that difference is not explained by a recorded finding)"""
    if o.get("outcome") != "ok" or not o.get("final") or not o.get("reffin"):
        return None
    ri = 0
    seen = []
    for x in c["ops"]:
        if x["op"] != "restart":
            seen.append(x)
            continue
        b, a = o["before"][ri], o["after"][ri]
        ri += 1
        if full_same(b, a):
            continue
        f = explain(b, a, seen)
        return f[0] if f else None
    return None


def size(c):
    return len(c["ops"]) * 10 + sum(len(x.get("es", [])) for x in c["ops"])


GROUPS = {"pubnsm": "dm", "create": "dm", "delete": "dm", "rename": "dm", "pubns": "dm", "w": "data", "fsstart": "data", "fsw": "data",
          "fsend": "data", "addjob": "job", "pause": "job", "resume": "job", "deljob": "job", "run": "job",
          "reg": "sec", "unreg": "sec", "setacl": "sec", "delacl": "sec", "addprov": "prov", "delprov": "prov"}


def classify(c, o):
    groups = set()
    n = 0
    for x, r in zip(c["ops"], o.get("res") or []):
        if x["op"] == "restart":
            if n >= 2 and len(groups) >= 2:
                return "restart-after-mixed-history"
            continue
        if r == "ok":
            groups.add(GROUPS[x["op"]])
            n += 1
    return None


def tags(c, o):
    t = ["restarts=%d" % min(sum(1 for x in c["ops"] if x["op"] == "restart"), 9)]
    for g in sorted(set(GROUPS[x["op"]] for x in c["ops"] if x["op"] != "restart")):
        t.append("uses=" + g)
    for x in c["ops"]:
        if x["op"] == "create" and x.get("kind", 0):
            t.append("has=" + ("proxy" if x["kind"] == 1 else "virtual") + ("+pubns" if x.get("pub") else ""))
    t = sorted(set(t))
    if o.get("outcome") != "ok":
        t.append("outcome=" + str(o.get("outcome")))
    elif any(not full_same(b, a) for b, a in zip(o["before"], o["after"])):
        t.append("restart-diverges")
    else:
        t.append("restart-invisible")
    return t
