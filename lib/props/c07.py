"""C07 - deleting a dataset hides all its data everywhere, at once and for good."""
import json

import storecases as sc
import vlib

ID = "C07"
PROP_FILE = "Properties/C07.v"
CHECK_MODULE = "Model.Store Model.DsManager Model.Gc Check.C07Check"
CASE_TYPE = "tcase"
DRIVER_PKG = "cmd/verif_c07"
SHARD = 25

VARIANTS = [
    {"name": "current(delete in two durable steps, dataset entities never repaired)", "findings": ["F07a", "F19a"]},
    {"name": "del_atomic,no-reconcile", "findings": ["F19a"]},
    {"name": "del-two-steps,reconcile", "findings": ["F07a"]},
    {"name": "fixed(record removal + deleted set in one step, dataset entities reconciled on restart)", "findings": []},
]

RULE = ("a case is a history over the dataset names a..d (+ core.Dataset, an unknown name) and the ids e1..e4: writes whose entities "
        "share ids across datasets and refer to each other across datasets (single and array references, 2 predicates that share a target, "
        "several versions per id in every dataset, dropped references, deleted versions), create / delete / rename (also onto existing names, of missing names, of core.Dataset) / re-create, garbage "
        "collection with a raw key census before and after, restart, a crash at one of the nine hook points inside "
        "create/rename/delete followed by a restart, datasets created with publicNamespaces, proxy and virtual datasets written locally "
        "(Dataset.StoreEntities and single-dataset Store.ExecuteTransaction), dataset handles taken before a delete and "
        "written through afterwards (after the delete, after the collection), paged relation queries whose continuation is kept and used "
        "after datasets of its scope were deleted / renamed / collected (both directions); after most operations and at the end: dataset list, live dataset entities of "
        "core.Dataset, change feed and listing of every name, lookups and outgoing/incoming relation queries unscoped and scoped to "
        "live, deleted, renamed and mixed names; non-trivial = the history deletes or renames a dataset that holds data, or crashes "
        "inside a manager operation; distinct = distinct history JSON")
TRUSTED = [
    "a crash is emulated by a panic raised in the verifhook handler at the hook point, recovered in the driver, followed by Store.Close() and "
    "a fresh NewStore/NewDsManager on the same directory: every Badger transaction committed before the hook point is durable, nothing else "
    "of the process survives (Badger's own crash durability is assumed, not tested)",
    "relation queries are modelled at the level of the graph of latest versions per dataset (not the reference-index keys and the scan "
    "loops of GetRelatedAtTime, which belong to C03: C03_outgoing proves the outgoing scan equal to that graph); all datasets get "
    "multi-version / multi-predicate / deleted-version histories; outgoing queries and lookups are unrestricted; INCOMING queries are only "
    "generated for targets on which the pinned incoming scan is exact (every source links the target by one predicate and has tombstones "
    "for it in at most one dataset - otherwise F03a of C03 applies), decided by the generator's own simulation of registry and references; "
    "all pages of a query are concatenated and compared as a set",
    "reference-index keys are not part of the modelled state: their census before a collection is taken from the driver and the model "
    "predicts the census after it; version / change-log / latest keys are predicted exactly per dataset id",
    "write-time equality: the generated contents stay where every variant of IsEntityEqual agrees with full equality (C01/C02 cover the rest)",
]
ASSUMPTIONS = [
    "the dataset list is additionally required to show pairwise distinct internal dataset ids (checked on the driver's report by the "
    "canonicaliser: a list with a shared id is an answer no model and no spec accepts)",
    "continued pages of a paged query are checked for soundness only (every relation returned exists in a live dataset of the scope the "
    "query started with); that the continuation still delivers everything is not claimed (on the pinned tree a continuation whose key "
    "lies in a since-deleted dataset returns nothing more)",
    "sequential histories (one client); crashes only at the nine hook points of the dataset manager, each followed by a restart",
    "no user writes into core.Dataset; dataset entities are observed only as live / not live",
]

CODES = sc.Codes()
NAMES = ["a", "b", "c", "d"]
CORE = "core.Dataset"
IDS = ["e1", "e2", "e3", "e4"]
POINTS = {"create": ["create.afterNextId", "create.afterRecord", "create.afterMeta"],
          "delete": ["delete.afterRecord", "delete.afterDeletedSet", "delete.afterMeta"],
          "rename": ["rename.afterMove", "rename.afterOldMeta", "rename.afterNewMeta"]}


SPECIAL = ["s+e", "s e", "s%2Be"]   # names that URL decoding changes, and what a second decoding makes of them


def ncode(n):
    if n == CORE:
        return 0
    if n in NAMES:
        return NAMES.index(n) + 1
    if n in SPECIAL:
        return SPECIAL.index(n) + 5
    return 9


def seg_of(n):
    """the path segment a client sends for dataset name n: canonical escaped form ('+' and unreserved characters literal)"""
    import urllib.parse
    return urllib.parse.quote(n, safe="+")


def http(method, n, to=None):
    o = {"op": "http", "method": method, "seg": seg_of(n)}
    if to is not None:
        o["to"] = to
    return o


# ---------------------------------------------------------------- cases

def E(i, p="a", refs=None, deleted=False):
    e = {"id": i, "props": {"p1": p}, "refs": refs or {}}
    if deleted:
        e["deleted"] = True
    return e


def U(i):
    return sc.NS + i


def reads(names, ids=("e1", "e2"), scopes=((), ("a",), ("b",), ("a", "b"))):
    ops = [{"op": "names"}, {"op": "metas"}]
    for n in names:
        ops.append({"op": "changes", "ds": n, "since": 0, "limit": 0})
        ops.append({"op": "entities", "ds": n})
    for i in ids:
        for s in scopes:
            ops.append({"op": "get", "id": U(i), "datasets": list(s)})
            ops.append({"op": "related", "starts": [U(i)], "pred": "*", "inverse": False, "datasets": list(s)})
            ops.append({"op": "related", "starts": [U(i)], "pred": "*", "inverse": True, "datasets": list(s)})
    return ops


def base_hist():
    return [{"op": "create", "ds": "a"}, {"op": "create", "ds": "b"},
            {"op": "batch", "ds": "a", "ents": [E("e1", "a", {"r1": "e2"}), E("e2")]},
            {"op": "batch", "ds": "b", "ents": [E("e1", "b", {"r2": "e3"}), E("e3", "a", {"r1": ["e2", "e1"]})]}]


def crash(mop, ds, k, to=None):
    o = {"op": "crash", "mop": mop, "ds": ds, "point": POINTS[mop][k - 1]}
    if to:
        o["to"] = to
    return o


def witness_cases():
    R = lambda: reads(["a", "b", "c"])
    cs = []
    # delete, reads, gc, reads, restart, reads, re-create, reads
    cs.append({"ops": base_hist() + [{"op": "delete", "ds": "b"}] + R() + [{"op": "gc"}] + R() + [{"op": "restart"}] + R()
               + [{"op": "create", "ds": "b"}] + R() + [{"op": "batch", "ds": "b", "ents": [E("e2", "c", {"r1": "e1"})]}] + R() + [{"op": "gc"}]})
    # F07a: die after the record is removed, before the deleted set is persisted
    cs.append({"ops": base_hist() + [crash("delete", "b", 1)] + R() + [{"op": "gc"}] + R() + [{"op": "create", "ds": "b"}] + R()})
    cs.append({"ops": base_hist() + [crash("delete", "b", 2)] + R()})
    cs.append({"ops": base_hist() + [crash("delete", "b", 3)] + R()})
    # F19a: die inside create; CreateDataset does not repair; delete then panics
    cs.append({"ops": [{"op": "create", "ds": "a"}, crash("create", "c", 1), {"op": "names"}, {"op": "metas"}, crash("create", "c", 2),
                       {"op": "names"}, {"op": "metas"}, {"op": "create", "ds": "c"}, {"op": "metas"},
                       {"op": "batch", "ds": "c", "ents": [E("e1")]}, {"op": "gc"}, {"op": "delete", "ds": "c"}] + reads(["a", "c"], scopes=((), ("c",)))})
    # rename, crash inside rename
    cs.append({"ops": base_hist() + [{"op": "rename", "ds": "b", "to": "a"}, {"op": "rename", "ds": "b", "to": "b"},
                                     {"op": "delete", "ds": CORE}, {"op": "rename", "ds": CORE, "to": "c"},
                                     {"op": "rename", "ds": "b", "to": CORE}, {"op": "delete", "ds": "zz"},
                                     {"op": "rename", "ds": "b", "to": "c"}] + reads(["a", "b", "c"], scopes=((), ("b",), ("c",), ("a", "c")))})
    for k in (1, 2, 3):
        cs.append({"ops": base_hist() + [crash("rename", "b", k, "c")] + reads(["a", "b", "c"], scopes=((), ("b",), ("c",)))
                   + ([{"op": "rename", "ds": "c", "to": "d"}, {"op": "names"}, {"op": "metas"}, {"op": "delete", "ds": "d"}, {"op": "names"}] if k == 1 else [])})
    return cs


def corpus_cases():
    """the four seeded changes of seeded/C07-1..4 as explicit histories"""
    rd = lambda ids, names: [o for i in ids for o in (
        {"op": "get", "id": U(i), "datasets": []},
        {"op": "related", "starts": [U(i)], "pred": "*", "inverse": False, "datasets": []},
        {"op": "related", "starts": [U(i)], "pred": "*", "inverse": True, "datasets": []})] + [
        o for n in names for o in ({"op": "changes", "ds": n, "since": 0, "limit": 0}, {"op": "entities", "ds": n})] + [{"op": "names"}, {"op": "metas"}]
    cs = []
    # 1: die inside create after the record, restart, create ANOTHER dataset: fresh id, empty, shares nothing
    cs.append({"ops": [{"op": "create", "ds": "a"}, crash("create", "c", 2), {"op": "create", "ds": "d"}, {"op": "names"},
                       {"op": "batch", "ds": "d", "ents": [E("e1", "a", {"r1": "e2"}), E("e2")]}] + rd(["e1"], ["c", "d"])
               + [{"op": "get", "id": U("e1"), "datasets": ["c"]}, {"op": "delete", "ds": "c"}] + rd(["e1"], ["c", "d"]) + [{"op": "gc"}]})
    # 2: a dataset with publicNamespaces: delete, restart, re-create
    cs.append({"ops": [{"op": "create", "ds": "a"}, {"op": "create", "ds": "b", "public": True},
                       {"op": "batch", "ds": "a", "ents": [E("e1", "a", {"r1": "e2"}), E("e2")]},
                       {"op": "batch", "ds": "b", "ents": [E("e1", "b", {"r2": "e3"}), E("e3", "a", {"r1": ["e2", "e1"]})]},
                       {"op": "delete", "ds": "b"}] + rd(["e1", "e2"], ["a", "b"]) + [{"op": "restart"}] + rd(["e1", "e2"], ["a", "b"])
               + [{"op": "create", "ds": "b"}] + rd(["e1"], ["b"]) + [{"op": "batch", "ds": "b", "ents": [E("e4")]}, {"op": "get", "id": U("e4"), "datasets": []},
                  {"op": "gc"}]})
    # 3: paged scoped queries whose continuation is used after a dataset of the scope was deleted (older keys in the doomed dataset)
    for inv in (False, True):
        cs.append({"ops": [{"op": "create", "ds": "a"}, {"op": "create", "ds": "b"},
                           {"op": "batch", "ds": "b", "ents": [E("e1", "b", {"r2": ["e3", "e4"]}), E("e2", "b", {"r1": "e1"}), E("e3", "b", {"r1": "e1"})]},
                           {"op": "batch", "ds": "a", "ents": [E("e1", "a", {"r1": "e2"}), E("e4", "a", {"r1": "e1"})]},
                           {"op": "keep", "slot": "k1", "starts": [U("e1")], "pred": "*", "inverse": inv, "datasets": ["a", "b"], "limit": 1},
                           {"op": "delete", "ds": "b"},
                           {"op": "cont", "slot": "k1", "limit": 1},
                           {"op": "related", "starts": [U("e1")], "pred": "*", "inverse": inv, "datasets": ["a", "b"]}]})
    # 4: a write through a handle obtained before the delete, after delete / after gc; all read APIs, also after restart
    cs.append({"ops": [{"op": "create", "ds": "a"}, {"op": "create", "ds": "b"},
                       {"op": "batch", "ds": "a", "ents": [E("e1", "a", {"r1": "e2"}), E("e2")]},
                       {"op": "batch", "ds": "b", "ents": [E("e1", "b", {"r2": "e3"})]},
                       {"op": "hold", "ds": "b", "slot": "h1"}, {"op": "hold", "ds": "a", "slot": "h2"}, {"op": "delete", "ds": "b"},
                       {"op": "stale", "slot": "h1", "ents": [E("e1", "c", {"r2": "e4"}), E("e3", "a", {"r1": "e1"})]}] + rd(["e1", "e3"], ["a", "b"])
               + [{"op": "gc"}, {"op": "stale", "slot": "h1", "ents": [E("e1", "a", {"r1": "e3"}), E("e4", "a", {"r1": "e1"})]},
                  {"op": "stale", "slot": "h2", "ents": [E("e2", "b")]}] + rd(["e1", "e3", "e4"], ["a", "b"])
               + [{"op": "restart"}] + rd(["e1", "e3", "e4"], ["a", "b"]) + [{"op": "stale", "slot": "h1", "ents": [E("e2")]}, {"op": "gc"}]})
    # r6-2: reads through a contextual store (transform API) after a delete, before gc and after restart
    cx = lambda: [dict(o, ctx=True) for o in rd(["e1", "e3"], []) if o["op"] in ("get", "related")]
    cs.append({"ops": [{"op": "create", "ds": "a"}, {"op": "create", "ds": "b"},
                       {"op": "batch", "ds": "a", "ents": [E("e1", "a", {"r1": "e2"}), E("e2")]},
                       {"op": "batch", "ds": "b", "ents": [E("e1", "b", {"r2": "e3"}), E("e3", "b", {"r1": "e1"})]}] + cx()
               + [{"op": "delete", "ds": "b"}] + cx() + [{"op": "restart"}] + cx() + [{"op": "gc"}] + cx()})
    # r3-2: a rename held at its wait for the dataset-manager lock while another client creates the target name and writes to it
    cs.append({"ops": [{"op": "create", "ds": "a"}, {"op": "create", "ds": "b"},
                       {"op": "batch", "ds": "a", "ents": [E("e1", "a", {"r1": "e2"}), E("e2")]},
                       {"op": "race", "ds": "a", "to": "c", "ents": [E("e1", "c", {"r2": "e3"}), E("e3")]}] + rd(["e1", "e3"], ["a", "b", "c"])
               + [{"op": "restart"}] + rd(["e1", "e3"], ["a", "c"]) + [{"op": "gc"}]})
    # r3-3: dataset management over HTTP with names that URL decoding changes, siblings named like the decoded forms
    sp = lambda: [o for n in SPECIAL for o in ({"op": "changes", "ds": n, "since": 0, "limit": 0}, {"op": "entities", "ds": n})] + [
        {"op": "names"}, {"op": "metas"}, {"op": "get", "id": U("e1"), "datasets": []}]
    cs.append({"ops": [http("POST", "s+e"), {"op": "create", "ds": "s e"}, http("POST", "s%2Be"), http("POST", "s+e"),
                       {"op": "batch", "ds": "s+e", "ents": [E("e1", "a")]}, {"op": "batch", "ds": "s e", "ents": [E("e1", "b")]},
                       {"op": "batch", "ds": "s%2Be", "ents": [E("e1", "c")]}] + sp()
               + [http("DELETE", "s+e")] + sp() + [http("DELETE", "s%2Be")] + sp()
               + [http("PATCH", "s e", "s+e")] + sp() + [http("DELETE", "s e"), http("DELETE", "s+e"), http("DELETE", CORE)] + sp() + [{"op": "gc"}]})
    # r4-3: proxy and virtual datasets that received LOCAL writes (transaction / StoreEntities): delete hides them like any other
    cs.append({"ops": [{"op": "create", "ds": "a"}, {"op": "create", "ds": "b", "kind": "proxy"}, {"op": "create", "ds": "c", "kind": "virtual"},
                       {"op": "batch", "ds": "a", "ents": [E("e1", "a", {"r1": "e2"}), E("e2")]},
                       {"op": "txn", "sets": [{"ds": "b", "ents": [E("e1", "b", {"r2": "e3"}), E("e3", "b", {"r1": "e1"})]}]},
                       {"op": "batch", "ds": "c", "ents": [E("e1", "c", {"r2": "e4"}), E("e4", "c", {"r1": "e1"})]}] + rd(["e1", "e3", "e4"], ["a", "b", "c"])
               + [{"op": "delete", "ds": "b"}, {"op": "delete", "ds": "c"}] + rd(["e1", "e3", "e4"], ["a", "b", "c"])
               + [{"op": "get", "id": U("e1"), "datasets": ["b"]}, {"op": "gc"}] + rd(["e1", "e3", "e4"], ["a", "b", "c"])
               + [{"op": "restart"}] + rd(["e1", "e3", "e4"], ["a", "b", "c"])
               + [{"op": "create", "ds": "b", "kind": "proxy"}] + rd(["e1"], ["b"]) + [{"op": "gc"}]})
    return cs


def gen_http_case(rng, nops):
    """dataset management through the HTTP handlers over names that URL decoding changes ('+', space, a literal %2B) next to
    plain names; the same entity ids are written to all of them so that a request addressing the wrong sibling shows"""
    pool = SPECIAL + ["a"]
    ops = []
    for n in pool:
        if rng.chance(3, 4):
            ops.append(http("POST", n) if rng.chance(1, 2) else {"op": "create", "ds": n})
    for _ in range(nops):
        r = rng.below(100)
        n = rng.choice(pool)
        if r < 30:
            ids = list(IDS)
            rng.shuffle(ids)
            ops.append({"op": "batch", "ds": n, "ents": [E(i, rng.choice(["a", "b", "c"])) for i in ids[:rng.choice([1, 2])]]})
        elif r < 50:
            ops.append(http("DELETE", n if rng.chance(7, 8) else rng.choice([CORE, "zz"])))
        elif r < 62:
            ops.append(http("POST", n))
        elif r < 72:
            ops.append(http("PATCH", n, rng.choice(pool)))
        elif r < 78:
            ops.append({"op": "delete", "ds": n})
        elif r < 84:
            ops.append({"op": "restart"})
        elif r < 88:
            ops.append({"op": "gc"})
        else:
            ops += [{"op": "names"}, {"op": "changes", "ds": rng.choice(pool), "since": 0, "limit": 0},
                    {"op": "get", "id": U(rng.choice(IDS)), "datasets": [] if rng.chance(1, 2) else [rng.choice(pool)]}]
    ops.append({"op": "gc"})
    ops += [{"op": "names"}, {"op": "metas"}]
    for n in pool:
        ops += [{"op": "changes", "ds": n, "since": 0, "limit": 0}, {"op": "entities", "ds": n}]
    for i in IDS[:2]:
        ops += [{"op": "get", "id": U(i), "datasets": []}, {"op": "get", "id": U(i), "datasets": [rng.choice(pool)]}]
    return {"ops": ops}


def gen_ent(rng, i, known):
    refs = {}
    # the two predicates share one target (e3), so a (source, target) pair can be linked by both
    for k, tg in (("r1", IDS[:3]), ("r2", IDS[2:])):
        if rng.chance(2, 5):
            if rng.chance(2, 3):
                refs[k] = rng.choice(tg)
            else:
                refs[k] = [rng.choice(tg) for _ in range(rng.range(1, 2))]
    e = E(i, rng.choice(["a", "b", "c"]), refs, rng.chance(1, 6))
    known.add(i)
    for v in refs.values():
        for t in (v if isinstance(v, list) else [v]):
            known.add(t)
    return e


class Sim:
    """What the generator knows about the history it is building: the name registry (its evolution is the same in every
    variant of the model: a crash at hook k of create registers the name iff k >= 2, of delete / rename removes / moves it iff
    k >= 1) and, per (source, target) pair, the predicates that ever linked it and the datasets in which a reference key of
    the pair may have been tombstoned (a version dropping the reference, a deleted version, a first version that is deleted).
    The incoming scan of GetRelatedAtTime on the pinned tree is exact for a target iff every source links it by one predicate
    only (else F03a) and has tombstones for it in at most one dataset (else the stale spill-over entry, folded into F03a by
    C03); incoming queries are only generated for such targets.  Outgoing queries and lookups need no restriction."""

    def __init__(self):
        self.names = {CORE: 1}
        self.next = 2
        self.vers = {}      # (uid, source) -> set of (pred, target) of the last version written
        self.preds = {}     # (source, target) -> predicates
        self.tombs = {}     # (source, target) -> uids

    def create(self, n):
        if n not in self.names:
            self.names[n] = self.next
        self.next += 1      # over-approximation of the id is irrelevant: uids only need to be distinct

    def delete(self, n):
        if n != CORE:
            self.names.pop(n, None)

    def rename(self, o, n):
        if o != CORE and o in self.names and n != o and n not in self.names:
            self.names[n] = self.names.pop(o)

    def race(self, o, n, ents):
        """rename o -> n held at its lock wait while another client creates n and writes to it: = create, write, rename"""
        self.create(n)
        self.write(n, ents)
        self.rename(o, n)

    def crash(self, c):
        k = POINTS[c["mop"]].index(c["point"]) + 1
        if c["mop"] == "create":
            if k >= 2:
                self.create(c["ds"])
        elif c["mop"] == "delete":
            self.delete(c["ds"])
        else:
            self.rename(c["ds"], c.get("to"))

    def write(self, n, ents):
        self.write_uid(self.names.get(n), ents)

    def write_uid(self, uid, ents):
        if uid is None:
            return
        for e in ents:
            s = e["id"]
            new = set()
            for p, v in e["refs"].items():
                for t in (v if isinstance(v, list) else [v]):
                    new.add((p, t))
                    self.preds.setdefault((s, t), set()).add(p)
            prev = self.vers.get((uid, s))
            gone = set()
            if e.get("deleted"):
                gone = new | (prev or set())
            elif prev is not None:
                gone = prev - new
            for p, t in gone:
                self.tombs.setdefault((s, t), set()).add(uid)
            self.vers[(uid, s)] = new

    def inverse_exact(self, t):
        for (s, tt), ps in self.preds.items():
            if tt == t and (len(ps) > 1 or len(self.tombs.get((s, t), ())) > 1):
                return False
        return True


def gen_reads(rng, known, few, sim):
    ops = []
    pool = NAMES + ([] if few else ["zz"])
    if rng.chance(1, 2) or not few:
        ops += [{"op": "names"}, {"op": "metas"}]
    for n in (rng.choice(NAMES),) if few else NAMES:
        ops.append({"op": "changes", "ds": n, "since": rng.choice([0, 0, 1, 2]), "limit": rng.choice([0, 0, 1, 2]), "latest": rng.chance(1, 4)})
        ops.append({"op": "entities", "ds": n})
    ids = sorted(known)
    if not ids:
        return ops
    for _ in range(2 if few else 9):
        i = rng.choice(ids)
        r = rng.below(4)
        s = [] if r == 0 else [rng.choice(pool)] if r < 3 else [rng.choice(pool), rng.choice(pool)]
        k = rng.below(3)
        if k == 2 and not sim.inverse_exact(i):
            cand = [x for x in ids if sim.inverse_exact(x)]
            if cand and rng.chance(2, 3):
                i = rng.choice(cand)
            else:
                k = 1
        if k == 0:
            ops.append({"op": "get", "id": U(i), "datasets": s})
        else:
            ops.append({"op": "related", "starts": [U(i)], "pred": "*", "inverse": k == 2, "datasets": s,
                        "limits": [rng.choice([0, 0, 1, 2])]})
        if rng.chance(1, 3):
            ops[-1]["ctx"] = True      # the same read through a contextual store (JavaScript transform API)
    return ops


def gen_case(rng, nops, crashy):
    """Every dataset gets several versions per id, deleted versions, dropped references and both predicates between a pair;
    see Sim for the one restriction (which targets get incoming queries)."""
    def kinded(o):
        r = rng.below(8)
        if r < 2:
            o["kind"] = "proxy"
        elif r < 3:
            o["kind"] = "virtual"
        return o
    ops = [{"op": "create", "ds": "a"}, kinded({"op": "create", "ds": "b", "public": True} if rng.chance(1, 2) else {"op": "create", "ds": "b"})]
    known = set()
    sim = Sim()
    sim.create("a")
    sim.create("b")
    held = {}      # slot -> uid of the dataset the handle was taken from (handles die with the process)
    conts = {}     # slot -> (start, inverse) of a kept continuation
    for _ in range(nops):
        r = rng.below(100)
        x = rng.below(100)
        if x < 6:
            n = rng.choice(NAMES[:3])
            slot = rng.choice(["h1", "h2"])
            ops.append({"op": "hold", "ds": n, "slot": slot})
            if n in sim.names:
                held[slot] = sim.names[n]
        elif x < 14 and held:
            slot = rng.choice(sorted(held))
            ids = list(IDS)
            rng.shuffle(ids)
            ents = [gen_ent(rng, i, known) for i in ids[:rng.choice([1, 2])]]
            ops.append({"op": "stale", "slot": slot, "ents": ents})
            sim.write_uid(held[slot], ents)
        elif x < 20 and known:
            i = rng.choice(sorted(known))
            inv = rng.chance(1, 2)
            if not inv or sim.inverse_exact(i):
                slot = rng.choice(["k1", "k2", "k3"])
                sc = [rng.choice(NAMES[:3]) for _ in range(rng.choice([0, 1, 2, 2]))]
                ops.append({"op": "keep", "slot": slot, "starts": [U(i)], "pred": "*", "inverse": inv, "datasets": sc, "limit": 1})
                conts[slot] = (i, inv)
        elif x < 27 and conts:
            slot = rng.choice(sorted(conts))
            i, inv = conts[slot]
            if not inv or sim.inverse_exact(i):
                ops.append({"op": "cont", "slot": slot, "limit": rng.choice([0, 1, 1])})
        if r < 40:
            n = rng.choice(NAMES[:3] if rng.chance(9, 10) else NAMES + ["zz"])
            ids = list(IDS)
            rng.shuffle(ids)
            ents = [gen_ent(rng, i, known) for i in ids[:rng.choice([1, 2, 2, 3])]]
            ops.append({"op": "txn", "sets": [{"ds": n, "ents": ents}]} if rng.chance(1, 4) else {"op": "batch", "ds": n, "ents": ents})
            sim.write(n, ents)
        elif r < 50:
            n = rng.choice(NAMES)
            ops.append(kinded({"op": "create", "ds": n, "public": True} if rng.chance(1, 3) else {"op": "create", "ds": n}))
            sim.create(n)
        elif r < 62:
            n = rng.choice(NAMES[:3] + ([CORE, "zz"] if rng.chance(1, 6) else []))
            ops.append(http("DELETE", n) if rng.chance(1, 4) else {"op": "delete", "ds": n})
            sim.delete(n)
        elif r < 72:
            o = rng.choice(NAMES + ([CORE] if rng.chance(1, 8) else []))
            n = rng.choice(NAMES + ([CORE] if rng.chance(1, 10) else []))
            if o != CORE and n != CORE and rng.chance(1, 3):
                ids = list(IDS)
                rng.shuffle(ids)
                ents = [gen_ent(rng, i, known) for i in ids[:rng.choice([1, 2])]]
                ops.append({"op": "race", "ds": o, "to": n, "ents": ents})
                sim.race(o, n, ents)
            elif rng.chance(1, 4):
                ops.append(http("PATCH", o, n))
                sim.rename(o, n)
            else:
                ops.append({"op": "rename", "ds": o, "to": n})
                sim.rename(o, n)
        elif r < 80:
            ops.append({"op": "gc"})
        elif r < 86:
            ops.append({"op": "restart"})
            held = {}
        elif r < 86 + (10 if crashy else 0):
            mop = rng.choice(["create", "delete", "delete", "rename"])
            c = crash(mop, rng.choice(NAMES[:3]), rng.range(1, 3), rng.choice(NAMES) if mop == "rename" else None)
            if mop == "create" and rng.chance(1, 3):
                c["public"] = True
            if mop == "create":
                kinded(c)
            ops.append(c)
            sim.crash(c)
            held = {}
        else:
            ops += gen_reads(rng, known, True, sim)
        if rng.chance(1, 3):
            ops += gen_reads(rng, known, True, sim)
    for slot in sorted(conts):
        i, inv = conts[slot]
        if not inv or sim.inverse_exact(i):
            ops.append({"op": "cont", "slot": slot, "limit": 0})
    ops.append({"op": "gc"})
    ops += gen_reads(rng, known, False, sim)
    return {"ops": ops}


def gen(rng, tier):
    n = {"quick": 140, "thorough": 1500, "search": 250}[tier]
    return [gen_http_case(rng, rng.range(6, 14)) if i % 6 == 5 else
            gen_case(rng, rng.range(5, 12 if tier == "quick" else 18), i % 3 != 0) for i in range(n)]


# ---------------------------------------------------------------- terms

def zl(l):
    return vlib.coq_list([vlib.zlit(x) for x in l])


def mop_term(mop, ds, to=None):
    if mop == "create":
        return "(MCreate %d)" % ncode(ds)
    if mop == "delete":
        return "(MDelete %d)" % ncode(ds)
    return "(MRename %d %d)" % (ncode(ds), ncode(to or ""))


def rows_term(rows):
    return vlib.coq_list(["(%d, %d, %d)" % (r[0], r[1], r[2]) for r in (rows or [])])


def get_answer(op, oo, ns):
    if oo.get("panic"):
        return "OOther"
    if oo.get("err"):
        return "OGetErr" if oo["err"] == "dataset not found" else "OOther"
    if not oo.get("found"):
        return "(OGet [] false)"
    e = oo["ents"][0]
    plist = (e.get("props") or {}).get("http://data.mimiro.io/core/partials")
    if plist is None:
        if e.get("props") or e.get("refs"):
            return "OOther"
        return "(OGet [] %s)" % vlib.coq_bool(bool(e.get("deleted")))
    parts = []
    for pe in plist:
        pe = dict(pe)
        pp = dict(pe.get("props") or {})
        dsn = pp.pop("http://data.mimiro.io/core/datasetname", None)
        pe["props"] = pp
        parts.append("(%d, %s)" % (ncode(dsn), sc.content_term(CODES, pe, ns, 0)))
    return "(OGet %s false)" % vlib.coq_list(parts)


SLOTS = {"h1": 1, "h2": 2, "k1": 11, "k2": 12, "k3": 13}


def rel_term(oo, ns):
    if oo.get("panic") or oo.get("err"):
        return "None"
    rel = [(CODES.ucode(sc.expand(r["pred"], ns)), CODES.ucode(sc.expand(r["id"], ns))) for pg in (oo.get("rpages") or []) for r in pg]
    return "(Some %s)" % vlib.coq_list(["(%d, %d)" % x for x in rel])


def term(c, o):
    ns = o.get("ns") or {}
    terms = []
    kept = {}
    for i, op in enumerate(c["ops"]):
        oo = o["ops"][i] if i < len(o.get("ops", [])) else {"err": "missing"}
        k = op["op"]
        bad = bool(oo.get("panic"))
        if k == "txn":
            # one dataset per transaction: Store.ExecuteTransaction instead of Dataset.StoreEntities, same model step
            op = {"op": "batch", "ds": op["sets"][0]["ds"], "ents": op["sets"][0]["ents"]}
            if oo.get("err", "").startswith("no dataset"):
                oo = dict(oo, err="no dataset")
            k = "batch"
        if k == "batch":
            lens = oo.get("lens") or [0] * len(op["ents"])
            ents = vlib.coq_list([sc.ent_term(CODES, e, l) for e, l in zip(op["ents"], lens)])
            oc = 7 if bad else (1 if oo.get("err") == "no dataset" else 7 if oo.get("err") else 0)
            terms.append("CWrite %d %s %d" % (ncode(op["ds"]), ents, oc))
        elif k in ("create", "delete", "rename"):
            oc = 2 if bad else 1 if oo.get("err") else 0
            terms.append("CMop %s %d" % (mop_term(k, op["ds"], op.get("to")), oc))
        elif k == "gc":
            if oo.get("err") or bad or oo.get("badkeys"):
                terms.append("CGc [(0,0,0)] []")
            else:
                terms.append("CGc %s %s" % (rows_term(oo.get("before")), rows_term(oo.get("after"))))
        elif k == "restart":
            terms.append("CRestart")
        elif k == "crash":
            terms.append("CCrash %s %d%%nat" % (mop_term(op["mop"], op["ds"], op.get("to")), POINTS[op["mop"]].index(op["point"]) + 1))
        elif k in ("names", "metas"):
            q = "QNames" if k == "names" else "QMetas"
            ids = oo.get("ids") or []
            # spec on the implementation: no two listed datasets share an internal dataset id
            shared = k == "names" and (len(set(ids)) != len(ids) or -1 in ids)
            a = "OOther" if (oo.get("err") or bad or shared) else "(ONames %s)" % zl(sorted(ncode(n) for n in oo.get("names") or []))
            terms.append("CQuery %s %s" % (q, a))
        elif k == "http":
            st = oo.get("status", 0)
            oc = 2 if bad else 0 if st == 200 else 1 if 400 <= st < 600 else 7
            meth = {"DELETE": 0, "POST": 1, "PATCH": 2}[op["method"]]
            terms.append("CHttp %d %s %d %d" % (meth, zl(list(op["seg"].encode())), ncode(op.get("to", "")) if meth == 2 else 0, oc))
        elif k == "race":
            # observationally: the other client's create and write, then the rename (refused iff the target exists when it takes effect)
            if oo.get("hit"):
                sub = oo.get("sub") or [{}, {}]
                so = sub[0]
                terms.append("CMop %s %d" % (mop_term("create", op["to"]), 2 if so.get("panic") else 1 if so.get("err") else 0))
                so = sub[1] if len(sub) > 1 else {"err": "missing"}
                lens = so.get("lens") or [0] * len(op["ents"])
                ents = vlib.coq_list([sc.ent_term(CODES, e, l) for e, l in zip(op["ents"], lens)])
                terms.append("CWrite %d %s %d" % (ncode(op["to"]), ents, 7 if so.get("panic") else (1 if so.get("err") == "no dataset" else 7 if so.get("err") else 0)))
            terms.append("CMop %s %d" % (mop_term("rename", op["ds"], op["to"]), 2 if bad else 1 if oo.get("err") else 0))
        elif k == "hold":
            oc = 7 if bad else (1 if oo.get("err") == "no dataset" else 7 if oo.get("err") else 0)
            terms.append("CHold %d %d %d" % (SLOTS[op["slot"]], ncode(op["ds"]), oc))
        elif k == "stale":
            lens = oo.get("lens") or [0] * len(op["ents"])
            ents = vlib.coq_list([sc.ent_term(CODES, e, l) for e, l in zip(op["ents"], lens)])
            oc = 7 if bad else (1 if oo.get("err") == "no handle" else 7 if oo.get("err") else 0)
            terms.append("CStale %d %s %d" % (SLOTS[op["slot"]], ents, oc))
        elif k == "keep":
            q = (CODES.ucode(sc.expand(op["starts"][0])), "None" if op.get("pred", "*") == "*" else "(Some %d)" % CODES.ucode(sc.expand(op["pred"])),
                 vlib.coq_bool(op.get("inverse", False)))
            kept[op["slot"]] = q
            terms.append("CKeep %d %d %s %s %s %s" % ((SLOTS[op["slot"]],) + q + (zl([ncode(d) for d in op.get("datasets", [])]), rel_term(oo, ns))))
        elif k == "cont":
            q = kept.get(op["slot"], (0, "None", "false"))
            terms.append("CCont %d %d %s %s %s" % ((SLOTS[op["slot"]],) + q + (rel_term(oo, ns),)))
        elif k == "changes":
            q = "(QChanges %d %d %d %s)" % (ncode(op["ds"]), op.get("since", 0), op.get("limit", 0), vlib.coq_bool(op.get("latest", False)))
            if bad:
                a = "OOther"
            elif oo.get("err"):
                a = "ONoDataset" if oo["err"] == "no dataset" else "OOther"
            else:
                a = "(OChanges %s %s)" % (vlib.coq_list([sc.oent_term(CODES, e, ns) for e in (oo.get("ents") or [])]), vlib.zlit(oo.get("next", 0)))
            terms.append("CQuery %s %s" % (q, a))
        elif k == "entities":
            q = "(QEntities %d None 0)" % ncode(op["ds"])
            if bad:
                a = "OOther"
            elif oo.get("err"):
                a = "ONoDataset" if oo["err"] == "no dataset" else "OOther"
            else:
                a = "(OPage %s)" % vlib.coq_list([sc.oent_term(CODES, e, ns) for pg in (oo.get("pages") or []) for e in pg])
            terms.append("CQuery %s %s" % (q, a))
        elif k == "get":
            q = "(QGet %d %s)" % (CODES.ucode(sc.expand(op["id"])), zl([ncode(d) for d in op.get("datasets", [])]))
            terms.append("CQuery %s %s" % (q, get_answer(op, oo, ns)))
        elif k == "related":
            pred = "None" if op.get("pred", "*") == "*" else "(Some %d)" % CODES.ucode(sc.expand(op["pred"]))
            q = "(QRelated %d %s %s %s)" % (CODES.ucode(sc.expand(op["starts"][0])), pred, vlib.coq_bool(op.get("inverse", False)),
                                            zl([ncode(d) for d in op.get("datasets", [])]))
            if bad or oo.get("err"):
                a = "OOther"
            else:
                rel = [(CODES.ucode(sc.expand(r["pred"], ns)), CODES.ucode(sc.expand(r["id"], ns))) for pg in (oo.get("rpages") or []) for r in pg]
                a = "(ORel %s)" % vlib.coq_list(["(%d, %d)" % x for x in rel])
            terms.append("CQuery %s %s" % (q, a))
        else:
            raise ValueError("op kind not handled: " + k)
    return vlib.coq_list(["\n  " + t for t in terms])


def predict_text(c, o):
    body = "Definition c : tcase := %s.\n" % term(c, o)
    body += "Eval vm_compute in (map (fun v => first_bad v hub0 aux0 c 0%N) variants, spec_ok c).\n"
    ok, out, _ = vlib.coq_eval("C07p", CHECK_MODULE.split(), body)
    return "first op index the model does not predict, per variant (current, del_atomic, reconcile, fixed); spec_ok: " + out.strip()


_STASH = {}      # id(case) -> (case, obs)
_EXPLAINED = {}  # id(case) -> some variant of the model predicts every observation of the case


def run(binp, cases):
    full = [{"datasets": [], "ops": c["ops"]} for c in cases]
    obs = vlib.run_driver(binp, full, died_obs={"ops": [], "ns": {}})
    for c, o in zip(cases, obs):
        _STASH[id(c)] = (c, o)
    return obs


def _explain_all():
    todo = [k for k in _STASH if k not in _EXPLAINED]
    if not todo:
        return
    terms = [term(*_STASH[k]) for k in todo]
    ev = vlib.coq_evaluate_cases("C07a", CHECK_MODULE, CASE_TYPE, terms, shard=SHARD)
    bad_everywhere = set(ev[0])
    for m in ev[1:len(VARIANTS)]:
        bad_everywhere &= set(m)
    for j, k in enumerate(todo):
        _EXPLAINED[k] = j not in bad_everywhere


def attribute(c, o):
    """A spec failure is attributed to a recorded finding only if (a) the history reaches a hook point at which the pinned step
    order leaves an inconsistent persisted state AND (b) some variant of the model - i.e. the recorded deviations and nothing
    else - predicts every observation of the case; a case no variant predicts is an unexplained failing input."""
    f = None
    for op, oo in zip(c["ops"], o.get("ops", [])):
        if op["op"] == "crash" and oo.get("hit"):
            if op["point"] == "delete.afterRecord":
                f = "F07a"
                break
            if op["point"] in ("create.afterRecord", "rename.afterMove", "rename.afterOldMeta", "delete.afterDeletedSet"):
                f = f or "F19a"
    if f is None:
        return None
    if id(c) not in _STASH:
        _STASH[id(c)] = (c, o)
    _explain_all()
    return f if _EXPLAINED.get(id(c)) else None


def size(c):
    return len(json.dumps(c))


def classify(c, o):
    written = set()
    for op in c["ops"]:
        if op["op"] == "batch":
            written.add(op["ds"])
        if op["op"] == "crash":
            return "crash"
        if op["op"] in ("delete", "rename") and op["ds"] in written:
            return "delete-or-rename-with-data"
        if op["op"] == "rename" and op["ds"] in written:
            written.add(op.get("to"))
    return None


def tags(c, o):
    t = []
    kinds = [op["op"] for op in c["ops"]]
    for k in ("delete", "rename", "gc", "restart", "crash"):
        if k in kinds:
            t.append("has-" + k)
    for op in c["ops"]:
        if op["op"] == "crash":
            t.append("crash@" + op["point"])
    t.append("outcome=" + o.get("outcome", "?"))
    return t
