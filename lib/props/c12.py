"""C12 - deduplicating compaction is invisible to readers (all histories, flush thresholds, crash points, racing writer)."""
import json

import storecases as sc
import vlib

ID = "C12"
PROP_FILE = "Properties/C12.v"
CHECK_MODULE = "Model.Store Model.Compact Check.C12Check"
CASE_TYPE = "tcase"
DRIVER_PKG = "cmd/verif_c12"
SHARD = 40

STORE_FLAGS = [(lk, ob, dm) for dm in ("stored_and_local", "local_else_stored") for (lk, ob) in ((True, True), (False, True), (True, False), (False, False))]
COMPACT_FLAGS = [(sp, bl, sh) for sh in (True, False) for bl in (True, False) for sp in (True, False)]   # (stale_prev, blind_repoint, shared_refs)
VARIANTS = []
for (sp, bl, sh) in COMPACT_FLAGS:
    for f in STORE_FLAGS:
        VARIANTS.append({
            "name": "stale_prev=%s,blind_repoint=%s,shared_refs=%s|lenkeys=%s,objneq=%s,dup=%s" % ((sp, bl, sh) + f),
            # the write-path deviations (F01a, F02a, F02b) are findings of C01/C02: here they only select the model of the write path
            "findings": (["F12a"] if sp else []) + (["F12b"] if bl else []) + (["F12c"] if sh else [])})
VARIANTS[0]["name"] = "current(" + VARIANTS[0]["name"] + ")"
VARIANTS[-1]["name"] = "fixed(" + VARIANTS[-1]["name"] + ")"

RULE = ("a case is a history over 1-2 datasets and a 2-4 id pool: batches whose contents flip back to earlier values, keep references "
        "across property changes, toggle the deleted flag, repeat an element inside the batch (duplicate versions through the public API, "
        "F02a/F02b) and legacy duplicates injected with raw key deletes at any position; then one or two compactions with threshold in "
        "{1,2,3,5,default}, optionally killed at the k-th compact.beforeFlush or compact.afterFlush (every flush index incl. the final one; store reopened) or with a writer committing at the k-th flush; every "
        "compaction is bracketed by the same block of reads (full feed, latest-only feed, listing, current and point-in-time lookups, "
        "unscoped merged lookups, outgoing/incoming relations) and a raw key dump (a failing or panicking read is a spec failure); plus targeted cases: k entities "
        "whose last version is a duplicate, threshold 1-2, a writer at the r-th flush writing an entity whose re-point was already "
        "flushed (then re-posting the old content), or a kill at the r-th flush followed by a complete compaction; non-trivial = the compaction removes or should remove at least one version, "
        "or is crashed/raced; distinct = distinct history JSON")
TRUSTED = [
    "contents are abstracted as in the store core (codes of canonical JSON values; serialized lengths observed from Go); the strategy's "
    "equality is modelled as IsEntityEqual on two stored versions (both decoded from JSON)",
    "the order in which the compactor visits entities (internal ids) is taken from the raw key dump preceding the compaction, "
    "it is an input of the model (theorems quantify over every order)",
    "a crash is realised as a panic at the compact.beforeFlush or compact.afterFlush hook (= every boundary between flush transactions) followed by closing and reopening the store; a racing writer as "
    "StoreEntities called at that hook (the compactor holds no lock, so this is a legal schedule); true parallel interleavings inside "
    "one badger transaction are not explored",
    "reference-index keys are not modelled: they only count towards the flush threshold (2 keys per target); relationship queries are "
    "compared before/after on the implementation, as are unscoped merged multi-dataset lookups; the model predicts 'unchanged' unless a "
    "writer raced, a committed flush (now or earlier in the run) deleted reference keys shared with a kept version of the same recorded "
    "time, or scheduled reference keys of a version that shares its recorded time with another version of the entity (F12c), or the stale comparison base (F12a) makes a difference for some entity of the dataset (both passes are run in lockstep)",
]
ASSUMPTIONS = ["one compaction at a time on a dataset (CompactAsync refuses a second one); the racing writer commits whole batches "
               "between two flushes; no dataset deletion during compaction"]

CODES = sc.Codes()
THRESHOLDS = [1, 1, 2, 3, 5, 0]


# ---------------------------------------------------------------- case construction helpers
def E(i, props, refs=None, deleted=False):
    e = {"id": i, "props": props, "refs": refs or {}}
    if deleted:
        e["deleted"] = True
    return e


def B(ds, *ents):
    return {"op": "batch", "ds": ds, "ents": list(ents)}


def block(ds, pool, tag, ats=()):
    full = ["http://v/" + i for i in pool]
    ops = [{"op": "changes", "ds": ds, "since": 0, "limit": 0},
           {"op": "changes", "ds": ds, "since": 0, "limit": 0, "latest": True},
           {"op": "entities", "ds": ds, "limits": [0]}]
    for i in full:
        ops.append({"op": "get", "id": i, "datasets": [ds]})
    for (i, a) in ats:
        ops.append({"op": "get", "id": "http://v/" + i, "datasets": [ds], "at": {"after_op": a, "exact": False}})
    for i in full:                                            # unscoped lookup, partials of all datasets merged (value order matters)
        ops.append({"op": "get", "id": i, "datasets": [], "merge": True, "mg": True})
    ops.append({"op": "related", "starts": full, "pred": "*", "inverse": False, "datasets": [ds], "limits": [0]})
    ops.append({"op": "related", "starts": full, "pred": "*", "inverse": True, "datasets": [ds], "limits": [0]})
    ops.append({"op": "raw", "ds": ds})
    for o in ops:
        o["blk"] = tag
    return ops


def compact_case(datasets, pool, writes, compactions, later=()):
    """writes: ops; compactions: list of dicts {ds, threshold, crash_at?, race?}; later: writes between compactions"""
    ops = list(writes)
    widx = [i for i, o in enumerate(ops) if o["op"] in ("batch", "dup")]
    for n, cp in enumerate(compactions):
        ds = cp["ds"]
        ats = [(pool[(j + n) % len(pool)], w) for j, w in enumerate(widx[:4])]
        ops += block(ds, pool, "b%d" % n, ats)
        c = {"op": "compact"}
        c.update(cp)
        ops.append(c)
        ops += block(ds, pool, "a%d" % n, ats)
        if n < len(later):
            ops += later[n]
    return {"datasets": datasets, "pool": pool, "ops": ops}


def witness_cases():
    r = {"r1": "e2"}
    A, Bb = {"p1": "a"}, {"p1": "b"}
    cs = []
    # F12a: a, b, a with a reference kept across them
    cs.append(compact_case(["a"], ["e1"], [B("a", E("e1", A, r)), B("a", E("e1", Bb, r)), B("a", E("e1", A, r))],
                           [{"ds": "a", "threshold": 1}]))
    # F12a, other direction: a, b, b (in-batch repeat) with a kept reference: the duplicate survives
    cs.append(compact_case(["a"], ["e1"], [B("a", E("e1", A, r)), B("a", E("e1", Bb, r), E("e1", Bb, r))],
                           [{"ds": "a", "threshold": 0}]))
    # F12b: a writer commits a newer version between the snapshot and the flush that re-points the latest pointer
    cs.append(compact_case(["a"], ["e1"], [B("a", E("e1", A), E("e1", A))],
                           [{"ds": "a", "threshold": 1, "race": {"at": 1, "ents": [E("e1", {"p1": "c"})]}}],
                           later=[[B("a", E("e1", A))] + block("a", ["e1"], "x0")]))
    # F12c: an in-batch duplicate (same recorded time) carrying a reference: removing it deletes the reference keys it shares
    # with the kept version, the relation disappears from the index
    cs.append(compact_case(["a"], ["e1", "e2"], [B("a", E("e1", A, r), E("e1", A, r))], [{"ds": "a", "threshold": 0}]))
    cs.append(compact_case(["a"], ["e1", "e2"], [B("a", E("e1", {"p2": sc.NESTED1}, r), E("e1", {"p2": sc.NESTED1}, r))], [{"ds": "a", "threshold": 2}]))   # 3 delete keys >= 2: one extra flush
    # F12b again, the duplicate injected with raw deletes (does not depend on F02a)
    cs.append(compact_case(["a"], ["e1"], [B("a", E("e1", A)), {"op": "dup", "ds": "a", "id": "http://v/e1"}],
                           [{"ds": "a", "threshold": 1, "race": {"at": 1, "ents": [E("e1", {"p1": "c"})]}}],
                           later=[[B("a", E("e1", A))] + block("a", ["e1"], "x1")]))
    # a writer commits at the SECOND flush a new version of the entity whose pointer re-point was committed by the FIRST flush:
    # no later flush may touch that pointer again
    cs.append(compact_case(["a"], ["e1", "e2"], [B("a", E("e1", A), E("e2", Bb)), {"op": "dup", "ds": "a", "id": "http://v/e1"},
                                                  {"op": "dup", "ds": "a", "id": "http://v/e2"}],
                           [{"ds": "a", "threshold": 1, "race": {"at": 2, "ents": [E("e1", {"p1": "c"})]}}],
                           later=[[B("a", E("e1", A))] + block("a", ["e1", "e2"], "x2")]))
    cs.append(compact_case(["a"], ["e1", "e2", "e3"], [B("a", E("e1", A), E("e2", Bb), E("e3", A)), {"op": "dup", "ds": "a", "id": "http://v/e1"},
                                                        {"op": "dup", "ds": "a", "id": "http://v/e2"}, {"op": "dup", "ds": "a", "id": "http://v/e3"}],
                           [{"ds": "a", "threshold": 1, "race": {"at": 3, "ents": [E("e2", {"p1": "c"}), E("e1", {"p1": "bb"})]}}]))
    # write-path flags, so that the detected variant is the right one: F01a (engineered un-delete), F02b (nested entity re-posted)
    old, new = sc.ENGINEERED[0]
    cs.append(compact_case(["a"], ["e1"], [B("a", sc.with_id("e1", old)), B("a", sc.with_id("e1", new))], [{"ds": "a", "threshold": 1}]))
    cs.append(compact_case(["a"], ["e1"], [B("a", E("e1", {"p2": sc.NESTED1}))] * 3, [{"ds": "a", "threshold": 2}]))
    # F12c, reference-only branch: a deleted version repeats its predecessor's reference; later versions of the SAME batch un-delete and
    # then drop that reference - the scheduled keys are the last version's tombstones, the dropped relation comes back
    cs.append(compact_case(["a"], ["e2", "e3"], [B("a", E("e2", {"p1": 1}, {"r1": "e3"}, True)),
                                                  B("a", E("e2", {"p1": 2}, {"r1": "e3"}, True), E("e2", {"p1": 2}, {"r1": "e3"}), E("e2", {"p1": 3}, {"r1": "e4"}))],
                           [{"ds": "a", "threshold": 0}]))
    # legacy duplicates on two entities, killed at the second flush, compacted again
    cs.append(compact_case(["a"], ["e1", "e2"], [B("a", E("e1", A, r), E("e2", Bb)), {"op": "dup", "ds": "a", "id": "http://v/e1"},
                                                  {"op": "dup", "ds": "a", "id": "http://v/e2"}, {"op": "dup", "ds": "a", "id": "http://v/e1"}],
                           [{"ds": "a", "threshold": 1, "crash_at": 2}, {"ds": "a", "threshold": 2}]))
    # kill at compact.afterFlush of the flush that removes an entity's LATEST version (a duplicate): the re-point must have been
    # committed with the deletion; thresholds 1, 2 and default (there it is the final flush); v2 changes property AND reference
    for thr, k in ((1, 1), (2, 1), (0, 1), (1, 2)):
        cs.append(compact_case(["a"], ["e1", "e2"],
                               [B("a", E("e1", A, r), E("e2", Bb)), B("a", E("e1", Bb, {"r1": "e3"})), {"op": "dup", "ds": "a", "id": "http://v/e1"},
                                {"op": "dup", "ds": "a", "id": "http://v/e2"}],
                               [{"ds": "a", "threshold": thr, "crash_after": k}, {"ds": "a", "threshold": 1}],
                               later=[[B("a", E("e1", {"p1": "c"}))]]))
    # two reference predicates, one kept and one changed across batches (no duplicate, nothing stale): outgoing queries (current and
    # point in time) for the kept predicate must survive the removal of the repeated reference keys
    cs.append(compact_case(["a"], ["e1", "e2"], [B("a", E("e1", A, {"r1": "e2", "r2": "e3"})), B("a", E("e1", A, {"r1": "e2", "r2": "e4"}))],
                           [{"ds": "a", "threshold": 0}]))
    cs.append(compact_case(["a"], ["e1"], [B("a", E("e1", A, {"r1": "e2"})), B("a", E("e1", Bb, {"r1": "e2", "r2": ["e3", "e4"]}))],
                           [{"ds": "a", "threshold": 1}]))
    # the same entity in two datasets sharing a property; in the lower-id dataset the latest version is a legacy duplicate recorded
    # AFTER the other dataset's version: the unscoped merged lookup (value order) must not change
    cs.append(compact_case(["a", "b"], ["e1"], [B("a", E("e1", A, r)), B("b", E("e1", Bb, {"r1": "e3"})), {"op": "dup", "ds": "a", "id": "http://v/e1"}],
                           [{"ds": "a", "threshold": 1}]))
    # no duplicates at all, the last two versions keep a reference; a writer commits a newer version before the (only) flush:
    # the compactor must not touch the latest pointer
    cs.append(compact_case(["a"], ["e1", "e2"], [B("a", E("e1", A, r)), B("a", E("e1", Bb, r))],
                           [{"ds": "a", "threshold": 0, "race": {"at": 1, "ents": [E("e1", {"p1": "c"}, r)]}}],
                           later=[[B("a", E("e1", Bb, r))] + block("a", ["e1", "e2"], "x3")]))
    # two differing versions of one entity in ONE batch keeping a reference (shared reference keys), then a flip back to the first
    cs.append(compact_case(["a"], ["e1", "e2"], [B("a", E("e1", A, r), E("e1", Bb, r)), B("a", E("e1", A, r))], [{"ds": "a", "threshold": 1}]))
    cs.append(compact_case(["a"], ["e1", "e2", "e3"], [B("a", E("e1", A, {"r1": "e2"}), E("e1", A, {"r1": "e2", "r2": "e3"})), B("a", E("e1", Bb, {"r1": "e2"}))],
                           [{"ds": "a", "threshold": 2}]))
    # a kept reference whose value is an empty list, then a flip back
    er = {"r2": []}
    cs.append(compact_case(["a"], ["e1"], [B("a", E("e1", A, er)), B("a", E("e1", Bb, er)), B("a", E("e1", A, er))], [{"ds": "a", "threshold": 0}]))
    # delete / un-delete run with duplicates in between
    cs.append(compact_case(["a"], ["e1"], [B("a", E("e1", A)), B("a", E("e1", A, None, True)), {"op": "dup", "ds": "a", "id": "http://v/e1"},
                                           B("a", E("e1", A)), {"op": "dup", "ds": "a", "id": "http://v/e1"}],
                           [{"ds": "a", "threshold": 3}]))
    return cs


def corpus_cases():
    return []


# ---------------------------------------------------------------- generation
def gen_case(rng, tier):
    nds = rng.choice([1, 1, 1, 2])
    datasets = sc.DS_NAMES[:nds]
    pool = sc.IDS[:rng.choice([1, 2, 2, 3, 4])]
    hist = {}        # (ds, id) -> list of contents
    writes = []

    def content_for(ds, i):
        h = hist.setdefault((ds, i), [])
        r = rng.below(20)
        if h and r < 5 and len(h) >= 2:
            c = h[-2]                                           # flip back
        elif h and r < 9:
            c = json.loads(json.dumps(h[-1]))                   # keep refs (and deleted), change a property
            c["props"] = dict(c["props"])
            c["props"]["p1"] = rng.choice(["a", "b", "bb", 1, 2, True])
        elif h and r < 11:
            c = json.loads(json.dumps(h[-1]))                   # toggle deleted
            if c.get("deleted"):
                c.pop("deleted")
            else:
                c["deleted"] = True
        elif h and r < 13:
            c = h[-1]                                           # identical re-post
        elif r < 15:
            c = {"props": {"p1": rng.choice(["a", "b"])}, "refs": {"r1": rng.choice(sc.IDS[:3])}}
            if rng.chance(1, 3):
                c["refs"]["r2"] = [rng.choice(sc.IDS[:3]), rng.choice(sc.IDS[:3])]
            elif rng.chance(1, 3):
                c["refs"] = {"r2": []}                         # a kept reference with no targets: zero keys on both sides
        elif r < 16:
            old, new = rng.choice(sc.ENGINEERED)
            c = new if h and json.dumps(h[-1], sort_keys=True) == json.dumps(old, sort_keys=True) else old
        else:
            c = sc.gen_content(rng, rich=True)
        return c

    nw = rng.range(2, 6 if tier == "quick" else 9)
    for _ in range(nw):
        ds = datasets[rng.below(nds)] if rng.chance(1, 4) else datasets[0]
        if rng.chance(1, 5) and any(k[0] == ds for k in hist):
            ids = [k[1] for k in hist if k[0] == ds]
            i = rng.choice(ids)
            writes.append({"op": "dup", "ds": ds, "id": "http://v/" + i})
            hist[(ds, i)].append(hist[(ds, i)][-1])
            continue
        ents = []
        for _ in range(rng.choice([1, 1, 2, 2, 3])):
            i = rng.choice(pool)
            c = content_for(ds, i)
            hist[(ds, i)].append(c)
            ents.append(sc.with_id(i, c))
            if rng.chance(1, 3):
                if rng.chance(1, 3):
                    ents.append(sc.with_id(i, c))               # in-batch repeat
                else:                                           # in-batch twin: same references, another property value (same recorded time)
                    c2 = json.loads(json.dumps(c))
                    c2["props"] = dict(c2["props"])
                    c2["props"]["p1"] = rng.choice(["a", "b", "bb", 1, 2, True])
                    hist[(ds, i)].append(c2)
                    ents.append(sc.with_id(i, c2))
        writes.append({"op": "batch", "ds": ds, "ents": ents})
    comps = []
    ncomp = rng.choice([1, 1, 2])
    later = []
    n = 0
    while n < ncomp:
        cp = {"ds": datasets[0], "threshold": rng.choice(THRESHOLDS)}
        r = rng.below(10)
        if r < 2 and n < 2:
            cp[rng.choice(["crash_at", "crash_after"])] = rng.range(1, 3)
            ncomp = max(ncomp, n + 2)                      # a killed compaction is always followed by another one
        elif r < 4:
            i = rng.choice(pool)
            ents = [sc.with_id(i, content_for(datasets[0], i))]
            if rng.chance(1, 3):
                j = rng.choice(pool)
                ents.append(sc.with_id(j, content_for(datasets[0], j)))
            cp["race"] = {"at": rng.range(1, 3), "ents": ents}
            if rng.chance(1, 4) and n < 2:
                cp[rng.choice(["crash_at", "crash_after"])] = rng.range(1, 3)
                ncomp = max(ncomp, n + 2)
        comps.append(cp)
        n += 1
        if n < ncomp:
            lw = []
            if rng.chance(1, 2):
                i = rng.choice(pool)
                lw.append({"op": "batch", "ds": datasets[0], "ents": [sc.with_id(i, content_for(datasets[0], i))]})
            later.append(lw)
    return compact_case(datasets, pool, writes, comps, later)


def gen_refonly_race(rng):
    """entities WITHOUT duplicates whose last two versions (different batches) keep a reference: the compactor only removes repeated
    reference keys of the last version and must not touch the latest pointer; a writer commits a newer version before that flush"""
    k = rng.range(1, 3)
    pool = sc.IDS[:k]
    refs = {i: {"r1": rng.choice(sc.IDS[:3])} for i in pool}
    writes = [B("a", *[E(i, {"p1": "a"}, refs[i]) for i in pool]), B("a", *[E(i, {"p1": "b"}, refs[i]) for i in pool])]
    if rng.chance(1, 3):
        writes.append(B("a", *[E(i, {"p1": "bb"}, refs[i]) for i in pool]))
    r = rng.range(1, k)
    tgt = pool[rng.range(r - 1, k - 1)]                      # an entity whose instruction is not flushed yet at the r-th flush
    ents = [E(tgt, {"p1": rng.choice(["c", "cc", 7])}, refs[tgt] if rng.chance(1, 2) else None)]
    comps = [{"ds": "a", "threshold": rng.choice([1, 1, 2, 0]), "race": {"at": r, "ents": ents}}]
    later = [[B("a", E(tgt, {"p1": "b"}, refs[tgt]))] + block("a", pool, "x8")]
    return compact_case(["a"], pool, writes, comps, later)


def gen_two_preds(rng):
    """entities with two reference predicates; across batches one is kept and the other changes (or is added/removed), properties
    sometimes change too; no duplicates, so the comparison base never matters"""
    k = rng.range(1, 3)
    pool = sc.IDS[:k]
    cur = {i: {"r1": rng.choice(sc.IDS[:4]), "r2": rng.choice([rng.choice(sc.IDS[:4]), [rng.choice(sc.IDS[:4]), rng.choice(sc.IDS[:4])]])} for i in pool}
    p = {i: "a" for i in pool}
    writes = [B("a", *[E(i, {"p1": p[i]}, dict(cur[i])) for i in pool])]
    for _ in range(rng.range(1, 3)):
        ents = []
        for i in pool:
            if rng.chance(1, 4):
                continue
            ch = rng.choice(["r1", "r2"])
            kind = rng.below(3)
            if kind == 0 or ch not in cur[i]:
                cur[i][ch] = rng.choice(sc.IDS[:5])
            elif kind == 1 and len(cur[i]) > 1:
                cur[i].pop(ch)
            else:
                cur[i][ch] = [rng.choice(sc.IDS[:5])]
            if rng.chance(1, 2):
                p[i] = rng.choice(["a", "b", "bb"])
            ents.append(E(i, {"p1": p[i]}, dict(cur[i])))
        if ents:
            writes.append(B("a", *ents))
    cp = {"ds": "a", "threshold": rng.choice(THRESHOLDS)}
    if rng.chance(1, 5):
        cp[rng.choice(["crash_at", "crash_after"])] = rng.range(1, 2)
        return compact_case(["a"], pool, writes, [cp, {"ds": "a", "threshold": 0}], [[]])
    return compact_case(["a"], pool, writes, [cp])


def gen_two_ds(rng):
    """the same entities in datasets a and b with shared keys; legacy duplicates as latest versions, written in an order that
    interleaves the recorded times of the two datasets; either dataset is compacted"""
    k = rng.range(1, 2)
    pool = sc.IDS[:k]
    writes = []
    order = ["a", "b"] if rng.chance(1, 2) else ["b", "a"]
    for d in order:
        writes.append(B(d, *[E(i, {"p1": rng.choice(["a", "b"]), "p2": d}, {"r1": rng.choice(sc.IDS[:3])}) for i in pool]))
    for _ in range(rng.range(1, 3)):
        d = rng.choice(["a", "b"])
        i = rng.choice(pool)
        if rng.chance(2, 3):
            writes.append({"op": "dup", "ds": d, "id": "http://v/" + i})
        else:
            writes.append(B(d, E(i, {"p1": rng.choice(["a", "b", "c"]), "p2": d}, {"r1": rng.choice(sc.IDS[:3])})))
    comps = [{"ds": rng.choice(["a", "b"]), "threshold": rng.choice([1, 2, 0])}]
    if rng.chance(1, 2):
        comps.append({"ds": "b" if comps[0]["ds"] == "a" else "a", "threshold": rng.choice([1, 0])})
    return compact_case(["a", "b"], pool, writes, comps, [[]])


def gen_targeted(rng):
    """k entities whose last version is a (legacy or in-batch) duplicate, threshold 1 or 2; either a writer at the r-th flush
    writing entities whose re-point was (or was not yet) flushed, or a kill at the r-th flush followed by a full compaction"""
    k = rng.range(2, 4)
    pool = sc.IDS[:k]
    writes = [B("a", *[E(i, {"p1": rng.choice(["a", "b", "bb"])}, ({"r1": rng.choice(sc.IDS[:3])} if rng.chance(1, 3) else None)) for i in pool])]
    for i in pool:
        for _ in range(rng.choice([1, 1, 2])):
            writes.append({"op": "dup", "ds": "a", "id": "http://v/" + i})
    thr = rng.choice([1, 1, 2])
    r = rng.range(1, k + 1)
    if rng.chance(2, 3):
        tgt = [rng.choice(pool[:max(1, r - 1)])] + ([rng.choice(pool)] if rng.chance(1, 3) else [])
        ents = []
        for i in dict.fromkeys(tgt):
            ents.append(E(i, {"p1": rng.choice(["c", "cc", 7])}))
        comps = [{"ds": "a", "threshold": thr, "race": {"at": r, "ents": ents}}]
        i = tgt[0]
        later = [[B("a", E(i, {"p1": "a"}))] + block("a", pool, "x9")]
        return compact_case(["a"], pool, writes, comps, later)
    thr = rng.choice([1, 1, 2, 3, 0])
    kind = rng.choice(["crash_at", "crash_after", "crash_after"])
    comps = [{"ds": "a", "threshold": thr, kind: rng.range(1, k + 1) if thr else 1}, {"ds": "a", "threshold": rng.choice(THRESHOLDS)}]
    i = rng.choice(pool)
    return compact_case(["a"], pool, writes, comps, [[B("a", E(i, {"p1": rng.choice(["a", "c"])}))] if rng.chance(1, 2) else []])


def gen(rng, tier):
    n = {"quick": 60, "thorough": 1000, "search": 250}[tier]
    m = {"quick": 20, "thorough": 300, "search": 80}[tier]
    return ([gen_case(rng, tier) for _ in range(n)] + [gen_targeted(rng) for _ in range(m)]
            + [gen_refonly_race(rng) for _ in range(m // 3)] + [gen_two_preds(rng) for _ in range(m // 2)]
            + [gen_two_ds(rng) for _ in range(m // 2)])


def run(binp, cases):
    return vlib.run_driver(binp, cases, died_obs={"ops": [], "ns": {}})


# ---------------------------------------------------------------- (case, observation) -> Coq term
def ticks_of(case, obs):
    """logical clock after every op"""
    t = 0
    out = []
    for i, op in enumerate(case["ops"]):
        oo = obs["ops"][i] if i < len(obs.get("ops", [])) else {}
        k = op["op"]
        if k in ("batch", "txn"):
            t += 1
        elif k == "dup" and oo.get("found"):
            t += 2
        elif k == "compact" and oo.get("raced"):
            t += 1
        out.append(t)
    return out


def get_term(case, op, oo, ns, ticks):
    at = "None"
    if op.get("at"):
        at = "(Some %d)" % ticks[op["at"]["after_op"]]
    found = bool(oo.get("found"))
    parts, deleted = [], False
    if found:
        e = oo["ents"][0]
        plist = (e.get("props") or {}).get("http://data.mimiro.io/core/partials")
        if plist is not None:
            for pe in plist:
                pe = dict(pe)
                pp = dict(pe.get("props") or {})
                dsn = pp.pop("http://data.mimiro.io/core/datasetname", None)
                pe["props"] = pp
                parts.append("(%d, %s)" % (sc.ds_code(case, dsn), sc.content_term(CODES, pe, ns, 0)))
        else:
            deleted = bool(e.get("deleted"))
    return "{| g_id := %d; g_at := %s; g_found := %s; g_parts := %s; g_del := %s |}" % (
        CODES.ucode(sc.expand(op["id"])), at, vlib.coq_bool(found), vlib.coq_list(parts), vlib.coq_bool(deleted))


def robs_term(case, obs, tag, ns, ticks):
    full = latest = listing = "[]"
    gets, rels, merged = [], [], []
    bad = False
    for i, op in enumerate(case["ops"]):
        if op.get("blk") != tag:
            continue
        oo = obs["ops"][i] if i < len(obs.get("ops", [])) else {}
        if oo.get("err") or oo.get("panic"):
            bad = True
        k = op["op"]
        if k == "changes":
            t = vlib.coq_list([sc.oent_term(CODES, e, ns) for e in (oo.get("ents") or [])])
            if op.get("latest"):
                latest = t
            else:
                full = t
        elif k == "entities":
            listing = vlib.coq_list([sc.oent_term(CODES, e, ns) for pg in (oo.get("pages") or []) for e in pg])
        elif k == "get" and op.get("mg"):
            e = (oo.get("ents") or [None])[0]
            merged.append(CODES.vcode(["merged", bool(oo.get("found")), None if e is None else
                                       {"deleted": bool(e.get("deleted")),
                                        "props": {sc.expand(k2, ns): sc.canon_value(v, ns) for k2, v in (e.get("props") or {}).items()},
                                        "refs": {sc.expand(k2, ns): sc.canon_ref(v, ns) for k2, v in (e.get("refs") or {}).items()}}]))
        elif k == "get":
            gets.append(get_term(case, op, oo, ns, ticks))
        elif k == "related":
            for pg in oo.get("rpages") or []:
                for r in pg:
                    rels.append((1 if op.get("inverse") else 0, CODES.ucode(sc.expand(r["start"], ns)) * 10000 + CODES.ucode(sc.expand(r["pred"], ns)),
                                 CODES.ucode(sc.expand(r["id"], ns)) if r["id"] else -1))
    rels.sort()
    return "{| ro_full := %s; ro_latest := %s; ro_listing := %s;\n      ro_gets := %s;\n      ro_rels := %s; ro_merged := %s; ro_bad := %s |}" % (
        full, latest, listing, vlib.coq_list(gets), vlib.coq_list(["(%s, %s, %s)" % tuple(vlib.zlit(x) for x in r) for r in rels]),
        vlib.coq_list([str(x) for x in merged]), vlib.coq_bool(bad))


def vkey_term(ns, v, ticks):
    t = ticks[v["op"]] if 0 <= v.get("op", -1) < len(ticks) else -1
    return "(%d, (%s, %d))" % (CODES.ucode(sc.expand(v["id"], ns)), vlib.zlit(t), v.get("bidx", 0))


def raw_term(case, op, oo, ns, ticks):
    raw = oo.get("raw") or {"versions": [], "log": [], "latest": []}
    log = vlib.coq_list(["(%d, %s)" % (v.get("seq", 0), vkey_term(ns, v, ticks)) for v in raw["log"]])
    lat = sorted(raw["latest"], key=lambda v: CODES.ucode(sc.expand(v["id"], ns)))
    latest = vlib.coq_list(["(%s, %s)" % (vkey_term(ns, v, ticks), vlib.coq_bool(bool(v.get("miss")))) for v in lat])
    vers = sorted((v["id"], v["op"], v.get("bidx", 0)) for v in raw["versions"])
    logk = sorted((v["id"], v["op"], v.get("bidx", 0)) for v in raw["log"])
    cons = vers == logk and not any(v.get("miss") for v in raw["log"])
    return "CRaw %d %s %s %s" % (sc.ds_code(case, op["ds"]), log, latest, vlib.coq_bool(cons))


def term(case, obs):
    ns = obs.get("ns") or {}
    ticks = ticks_of(case, obs)
    terms = []
    ncomp = 0
    last_raw_latest = {}
    for i, op in enumerate(case["ops"]):
        oo = obs["ops"][i] if i < len(obs.get("ops", [])) else {}
        k = op["op"]
        bad = bool(oo.get("err") or oo.get("panic"))
        if k == "batch":
            lens = oo.get("lens") or [0] * len(op["ents"])
            ents = vlib.coq_list([sc.ent_term(CODES, e, l) for e, l in zip(op["ents"], lens)])
            terms.append("CWrite (WBatch %d %s) %s" % (sc.ds_code(case, op["ds"]), ents, vlib.zlit(-2 if bad else oo.get("newseqs", 0))))
        elif k == "dup":
            terms.append("CDup %d %d %s" % (sc.ds_code(case, op["ds"]), CODES.ucode(sc.expand(op["id"])), vlib.coq_bool(bool(oo.get("found")) and not bad)))
        elif k == "raw":
            terms.append(raw_term(case, op, oo, ns, ticks))
            last_raw_latest[op["ds"]] = [CODES.ucode(sc.expand(v["id"], ns)) for v in (oo.get("raw") or {}).get("latest", [])]
        elif k == "compact":
            race = "None"
            if op.get("race"):
                lens = oo.get("lens") or [0] * len(op["race"]["ents"])
                race = "(Some (%d, %s))" % (op["race"]["at"], vlib.coq_list([sc.ent_term(CODES, e, l) for e, l in zip(op["race"]["ents"], lens)]))
            order = vlib.coq_list([str(x) for x in last_raw_latest.get(op["ds"], [])])
            terms.append("CCompact %d %d %d %s %s %s %s %s %s %s\n    %s\n    %s" % (
                sc.ds_code(case, op["ds"]), op.get("threshold", 0), op.get("crash_after", 0) or op.get("crash_at", 0),
                vlib.coq_bool(bool(op.get("crash_after"))), race, order,
                vlib.zlit(-5 if bad else oo.get("flushes", 0)), vlib.coq_bool(bool(oo.get("crashed"))), vlib.coq_bool(bool(oo.get("raced"))),
                vlib.zlit(oo.get("newseqs", 0)), robs_term(case, obs, "b%d" % ncomp, ns, ticks), robs_term(case, obs, "a%d" % ncomp, ns, ticks)))
            ncomp += 1
        elif k in ("changes", "entities", "get", "related"):
            continue
        else:
            raise ValueError("op kind not handled: " + k)
    return vlib.coq_list(["\n  " + t for t in terms])


def predict_text(c, o):
    t = term(c, o)
    body = "Definition c : tcase := %s.\n" % t
    body += "Eval vm_compute in (map (fun v => first_bad v false store0 c 0%N) variants, map spec_op_ok c).\n"
    ok, out, _ = vlib.coq_eval("C12p", CHECK_MODULE.split(), body)
    return "first model-level op index (writes, dups, raw dumps, compactions) not predicted, per variant; spec per op: " + out.strip()[-3000:]


def _compactions(c, o):
    for i, op in enumerate(c["ops"]):
        if op["op"] == "compact":
            yield op, (o["ops"][i] if i < len(o.get("ops", [])) else {})


_ATTR = {}


def attribute(c, o):
    """A spec failure is explained by known findings iff SOME model variant predicts everything observed in this case;
    the finding named is the one whose trigger the case carries.  (Only called on the violation path: one Coq run per case.)"""
    key = json.dumps(c, sort_keys=True)
    if key not in _ATTR:
        body = "Definition c : tcase := %s.\nEval vm_compute in (existsb (fun v => agree v c) variants).\n" % term(c, o)
        ok, out, _ = vlib.coq_eval("C12a", CHECK_MODULE.split(), body)
        _ATTR[key] = bool(ok and "= true" in out)
    if not _ATTR[key]:
        return None
    for op, oo in _compactions(c, o):
        if oo.get("raced"):
            return "F12b"
    for op in c["ops"]:
        if op["op"] == "batch":
            ids = [e["id"] for e in op["ents"] if e.get("refs")]
            if len(ids) != len(set(ids)):
                return "F12c"
    return "F12a"


def size(c):
    return len(json.dumps(c))


def classify(c, o):
    kinds = []
    raws = [(i, oo["raw"]) for i, oo in enumerate(o.get("ops", [])) if oo.get("raw")]
    for i, op in enumerate(c["ops"]):
        if op["op"] != "compact":
            continue
        oo = o["ops"][i] if i < len(o.get("ops", [])) else {}
        if oo.get("crashed"):
            kinds.append("crashed")
        if oo.get("raced"):
            kinds.append("raced")
        before = [r for j, r in raws if j < i]
        after = [r for j, r in raws if j > i]
        if before and after and len(before[-1]["log"]) != len(after[0]["log"]):
            kinds.append("removed")
    for op in c["ops"]:
        if op["op"] == "dup":
            kinds.append("legacy-dup")
    return ",".join(sorted(set(kinds))) or None


def tags(c, o):
    t = ["datasets=%d" % len(c["datasets"]), "pool=%d" % len(c["pool"])]
    for op, oo in _compactions(c, o):
        t.append("threshold=%d" % op.get("threshold", 0))
        if op.get("crash_at"):
            t.append("crash_requested")
        if op.get("crash_after"):
            t.append("crash_after_requested")
        if op.get("race"):
            t.append("race_requested")
        t.append("flushes=%d" % min(oo.get("flushes", 0), 6))
    k = classify(c, o)
    if k:
        t += ["kind=" + x for x in k.split(",")]
    t.append("outcome=" + o.get("outcome", "?"))
    return t
