"""C17 - per-entity error handling isolates failing entities (log handler bisection, maxItems, reRun)."""
import itertools
import os

import vlib

ID = "C17"
PROP_FILE = "Properties/C17.v"
CHECK_MODULE = "Check.C17Check"
CASE_TYPE = "tcase"
DRIVER_PKG = "cmd/verif_c17"
SHARD = 250

VARIANTS = [
    {"name": "current(VCurrent)", "findings": ["F17a", "F17b"]},
    {"name": "reset-clears(VResetClears)", "findings": ["F17b"]},
    {"name": "fixed(VFixed)", "findings": []},
]
RULE = ("sink-level cases = (batch length n, set of permanently failing positions, failing call numbers, maxItems, state of "
        "lastError/recursionDepth/handler count before the call): every subset of failing positions for n <= 5 (quick) or n <= 8 "
        "(thorough) x maxItems 0..3, plus PRNG samples up to n = 64 with stale state and transient failures; job-level cases = "
        "(source length, batch size, handlers log/reRun, maxItems, maxRetries, failing entities, failing calls, kill point, entities "
        "appended between runs, extra cron firings) from the PRNG plus fixed witnesses; a case is non-trivial when the inner sink "
        "fails at least once; distinct = distinct case tuples")
TRUSTED = [
    "the inner sink is the driver's scripted sink (an oracle call number x batch -> error); a failing call delivers nothing",
    "time.AfterFunc is simulated by the driver calling job.Run when handleJobError decremented MaxRetries (RetryDelay set to 100 h); "
    "the real timer (40 ms) is exercised on the witness cases only",
    "kill = runner.killJob called from inside the scripted sink at a given call number (deterministic); the context is only looked "
    "at between pages, as in pipeline.go",
]
ASSUMPTIONS = [
    "one log handler and/or one reRun handler per trigger (verifyErrorHandlers rejects duplicates); reQueue is disabled in the tree",
    "incremental pipeline over a DatasetSource without transform; the source is only appended to between runs",
    "the run gets a ticket (no concurrent run of the same id: that is C11)",
]
EXHAUSTIVE = {"thorough": True}


def _tree_has_f11a():
    """on a tree whose wrappedTransform.EndStoreContext still calls itself (F11a of C11) every run of a job with log handler
    + transform kills the process at the end of the pipeline; the in-process C17 driver then cannot run transform cases
    (that defect is C11's business and is caught there)"""
    try:
        return "return w.EndStoreContext(s)" in open(os.path.join(vlib.REPO, "internal/jobs/error_handler.go")).read()
    except OSError:
        return False


TREE_HAS_F11A = _tree_has_f11a()


def sink(n, bad=(), failcalls=(), k=0, pre_last=-1, pre_depth=0, pre_count=0):
    return {"kind": "sink", "n": n, "bad": sorted(bad), "failcalls": sorted(failcalls), "maxItems": k,
            "preLast": pre_last, "preDepth": pre_depth, "preCount": pre_count}


def job(n, batch, log=True, k=0, rerun=False, retries=0, delay=0, bad=(), failcalls=(), kill=-1, adds=(), crons=0,
        timer=False, burst=0, full=False, transform=False, poke=-1):
    return {"kind": "job", "n": n, "batch": batch, "log": log, "maxItems": k, "rerun": rerun, "maxRetries": retries,
            "retryDelay": delay, "bad": sorted(bad), "failcalls": sorted(failcalls), "killAt": kill, "adds": list(adds),
            "crons": crons, "timer": timer, "burst": burst, "full": full, "transform": transform and not TREE_HAS_F11A, "pokeAt": poke}


def witness_cases():
    return [
        # F17a: 3 rejected entities, the re-runs have nothing to do but are recorded as failed and consume the retries
        job(10, 100, True, 0, True, 2, 1, bad=[1, 4, 7]),
        job(10, 100, True, 0, True, 2, 1, bad=[1, 4, 7], timer=True),
        # F17a without reRun: the next cron firing with nothing to do is recorded with the stale error
        job(3, 2, True, 0, False, 0, 0, bad=[2], crons=1),
        # F17b: a rejected single-entity page followed by a healthy page: the run is recorded as ok
        job(3, 1, True, 0, True, 2, 0, bad=[0]),
        job(5, 2, True, 0, True, 1, 0, bad=[4], adds=[2], crons=1),
        # early stop, kill, transient failure healed by the re-run (no log handler)
        job(12, 4, True, 2, True, 3, 5, bad=[1, 5, 6, 9]),
        job(6, 2, True, 0, True, 3, 0, bad=[1], kill=1),
        job(6, 3, False, 0, True, 2, 0, failcalls=[1], timer=True),
        sink(8, [2, 5], [], 0), sink(8, [2, 5], [], 2), sink(4, [], [0], 0, 7, 0, 0),
        # a failing multi-entity page followed by clean pages: the outcome must still carry the error
        job(10, 4, True, 0, True, 1, 0, bad=[2]), job(30, 10, True, 0, False, 0, 0, bad=[13, 17]),
        # kill after a rejection, log + reRun: recorded as interrupted, no re-run
        job(8, 2, True, 0, True, 2, 0, bad=[0], kill=3), job(9, 3, True, 0, True, 1, 0, bad=[1, 4], kill=5),
        # further failing runs arrive while a re-run is pending: at most maxRetries re-executions in total
        job(4, 100, False, 0, True, 1, 0, bad=[1], burst=2), job(4, 100, False, 0, True, 2, 0, bad=[1], burst=3),
        job(6, 3, True, 0, True, 1, 0, bad=[2], burst=2),
        # fullsync triggers: kill between two batches with a reRun handler (no re-run after a kill), failures, re-runs
        job(6, 2, False, 0, True, 3, 0, kill=1, full=True), job(8, 3, True, 0, True, 2, 0, bad=[4], kill=2, full=True),
        job(6, 2, True, 0, True, 2, 0, bad=[3], full=True), job(5, 2, False, 0, True, 1, 0, failcalls=[1], full=True, crons=1),
        # flaky sink: a batch refused once, its halves accepted: everything delivered, nothing reported => recorded ok, no re-run
        job(8, 4, True, 0, True, 3, 0, failcalls=[0]), job(8, 4, True, 0, True, 3, 0, failcalls=[1]),
        job(8, 4, True, 0, True, 3, 0, failcalls=[0, 1]), job(8, 4, True, 0, True, 3, 0, failcalls=[0, 2]),
        job(12, 100, True, 2, True, 2, 0, failcalls=[0, 3], bad=[7]),
        # jobs WITH a transform (the transform is wrapped too): a bisected batch, then a clean run of the same job object
        job(6, 3, True, 0, True, 2, 0, bad=[1], adds=[3], transform=True),
        job(8, 4, True, 0, False, 0, 0, bad=[2, 3], adds=[2, 2], crons=2, transform=True),
        job(6, 2, True, 2, True, 1, 0, bad=[1, 4], adds=[0, 4], crons=1, transform=True, full=True),
        # a second start of the same job object while the run is in progress (skipped, must not disturb the run)
        job(10, 1, True, 3, False, 0, 0, bad=list(range(10)), poke=2),
        job(12, 4, True, 2, True, 1, 0, bad=[1, 5, 9], poke=3), job(9, 3, True, 0, True, 1, 0, bad=[1], poke=4, transform=True),
    ]


def corpus_cases():
    return []


def subsets(n):
    for m in range(1 << n):
        yield [i for i in range(n) if m >> i & 1]


def rand_subset(rng, n, dens):
    return [i for i in range(n) if rng.chance(dens, 8)]


def gen_sink_random(rng, count, maxn):
    out = []
    for _ in range(count):
        n = rng.range(0, maxn)
        bad = rand_subset(rng, n, rng.choice([0, 1, 1, 2, 4, 8]))
        fc = rand_subset(rng, min(2 * n + 1, 24), rng.choice([0, 0, 1, 2])) if rng.chance(1, 3) else []
        k = rng.choice([0, 0, 1, 2, 3, 5, -1])
        pc = rng.choice([0, 0, 1, 2])
        if k > 0 and pc >= k:       # the handler counter is below the limit whenever the sink is called
            pc = k - 1
        out.append(sink(n, bad, fc, k, rng.choice([-1, -1, 77]), rng.choice([0, 0, 1, 3]), pc))
    return out


def gen_job_random(rng, count, maxn):
    out = []
    for _ in range(count):
        n = rng.range(0, maxn)
        adds = [rng.range(0, 4) for _ in range(rng.choice([0, 0, 1, 2, 3]))]
        tot = n + sum(adds)
        batch = rng.choice([1, 1, 2, 2, 3, 4, 5, 8, 100, 0])
        log = rng.chance(4, 5)
        rerun = rng.chance(2, 3)
        bad = rand_subset(rng, tot, rng.choice([0, 1, 1, 2, 3]))
        fc = rand_subset(rng, 12, rng.choice([1, 2])) if rng.chance(1, 3) else []
        kill = rng.range(0, 8) if rng.chance(1, 6) else -1
        out.append(job(n, batch, log, rng.choice([0, 0, 0, 1, 2, 3, -2]), rerun, rng.choice([0, 1, 2, 3, -1]),
                       rng.choice([0, 1, 7]), bad, fc, kill, adds, rng.choice([0, 0, 1, 2]), full=rng.chance(1, 4),
                       transform=rng.chance(1, 3), poke=(rng.range(0, 8) if rng.chance(1, 4) else -1)))
    return out


def gen_burst(rng, count):
    out = []
    for _ in range(count):
        n = rng.range(2, 8)
        out.append(job(n, rng.choice([2, 3, 100]), rng.chance(1, 2), 0, True, rng.choice([0, 1, 2, 3]), 0,
                       bad=[rng.below(n)], burst=rng.range(2, 4)))
    return out


def gen(rng, tier):
    out = []
    if tier == "quick":
        for n in range(0, 6):
            for bad in subsets(n):
                for k in range(0, 4):
                    out.append(sink(n, bad, [], k))
        out += gen_sink_random(rng, 100, 40)
        out += gen_job_random(rng, 160, 14)
        out += gen_burst(rng, 2)
        return out
    if tier == "search":
        out += gen_sink_random(rng, 300, 64)
        out += gen_job_random(rng, 400, 20)
        return out
    for n in range(0, 9):
        for bad in subsets(n):
            for k in range(0, 4):
                out.append(sink(n, bad, [], k))
    for n in range(1, 7):
        for bad in subsets(n):
            out.append(sink(n, bad, [], 2, 77, 1, 1))
    out += gen_sink_random(rng, 800, 64)
    for n in range(0, 7):          # job level: every failing subset x batch size, log + reRun
        for bad in subsets(n):
            for b in (1, 2, 3, 100):
                out.append(job(n, b, True, (len(bad) + n + b) % 3, True, 2, 0, bad, crons=1))
    out += gen_job_random(rng, 1500, 24)
    out += gen_burst(rng, 12)
    return out


DIED = {"res": 9, "ev": [], "last": -9, "depth": -1, "count": -1, "calls": -1, "delay": -1, "runs": [], "delayOk": False}


def run(binp, cases):
    return vlib.run_driver(binp, cases, died_obs=DIED)


def zl(l):
    return vlib.coq_list([vlib.zlit(x) for x in l])


def evs(ev):
    items = []
    for e in ev or []:
        if e[0] == 0:
            items.append("EDeliv " + zl(e[1:]))
        else:
            items.append("ERep " + vlib.zlit(e[1]))
    return vlib.coq_list(items)


def term(c, o):
    g = lambda k, d=0: c.get(k, d)
    runs = vlib.coq_list([
        "{| or_err := %s; or_processed := %d; or_tok := %d; or_ev := %s; or_retries := %s; or_pending := %s; or_killed := %s |}" % (
            vlib.zlit(-4 if r.get("panic") else r["err"]), r["processed"], r["token"], evs(r["ev"]),
            vlib.zlit(r["retries"]), vlib.coq_bool(r["pending"]), vlib.coq_bool(r.get("killed", False)))
        for r in o.get("runs") or []])
    return ("{| t_job := %s; t_n := %d; t_bad := %s; t_failcalls := %s; t_maxItems := %s; t_preLast := %s; t_preDepth := %d; "
            "t_preCount := %d; t_batch := %s; t_log := %s; t_rerun := %s; t_maxRetries := %s; t_retryDelay := %s; t_killAt := %s; "
            "t_adds := %s; t_crons := %d; t_timer := %s; t_transform := %s; t_pokeAt := %s; t_full := %s; t_burst := %d; o_starts := %d; o_outcome := %d; o_res := %d; o_ev := %s; o_last := %s; o_lastSet := %s; o_depth := %s; "
            "o_count := %s; o_calls := %s; o_delay := %s; o_runs := %s; o_delayOk := %s |}" % (
                vlib.coq_bool(c["kind"] == "job"), c["n"], zl(c["bad"]), zl(c["failcalls"]), vlib.zlit(c["maxItems"]),
                vlib.zlit(g("preLast", -1)), g("preDepth"), g("preCount"), vlib.zlit(g("batch", 1)),
                vlib.coq_bool(g("log", False)), vlib.coq_bool(g("rerun", False)), vlib.zlit(g("maxRetries")),
                vlib.zlit(g("retryDelay")), vlib.zlit(g("killAt", -1)), zl(g("adds", [])), g("crons"),
                vlib.coq_bool(g("timer", False)), vlib.coq_bool(g("transform", False)), vlib.zlit(g("pokeAt", -1)), vlib.coq_bool(g("full", False)), g("burst"), o.get("starts", 0), 0 if o.get("outcome") == "ok" else 1, o.get("res", 9), evs(o.get("ev")),
                vlib.zlit(o.get("last", -9)), vlib.coq_bool(o.get("lastSet", False)), vlib.zlit(o.get("depth", -1)), vlib.zlit(o.get("count", -1)),
                vlib.zlit(o.get("calls", -1)), vlib.zlit(o.get("delay", -1)), runs,
                vlib.coq_bool(o.get("delayOk", False) or c["kind"] != "job")))


def predict_text(c, o):
    t = term(c, o)
    q = ("Definition c : tcase := %s.\n" % t)
    if c["kind"] == "job":
        q += "Eval vm_compute in (map (fun v => map to_orun (predict_job v c)) [VCurrent; VResetClears; VFixed]).\n"
    else:
        q += "Eval vm_compute in (map (fun v => predict_sink v c) [VCurrent; VResetClears; VFixed]).\n"
    ok, out, _ = vlib.coq_eval("C17p", [CHECK_MODULE], q)
    return out.strip()


def attribute(c, o):
    """exact signatures of the recorded findings on the pinned tree (anything else that breaks the spec is NOT attributed):
    F17a = a run that has nothing to read (token at the end of the feed) is recorded as failed with an inner-sink error;
    F17b = a run below the limit is recorded as ok although it rejected entities, every page that contained a rejected
           entity had length 1 (so recursionDepth stayed 0) and a non-empty healthy page came after the last of them"""
    if c["kind"] != "job" or not c["log"] or c["failcalls"] or c["killAt"] >= 0 or c.get("burst"):
        return None
    bad = set(c["bad"])
    tok, n = 0, c["n"]
    adds = list(c["adds"])
    k = c["maxItems"] if c["maxItems"] > 0 else 0
    b = c["batch"] if c["batch"] >= 1 else 10000
    for r in o.get("runs") or []:
        if c.get("full"):
            tok = 0
        bads = [x for x in range(tok, n) if x in bad]
        reps = [e for e in r["ev"] if e[0] == 1]
        if tok >= n and not reps and r["err"] >= 0:
            return "F17a"
        if bads and reps and not (k and len(bads) >= k) and r["err"] == -1:
            pages = [list(range(p, min(p + b, n))) for p in range(tok, n, b)]
            badpages = [i for i, pg in enumerate(pages) if any(x in bad for x in pg)]
            if all(len(pages[i]) == 1 for i in badpages) and badpages[-1] < len(pages) - 1:
                return "F17b"
            return None
        tok = r["token"]
        if adds:
            n += adds.pop(0)
    return None


def size(c):
    return c["n"] * 100 + len(c["bad"]) * 10 + len(c.get("adds", [])) + c.get("crons", 0)


def classify(c, o):
    if c["kind"] == "sink":
        return "rejecting" if (c["bad"] or c["failcalls"]) else None
    fails = any(e[0] == 1 for r in o.get("runs") or [] for e in r["ev"]) or any(r["err"] != -1 for r in o.get("runs") or [])
    return "failing" if fails else None


def tags(c, o):
    t = ["kind=" + c["kind"], "maxItems=%s" % ("0" if c["maxItems"] <= 0 else str(min(c["maxItems"], 3))),
         "n=%s" % ("0-8" if c["n"] <= 8 else "9+"), "oracle=" + ("transient" if c["failcalls"] else "permanent")]
    if c["kind"] == "job":
        runs = o.get("runs") or []
        t += ["burst=%s" % bool(c.get("burst")), "runs=%d" % min(len(runs), 4), "log=%s" % c["log"], "rerun=%s" % c["rerun"],
              "kill=%s" % (c["killAt"] >= 0), "batch=%s" % ("1" if c["batch"] == 1 else ">1")]
        for r in runs[:1]:
            t.append("first=" + {-1: "ok", -2: "max", -3: "interrupt", -4: "other", -5: "noresult"}.get(r["err"], "sinkerror"))
    else:
        t.append("res=%s" % o.get("res"))
    return t
