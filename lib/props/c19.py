"""C19 - dataset catalogue, core.Dataset and the datasets themselves agree."""
import json

import storecases as sc
import vlib

ID = "C19"
PROP_FILE = "Properties/C19.v"
CHECK_MODULE = "Model.Store Model.Catalogue Check.C19Check"
CASE_TYPE = "tcase"
DRIVER_PKG = "cmd/verif_c19"
SHARD = 40

# order = C19Check.variants: (count_core, txn_pub, rm_pub, rmw_atomic), True = repaired
_BITS = [(cc, tp, rp, ra) for cc in (False, True) for tp in (False, True) for rp in (False, True) for ra in (False, True)]
VARIANTS = [{"name": "core_counter=%s,txn_writeback=%s,removal_writeback=%s,rmw_atomic=%s" % b,
             "findings": ([] if b[0] else ["F19c"]) + ([] if b[1] else ["F19d"]) + ([] if b[2] else ["F19e"]) + ([] if b[3] else ["F19b"])}
            for b in _BITS]
VARIANTS[0]["name"] = "current(" + VARIANTS[0]["name"] + ")"
VARIANTS[-1]["name"] = "fixed(" + VARIANTS[-1]["name"] + ")"

RULE = ("a case is a history over the names a,b,c,x:a,y.a (+ core.Dataset; the last two end in another name after ':' / '.'): create (plain / proxy / virtual / public namespaces), delete, "
        "rename (also onto deleted and existing names), re-create, public-namespace updates of a meta entity through a batch or a "
        "transaction on core.Dataset (incl. removal), several meta entities (live ones and tombstones) posted back in one batch, batches and multi-dataset transactions over a 3-6 id pool (repeated ids in a "
        "batch, identical re-posts, ids known from other datasets, ids first seen as reference targets), and forced two-actor "
        "schedules (writer paused between reading and storing its meta entity while a second writer / delete / rename / "
        "public-namespace update runs; writer paused before its id commit while another writer's batch is accepted or rejected, "
        "then its entities stored again); batches the store rejects (nil reference); a `details` snapshot after about every second op and at the end; non-trivial = the history "
        "has a rename, a delete+re-create, an in-batch repeat, a transaction or a forced schedule; distinct = distinct history JSON")
TRUSTED = [
    "meta entities are abstracted to (name, kind code, public-namespaces code, items, deleted); the proxy/virtual configuration "
    "properties and the rdf:type reference are one `kind` code; their serialized length is modelled (Catalogue.meta_len), not observed",
    "badger transactions/iterators are modelled as atomic updates of sorted lists (Model/Store.v); URI->internal-id assignment is "
    "the membership list `known`",
    "the forced schedule is produced by internal/verifhook (updateDataset.afterRead, lock.wait) under -tags verif; only this one "
    "interleaving point is exercised, real goroutine schedules are not",
]
ASSUMPTIONS = ["quiescent observations; sequential histories except for the single forced two-actor schedule; clients do not write "
               "arbitrary entities to core.Dataset (only whole meta entities with changed public namespaces); fewer than 1000 "
               "dataset names (GetDatasetDetails scans one page of 1000); no crash (C04)"]

CODES = sc.Codes()
NAMES = ["a", "b", "c", "x:a", "y.a"]      # the last two end in ":a" / ".a": GET /datasets/a must not return them
CORE = "core.Dataset"
KINDS = {"plain": 0}
PUBS = {}
SETTINGS = [None, None, None, {"pubns": ["http://x/"]}, {"pubns": ["http://y/", "http://z/"]}, {"proxy": "http://remote/p"},
            {"virtual": "function f(){}"}, {"proxy": "http://remote/q", "pubns": ["http://x/"]}]
PUBVALS = [["http://x/"], ["http://y/", "http://z/"], ["http://w/"], []]


def ncode(name):
    if name == CORE:
        return 0
    if name in NAMES:
        return NAMES.index(name) + 1
    return 50 + (sum(ord(ch) for ch in name) % 40)


def kcode(kind):
    if kind not in KINDS:
        KINDS[kind] = len(KINDS)
    return KINDS[kind]


def pcode(lst):
    """None (no public namespaces) or the code of the list"""
    if not lst:
        return None
    k = json.dumps(list(lst))
    if k not in PUBS:
        PUBS[k] = len(PUBS) + 1
    return PUBS[k]


def opt(z):
    return "None" if z is None else "(Some %d)" % z


def settings_term(kind, pub):
    return "{| s_kind := %d; s_pub := %s |}" % (kind, opt(pub))


def set_of(s):
    s = s or {}
    kind = "plain"
    if s.get("proxy"):
        kind = "proxy:" + s["proxy"]
    elif s.get("virtual"):
        kind = "virtual:" + s["virtual"]
    return kcode(kind), pcode(s.get("pubns"))


def meta_term(m):
    pub = None
    if m.get("haspub"):
        pub = pcode(m.get("pubns")) if m.get("pubns") else 999
    return "{| m_name := %s; m_set := %s; m_items := %s; m_del := %s |}" % (
        vlib.zlit(ncode(m.get("name", "")) if m.get("name") else -1), settings_term(kcode(m.get("kind", "plain")), pub),
        vlib.zlit(m.get("items", 0)), vlib.coq_bool(m.get("deleted", False)))


def ents_term(ents, lens):
    lens = list(lens or [])
    lens = lens[:len(ents)] + [0] * (len(ents) - len(lens))
    return vlib.coq_list([sc.ent_term(CODES, e, l) for e, l in zip(ents, lens)])


def rejected(op):
    """a batch holding an entity the store rejects (nil reference added by the driver): no effect on anything"""
    return op["op"] == "batch" and any(e.get("bad") and not e.get("deleted") for e in op["ents"])


def cop_term(op, lens):
    k = op["op"]
    if rejected(op):
        return "OBatch %d []" % ncode(op["ds"])
    if k == "create":
        return "OCreate %d %s" % (ncode(op["ds"]), settings_term(*set_of(op.get("set"))))
    if k == "delete":
        return "ODelete %d" % ncode(op["ds"])
    if k == "rename":
        return "ORename %d %d" % (ncode(op["ds"]), ncode(op["to"]))
    if k == "setpubns":
        return "OSetPub %d %s %s" % (ncode(op["ds"]), opt(pcode(op.get("pubns"))), vlib.coq_bool(op.get("via") == "txn"))
    if k == "batch":
        return "OBatch %d %s" % (ncode(op["ds"]), ents_term(op["ents"], lens))
    if k == "txn":
        lens = list(lens or [])
        sets = []
        for s in op["sets"]:
            sets.append("(%d, %s)" % (ncode(s["ds"]), ents_term(s["ents"], lens[:len(s["ents"])])))
            lens = lens[len(s["ents"]):]
        return "OTxn %s" % vlib.coq_list(sets)
    raise ValueError("op kind not handled: " + k)


def det_items(d):
    """items reported by GetDatasetDetails(name) (= GET /datasets/name) if the entity it returns is the name's own live
    meta entity, else -77 (never predicted): a details answer about another dataset or a deleted entity is no answer"""
    if d.get("detfound") and (d.get("detname") != d["name"] or d.get("detid") != d["name"] or d.get("detdeleted")):
        return -77
    return d.get("detitems", 0)


def snapshot_term(names, oo):
    listed = sorted(ncode(n) for n in (oo.get("list") or []))
    live = sorted((100000 + ncode(i), ncode(n) if n else -1) for i, n in (oo.get("live") or []))
    dss = []
    by = {d["name"]: d for d in (oo.get("ds") or [])}
    for n in names:
        d = by.get(n) or {"name": n, "exists": False, "metas": [], "distinct": -5}
        if d.get("exists"):
            rset = settings_term(kcode(d.get("reckind", "plain")), pcode(d.get("recpubns")))
        else:
            rset = settings_term(0, None)
        dss.append("{| o_name := %d; o_exists := %s; o_rset := %s; o_versions := %s; o_distinct := %s; o_latest := %s; o_det_found := %s; o_det_items := %s |}" % (
            ncode(n), vlib.coq_bool(d.get("exists", False)), rset, vlib.coq_list([meta_term(m) for m in d.get("metas", [])]),
            vlib.zlit(d.get("distinct", 0)), vlib.zlit(d.get("latestcount", 0)), vlib.coq_bool(d.get("detfound", False)),
            vlib.zlit(det_items(d) if d.get("exists") else 0)))
    bad = bool(oo.get("err") or oo.get("panic"))
    return "{| o_names := %s; o_live := %s; o_ds := %s |}" % (
        vlib.coq_list([vlib.zlit(-9)] if bad else [vlib.zlit(x) for x in listed]),
        vlib.coq_list(["(%d, %s)" % (a, vlib.zlit(b)) for a, b in live]), vlib.coq_list(["\n    " + x for x in dss]))


def term(c, o):
    terms = ["SOp (OCreate %d %s)" % (ncode(d), settings_term(0, None)) for d in c["datasets"]]
    ops = o.get("ops") or []
    for i, op in enumerate(c["ops"]):
        oo = ops[i] if i < len(ops) else {}
        k = op["op"]
        if k == "details":
            names = op.get("names") or c["names"]
            if i >= len(ops):
                oo = {"err": "missing"}
            terms.append("SDetails %s %s" % (vlib.coq_list([str(ncode(n)) for n in names]), snapshot_term(names, oo)))
        elif k == "restart":
            continue
        elif k == "setpubnsm":
            terms.append("SPubM %s" % vlib.coq_list(["(%d, %s)" % (ncode(it["ds"]), opt(pcode(it.get("pubns")))) for it in op["items"]]))
        elif k == "concurrent_pair":
            terms.append("%s %d %s (%s) %s %s" % ("SPairC" if op.get("at") == "commit" else "SPair", ncode(op["ds"]), ents_term(op["ents"], oo.get("lens")),
                                                     cop_term(op["b"], oo.get("blens")), vlib.coq_bool(oo.get("reached", False)),
                                                     vlib.coq_bool(oo.get("bblocked", False))))
        else:
            terms.append("SOp (%s)" % cop_term(op, oo.get("lens")))
    if o.get("outcome") != "ok":
        terms.append("SDetails [] {| o_names := [-7]; o_live := []; o_ds := [] |}")   # died / hang: never predicted
    return vlib.coq_list(["\n  " + t for t in terms])


# ---------------------------------------------------------------- cases

def E(i, v="a", refs=None, deleted=False):
    d = {"id": i, "props": {"p1": v}, "refs": refs or {}}
    if deleted:
        d["deleted"] = True
    return d


DET = {"op": "details"}
ALLN = NAMES + [CORE]


def witness_cases():
    return [
        # counting: in-batch repeat of a new id (F02a stores it twice), of an existing id, of an id known from another dataset;
        # id first seen as a reference target; unchanged re-post; transaction sharing ids between datasets
        {"datasets": ["a", "b"], "names": ALLN, "ops": [
            {"op": "batch", "ds": "a", "ents": [E("e1"), E("e1")]}, DET,
            {"op": "batch", "ds": "a", "ents": [E("e1", "b"), E("e1", "b")]}, DET,
            {"op": "batch", "ds": "b", "ents": [E("e1"), E("e1")]}, DET,
            {"op": "batch", "ds": "a", "ents": [E("e2", refs={"r1": "e3"})]}, DET,
            {"op": "batch", "ds": "a", "ents": [E("e3")]}, DET,
            {"op": "batch", "ds": "a", "ents": [E("e3")]}, DET,
            {"op": "txn", "sets": [{"ds": "a", "ents": [E("e4"), E("e5")]}, {"ds": "b", "ents": [E("e4"), E("e1", "z")]}]}, DET]},
        # rename keeps the count, delete + re-create starts from 0, rename onto existing / deleted names, restart
        {"datasets": ["a"], "names": ALLN, "ops": [
            {"op": "batch", "ds": "a", "ents": [E("e1"), E("e2")]},
            {"op": "rename", "ds": "a", "to": "b"}, DET,
            {"op": "batch", "ds": "b", "ents": [E("e3")]},
            {"op": "delete", "ds": "b"}, DET,
            {"op": "create", "ds": "b", "set": {"pubns": ["http://x/"]}}, DET,
            {"op": "batch", "ds": "b", "ents": [E("e1")]}, DET,
            {"op": "create", "ds": "a", "set": {"proxy": "http://remote/p"}},
            {"op": "create", "ds": "c", "set": {"virtual": "function f(){}"}},
            {"op": "rename", "ds": "c", "to": "a"},
            {"op": "delete", "ds": "a"},
            {"op": "rename", "ds": "c", "to": "a"}, DET,
            {"op": "restart"}, DET]},
        # F19d / F19e: public namespaces through a transaction / removed
        {"datasets": ["a"], "names": ALLN, "ops": [
            {"op": "batch", "ds": "a", "ents": [E("e1")]},
            {"op": "setpubns", "ds": "a", "pubns": ["http://x/"], "via": "batch"}, DET,
            {"op": "setpubns", "ds": "a", "pubns": ["http://y/", "http://z/"], "via": "txn"}, DET,
            {"op": "batch", "ds": "a", "ents": [E("e2")]}, DET,
            {"op": "setpubns", "ds": "a", "pubns": [], "via": "batch"}, DET]},
        # forced schedules: writers to different datasets (no lost update), same dataset (serialised by its write lock),
        # public-namespace update and delete in the window (F19b)
        {"datasets": ["a", "b"], "names": ALLN, "ops": [
            {"op": "concurrent_pair", "ds": "a", "ents": [E("e1")], "b": {"op": "batch", "ds": "b", "ents": [E("e2"), E("e3")]}}, DET,
            {"op": "concurrent_pair", "ds": "a", "ents": [E("e4")], "b": {"op": "batch", "ds": "a", "ents": [E("e5")]}}, DET,
            {"op": "concurrent_pair", "ds": "a", "ents": [E("e6")], "b": {"op": "setpubns", "ds": "a", "pubns": ["http://x/"], "via": "batch"}}, DET,
            {"op": "concurrent_pair", "ds": "a", "ents": [E("e7")], "b": {"op": "rename", "ds": "a", "to": "c"}}, DET,
            {"op": "concurrent_pair", "ds": "b", "ents": [E("e8")], "b": {"op": "delete", "ds": "b"}}, DET]},
        # names that end in another name after ':' / '.': each GET /datasets/{name} answers with the name's own meta entity
        {"datasets": ["a"], "names": ALLN, "ops": [
            {"op": "batch", "ds": "a", "ents": [E("e1"), E("e2")]},
            {"op": "create", "ds": "x:a", "set": {"pubns": ["http://x/"]}},
            {"op": "create", "ds": "y.a", "set": None},
            {"op": "batch", "ds": "x:a", "ents": [E("e1"), E("e2"), E("e3")]},
            {"op": "batch", "ds": "y.a", "ents": [E("e4")]}, DET,
            {"op": "setpubns", "ds": "x:a", "pubns": ["http://w/"], "via": "batch"},
            {"op": "rename", "ds": "a", "to": "b"}, DET,
            {"op": "rename", "ds": "x:a", "to": "a"}, {"op": "create", "ds": "x:a", "set": None}, DET,
            {"op": "delete", "ds": "y.a"}, {"op": "restart"}, DET]},
        # several meta entities posted back to core.Dataset in one batch: the tombstone of a deleted dataset (with
        # publicNamespaces) in front of live datasets whose publicNamespaces change; every posted entity is synced
        {"datasets": ["b", "c"], "names": ALLN, "ops": [
            {"op": "create", "ds": "a", "set": {"pubns": ["http://x/"]}},
            {"op": "batch", "ds": "b", "ents": [E("e1")]},
            {"op": "delete", "ds": "a"}, DET,
            {"op": "setpubnsm", "items": [{"ds": "a", "pubns": ["http://x/"]}, {"ds": "b", "pubns": ["http://y/", "http://z/"]},
                                          {"ds": "c", "pubns": ["http://w/"]}]}, DET,
            {"op": "restart"}, DET,
            {"op": "setpubnsm", "items": [{"ds": "c", "pubns": ["http://x/"]}, {"ds": "a", "pubns": ["http://w/"]},
                                          {"ds": "zz", "pubns": ["http://w/"]}, {"ds": "b", "pubns": ["http://w/"]}]}, DET,
            {"op": "batch", "ds": "b", "ents": [E("e2")]}, DET]},
        # writer held before its id commit while another writer's batch to a different dataset is rejected / accepted;
        # then the same entities are stored again: counted once, one latest version per id
        {"datasets": ["a", "b"], "names": ALLN, "ops": [
            {"op": "concurrent_pair", "at": "commit", "ds": "a", "ents": [E("e1"), E("e2")],
             "b": {"op": "batch", "ds": "b", "ents": [dict(E("e3"), bad=True)]}}, DET,
            {"op": "batch", "ds": "a", "ents": [E("e1"), E("e2")]},
            {"op": "batch", "ds": "b", "ents": [E("e3")]}, DET,
            {"op": "concurrent_pair", "at": "commit", "ds": "a", "ents": [E("e4", refs={"r1": "e5"})],
             "b": {"op": "batch", "ds": "b", "ents": [E("e4"), E("e5")]}}, DET,
            {"op": "batch", "ds": "a", "ents": [E("e4", refs={"r1": "e5"}), E("e5")]},
            {"op": "batch", "ds": "b", "ents": [dict(E("e6"), bad=True), E("e7")]}, DET,
            {"op": "concurrent_pair", "at": "commit", "ds": "b", "ents": [E("e8")],
             "b": {"op": "batch", "ds": "b", "ents": [E("e9")]}}, DET]},
    ]


def corpus_cases():
    return []


def make_bad(rng, ents):
    """mark one entity so that the store rejects the batch (a nil reference on a non-deleted entity: the reference
    loop is not run for deleted ones)"""
    e = ents[rng.below(len(ents))]
    e["bad"] = True
    e.pop("deleted", None)


def gen_write(rng, live, pool, memo):
    if len(live) > 1 and rng.chance(1, 4):
        names = [n for n in live if rng.chance(2, 3)] or [live[0]]
        return {"op": "txn", "sets": [{"ds": n, "ents": sc.gen_batch(rng, pool, memo, n, False)} for n in names]}
    n = rng.choice(live)
    return {"op": "batch", "ds": n, "ents": sc.gen_batch(rng, pool, memo, n, False)}


def gen_case(rng, nops, pairs=True):
    pool = sc.IDS[:rng.choice([3, 4, 5])] + (["e6"] if rng.chance(1, 2) else [])
    start = NAMES[:rng.choice([1, 2, 2])]
    live = list(start)
    memo = {}
    ops = []

    def forget(n):
        for k in [k for k in memo if k[0] == n]:
            del memo[k]

    for _ in range(nops):
        r = rng.below(20)
        if r < 9 and live:
            w = gen_write(rng, live, pool, memo)
            if w["op"] == "batch" and rng.chance(1, 12):
                make_bad(rng, w["ents"])     # rejected by the store: no effect
            ops.append(w)
        elif r < 11:
            n = rng.choice(NAMES)                      # create / re-create (also of an existing name: refused)
            ops.append({"op": "create", "ds": n, "set": rng.choice(SETTINGS)})
            if n not in live:
                live.append(n)
                forget(n)
        elif r < 13:
            n = rng.choice(NAMES + [CORE] if rng.chance(1, 8) else NAMES)
            ops.append({"op": "delete", "ds": n})
            if n in live:
                live.remove(n)
        elif r < 15:
            n, m = rng.choice(NAMES), rng.choice(NAMES)
            ops.append({"op": "rename", "ds": n, "to": m})
            if n in live and m not in live:
                live[live.index(n)] = m
                for k in [k for k in memo if k[0] == n]:
                    memo[(m, k[1])] = memo.pop(k)
        elif r < 17 and rng.chance(1, 3):
            names = list(NAMES)                       # existing, deleted and never created names, each once
            rng.shuffle(names)
            names = names[:rng.range(2, 3)]
            ops.append({"op": "setpubnsm", "items": [{"ds": n, "pubns": rng.choice(PUBVALS[:3] if rng.chance(4, 5) else PUBVALS)}
                                                     for n in names]})
        elif r < 17 and live:
            ops.append({"op": "setpubns", "ds": rng.choice(live), "pubns": rng.choice(PUBVALS), "via": rng.choice(["batch", "batch", "txn"])})
        elif r < 18 and live and pairs and rng.chance(1, 2):
            # writer 1 held before its id commit; writer 2: accepted or rejected batch (mostly to another dataset);
            # afterwards writer 1's entities are stored again
            n = rng.choice(live)
            a = {"op": "batch", "ds": n, "ents": sc.gen_batch(rng, pool, memo, n, False)}
            m = rng.choice(live)
            b = {"op": "batch", "ds": m, "ents": sc.gen_batch(rng, pool, memo, m, False)}
            if rng.chance(1, 2):
                make_bad(rng, b["ents"])
            ops.append({"op": "concurrent_pair", "at": "commit", "ds": n, "ents": a["ents"], "b": b})
            ops.append({"op": "batch", "ds": n, "ents": json.loads(json.dumps(a["ents"]))})
            if rng.chance(1, 2):
                ops.append({"op": "batch", "ds": m, "ents": [{k: v for k, v in e.items() if k != "bad"} for e in b["ents"]]})
        elif r < 18 and live and pairs:
            n = rng.choice(live)
            a = {"op": "batch", "ds": n, "ents": sc.gen_batch(rng, pool, memo, n, False)}
            k = rng.below(5)
            if k == 0:
                b = {"op": "delete", "ds": n}
            elif k == 1:
                b = {"op": "setpubns", "ds": n, "pubns": rng.choice(PUBVALS), "via": "batch"}
            elif k == 2:
                b = {"op": "rename", "ds": n, "to": rng.choice(NAMES)}
            else:
                b = gen_write(rng, live, pool, memo)
            ops.append({"op": "concurrent_pair", "ds": n, "ents": a["ents"], "b": b})
            if b["op"] == "delete" and n in live:
                live.remove(n)
            if b["op"] == "rename" and b["to"] not in live and b["to"] != n:
                live[live.index(n)] = b["to"]
                for kk in [kk for kk in memo if kk[0] == n]:
                    memo[(b["to"], kk[1])] = memo.pop(kk)
        elif r < 19:
            ops.append({"op": "restart"})
        else:
            ops.append(dict(DET))
        if rng.chance(1, 2):
            ops.append(dict(DET))
    ops.append(dict(DET))
    return {"datasets": start, "names": ALLN, "ops": ops}


def gen(rng, tier):
    n = {"quick": 140, "thorough": 1500, "search": 250}[tier]
    return [gen_case(rng, rng.range(3, 9 if tier == "quick" else 14)) for _ in range(n)]


def run(binp, cases):
    return vlib.run_driver(binp, cases, died_obs={"ops": [], "ns": {}})


def predict_text(c, o):
    body = "Definition c : tcase := %s.\n" % term(c, o)
    body += "Eval vm_compute in (map (fun v => option_map fst (first_bad v (cat_init v) c 0%N)) variants, spec_ok c).\n"
    ok, out, _ = vlib.coq_eval("C19p", CHECK_MODULE.split(), body)
    return "first op (details / pair, counted over modelled ops) the model does not predict, per variant; spec_ok: " + out.strip()[-1500:]


def _spec_failures(c, o):
    """which findings' signatures appear in the observation (python mirror of the attribution only)"""
    found = set()
    ops = o.get("ops") or []
    for i, op in enumerate(c["ops"]):
        if op["op"] != "details" or i >= len(ops):
            continue
        oo = ops[i]
        live = oo.get("live") or []
        for d in oo.get("ds") or []:
            metas = d.get("metas") or []
            last = metas[-1] if metas else None
            if d.get("exists"):
                if last is None or last["deleted"]:
                    found.add("other")
                    continue
                if last["items"] != d["distinct"] or d.get("latestcount", 0) != d["distinct"]:
                    found.add("F19c" if d["name"] == CORE and d.get("latestcount", 0) == d["distinct"] else "counter")
                mp = last["pubns"] if last["haspub"] else []
                if list(mp) != list(d.get("recpubns") or []):
                    found.add("pub")
                # name, kind (plain / proxy / virtual configuration), uniqueness of the live entity, GET /datasets/{name}:
                # never explained by a known finding
                if last.get("name") != d["name"] or last.get("kind") != d.get("reckind"):
                    found.add("counter")
                mine = [l for l in live if l[0] == d["name"] or l[1] == d["name"]]
                if mine != [[d["name"], d["name"]]] and mine != [(d["name"], d["name"])]:
                    found.add("counter")
                if not d.get("detfound") or det_items(d) == -77 or (d["name"] != CORE and d.get("detitems") != d["distinct"]):
                    found.add("counter")
            else:
                if any(l[0] == d["name"] or l[1] == d["name"] for l in live):
                    found.add("F19b")
    return found


def attribute(c, o):
    f = _spec_failures(c, o)
    has_pair = any(op["op"] == "concurrent_pair" and op.get("at") != "commit" for op in c["ops"])
    if "counter" in f:
        return None
    if "other" in f:
        return "F19b" if has_pair else None
    if "F19b" in f:
        return "F19b" if has_pair else None
    if "pub" in f:
        if has_pair:
            return "F19b"
        if any(op["op"] == "setpubns" and op.get("via") == "txn" for op in c["ops"]):
            return "F19d"
        if any((op["op"] == "setpubns" and not op.get("pubns")) or
               (op["op"] == "setpubnsm" and any(not it.get("pubns") for it in op["items"])) for op in c["ops"]):
            return "F19e"
        return None
    if "F19c" in f:
        return "F19c"
    return None


def size(c):
    return len(json.dumps(c))


def classify(c, o):
    kinds = [op["op"] for op in c["ops"]]
    if "concurrent_pair" in kinds:
        return "forced-schedule"
    if "rename" in kinds:
        return "rename"
    if "delete" in kinds and "create" in kinds:
        return "delete+create"
    if "txn" in kinds:
        return "txn"
    for op in c["ops"]:
        if op["op"] == "batch":
            ids = [e["id"] for e in op["ents"]]
            if len(ids) != len(set(ids)):
                return "in-batch-repeat"
    return None


def tags(c, o):
    t = []
    for k in ("create", "delete", "rename", "setpubns", "setpubnsm", "batch", "txn", "concurrent_pair", "restart"):
        if any(op["op"] == k for op in c["ops"]):
            t.append("has-" + k)
    t.append("outcome=" + o.get("outcome", "?"))
    return t
