"""C06 - history is immutable: answers pinned to a past instant never change."""
import json

import storecases as sc
import vlib
from props import c03 as c3

ID = "C06"
PROP_FILE = "Properties/C06.v"
CHECK_MODULE = "Model.Store Model.Refs Model.Query Check.C03Check Check.C06Check"
CASE_TYPE = "pcase"
EVAL_FN = "C06Check.evaluate"
DRIVER_PKG = "cmd/verif_c06"
SHARD = 8

# order = Check/C06Check.v [pvariants]: body_now outermost, then C03's variants
VARIANTS = [{"name": "body_now=%s,%s" % (bn, v["name"].replace("current(", "").replace("fixed(", "").rstrip(")")),
             # only deviations that violate C06 are C06 findings; C03's flags merely identify the tree
             "findings": (["F06a"] if bn else [])}
            for bn in (True, False) for v in c3.VARIANTS]
VARIANTS[0]["name"] = "current(" + VARIANTS[0]["name"] + ")"
VARIANTS[-1]["name"] = "fixed(" + VARIANTS[-1]["name"] + ")"

RULE = ("a case is a history as for C03 (2 datasets, 4 ids, 2 predicates, single/array references, delete/un-delete inside a batch and "
        "across batches, transactions); right after every write a few probes are asked 'now' - entity lookups (id x scope) and "
        "relationship queries (start x predicate x direction x scope x page limit, continuations followed, bodies of the related "
        "entities unmerged) - and after EVERY later write the same probes are asked again pinned to that write's instant (exactly its "
        "commit time, or an instant after it); the pinned answer is compared with the recorded one and with the model; "
        "non-trivial = at least one probed entity or relation is changed by a later write; distinct = distinct history JSON")
TRUSTED = list(c3.TRUSTED) + [
    "bodies of related entities and looked-up entities are compared as (dataset, content) partials in dataset order plus the "
    "has-deleted flag (the unmerged multi-origin form the store returns)",
]
ASSUMPTIONS = list(c3.ASSUMPTIONS) + ["maintenance operations (dataset deletion, garbage collection, compaction) are outside C06 (C07, C12)"]

GET_SCOPES = [None, ["a"], ["b"], ["a", "b"], ["zz"], ["px"]]
CORE = "http://data.mimiro.io/core/"


def body_term(codes, e, ns, o):
    """observed entity (unmerged) -> Coq body term ((partials, hasDeleted))"""
    if e is None:
        return "([], false)"
    plist = (e.get("props") or {}).get(CORE + "partials")
    parts = []
    if plist is not None:
        for pe in plist:
            pe = dict(pe)
            pp = dict(pe.get("props") or {})
            dsn = pp.pop(CORE + "datasetname", None)
            pe["props"] = pp
            parts.append("(%d, %s)" % (c3.ds_code(o, dsn), sc.content_term(codes, pe, ns, 0)))
    elif (e.get("props") or e.get("refs")):
        parts.append("(0, %s)" % sc.content_term(codes, e, ns, 0))      # unexpected shape: matches nothing
    return "(%s, %s)" % (vlib.coq_list(parts), vlib.coq_bool(bool(e.get("deleted")) and not parts))


def get_obs_term(codes, oo, ns, o):
    found = bool(oo.get("found"))
    e = oo["ents"][0] if found and oo.get("ents") else None
    return vlib.coq_bool(found), body_term(codes, e, ns, o)


def pages_term(codes, oo, ns, o):
    pages = []
    for pg in (oo.get("rpages") or []):
        rows = []
        for r in pg:
            rows.append("((%d, %d, %d), %s)" % (codes.ucode(sc.expand(r["start"], ns)), codes.ucode(sc.expand(r["pred"], ns)),
                                               codes.ucode(sc.expand(r["id"], ns)), body_term(codes, r.get("body"), ns, o)))
        pages.append(vlib.coq_list(rows))
    return vlib.coq_list(pages)


BAD_PAGES = "(Some [[((-9, -9, -9), ([], false))]])"
UNOBSERVED = "([(0, {| c_del := false; c_props := []; c_refs := []; c_len := 0 |})], true)"   # C06Check.unobserved
BAD_WRITE = "PAsk 9998 (BGet 0 []) (ORel None)"      # kind mismatch: no variant agrees

_SEEN = {}
_UNEXPLAINED = None


def term(c, o):
    _SEEN[json.dumps(c, sort_keys=True)] = (c, o)
    return _term(c, o)


def sub_pid(i, phase, j):
    return 1000000 + i * 1000 + (0 if phase == "pre" else 500) + j


def _term(c, o):
    codes = c3.IdCodes(o)
    ns = o.get("ns") or {}
    dss = vlib.coq_list([str(c3.ds_code(o, d)) for d in c["datasets"] + c.get("proxies", []) if d in (o.get("dsids") or {})])
    dead = o.get("outcome") != "ok"
    terms = []
    pids = {}       # probe key (op index, or sub_pid of a probe inside a race op) -> small probe id (a nat in Coq)

    def pid_new(key):
        pids[key] = len(pids)
        return pids[key]

    def obs_of(i):
        return o["ops"][i] if i < len(o.get("ops", [])) else {}

    def probe_terms(op, oo, bad):
        req = vlib.coq_list([str(c3.ds_code(o, d)) for d in op.get("datasets", [])])
        if op["op"] == "get":
            probe = "(BGet %d %s)" % (codes.ucode(sc.expand(op["id"])), req)
            if bad:
                ob = "(OGet true ([(0, {| c_del := false; c_props := []; c_refs := []; c_len := -9 |})], false))"
            else:
                ob = "(OGet %s %s)" % get_obs_term(codes, oo, ns, o)
        else:
            pred = 0 if op["pred"] == "*" else codes.ucode(sc.expand(op["pred"]))
            starts = vlib.coq_list([str(codes.ucode(sc.expand(s))) for s in op["starts"]])
            lims = vlib.coq_list([vlib.zlit(x) for x in op.get("limits", [])])
            probe = "(BRel %s %d %s %s %s)" % (starts, pred, vlib.coq_bool(op.get("inverse", False)), req, lims)
            if bad and "could not load predicate id" in (oo.get("err") or ""):
                ob = "(ORel None)"
            elif bad:
                ob = "(ORel %s)" % BAD_PAGES
            else:
                ob = "(ORel (Some %s))" % pages_term(codes, oo, ns, o)
        return probe, ob

    def ents_term(ents, lens):
        return vlib.coq_list([sc.ent_term(codes, e, l) for e, l in zip(ents, lens)])

    for i, op in enumerate(c["ops"]):
        oo = obs_of(i)
        bad = dead or bool(oo.get("err") or oo.get("panic"))
        k = op["op"]
        if k == "batch":
            lens = oo.get("lens") or [0] * len(op["ents"])
            terms.append("PWrite (WBatch %d %s)" % (c3.ds_code(o, op["ds"]), ents_term(op["ents"], lens)))
            if bad:
                terms.append(BAD_WRITE)
        elif k == "txn":
            lens = list(oo.get("lens") or [])
            sets = []
            for s in op["sets"]:
                ls = lens[:len(s["ents"])] + [0] * (len(s["ents"]) - len(lens[:len(s["ents"])]))
                lens = lens[len(s["ents"]):]
                sets.append("(%d, %s)" % (c3.ds_code(o, s["ds"]), ents_term(s["ents"], ls)))
            terms.append("PWrite (WTxn %s)" % vlib.coq_list(sets))
            if bad:
                terms.append(BAD_WRITE)
        elif k == "race":
            # sequential outcome: [probes while writer 1 waits] writer 2 [probes] writer 1
            lens = list(oo.get("lens") or [0] * (len(op["ents"]) + len(op["second"])))
            l1, l2 = lens[:len(op["ents"])], lens[len(op["ents"]):]
            dsc = c3.ds_code(o, op["ds"])
            for phase, key in (("pre", "preobs"), ("mid", "midobs")):
                if phase == "mid":
                    terms.append("PWrite (WBatch %d %s)" % (dsc, ents_term(op["second"], l2)))
                subs = oo.get(key) or []
                for j, sub in enumerate(op.get(phase, [])):
                    so = subs[j] if j < len(subs) else {"err": "missing"}
                    probe, ob = probe_terms(sub, so, dead or bool(so.get("err") or so.get("panic")))
                    terms.append("PAsk %d %s %s" % (pid_new(sub_pid(i, phase, j)), probe, ob))
            terms.append(("PWrite (WTxn [(%d, %s)])" if op.get("first_txn") else "PWrite (WBatch %d %s)") % (dsc, ents_term(op["ents"], l1)))
            if bad:
                terms.append(BAD_WRITE)
        elif k in ("httpq", "jsq"):
            pass                    # page 1 of a POST /query resp. of a transform's PagedQuery; reported with the later pages at the cont op
        elif k in ("httpcont", "jscont", "httpat"):
            # the whole paged query: first page before, continuation after the writes in between (httpcont / jscont), or asked over
            # HTTP with tokens the driver pins to the probe's instant (httpat); rows by triples only
            def rows(pages):
                return vlib.coq_list([vlib.coq_list(["((%d, %d, %d), %s)" % (
                    codes.ucode(sc.expand(r["start"], ns)), codes.ucode(sc.expand(r["pred"], ns)), codes.ucode(sc.expand(r["id"], ns)), UNOBSERVED)
                    for r in pg]) for pg in pages])
            if k == "httpat":
                if bad and "could not load predicate id" in (oo.get("err") or ""):
                    ob = "(ORel None)"
                elif bad:
                    ob = "(ORel %s)" % BAD_PAGES
                else:
                    ob = "(ORel (Some %s))" % rows(oo.get("rpages") or [[]])
            else:
                first = [j for j in range(i) if c["ops"][j]["op"] in ("httpq", "jsq") and c["ops"][j]["id"] == op["id"]]
                fo = obs_of(first[0]) if first else {"err": "no first page"}
                if "could not load predicate id" in (fo.get("err") or ""):
                    continue            # refused at the first request (unknown predicate): nothing was paged
                if bad or fo.get("err") or fo.get("panic"):
                    ob = "(ORel %s)" % BAD_PAGES
                else:
                    pages = list(fo.get("rpages") or []) + list(oo.get("rpages") or [])
                    ob = "(ORel (Some %s))" % rows(pages or [[]])
            terms.append("PPin %d %s" % (pids.get(op["_twin"], 9999), ob))
        elif k in ("get", "related"):
            probe, ob = probe_terms(op, oo, bad)
            if "_twin" in op:
                terms.append("PPin %d %s" % (pids.get(op["_twin"], 9999), ob))      # the probe itself is the one recorded under that id
            else:
                terms.append("PAsk %d %s %s" % (pid_new(i), probe, ob))
        else:
            raise ValueError("op kind not handled: " + k)
    return "{| pc_ds := %s; pc_ops := %s |}" % (dss, vlib.coq_list(["\n  " + t for t in terms]))


# ------------------------------------------------------------------ cases
def g(i, datasets=None, at=None, exact=False, twin=None):
    op = {"op": "get", "id": c3.U(i)}
    if datasets:
        op["datasets"] = list(datasets)
    if at is not None:
        op["at"] = {"after_op": at, "exact": bool(exact)}
    if twin is not None:
        op["_twin"] = twin
    return op


def r(starts, pred="*", inverse=False, datasets=None, limits=(0,), at=None, exact=False, twin=None):
    op = c3.q(starts, pred, inverse, datasets, limits, at, exact)
    op["bodies"] = True
    if twin is not None:
        op["_twin"] = twin
    return op


def pin(op, at, exact, twin, phase=None):
    p = json.loads(json.dumps(op))
    if exact and not phase and p["op"] == "related" and twin % 2 == 0 and p["limits"][0] >= 1:     # (HTTP reads limit 0 as 100)
        # every other probe pinned EXACTLY at a commit time is re-asked over HTTP, with continuation tokens carrying that instant
        p = {"op": "httpat", "starts": p["starts"], "pred": p["pred"], "inverse": p["inverse"], "limit": p["limits"][0]}
        if op.get("datasets"):
            p["datasets"] = list(op["datasets"])
    p["at"] = {"after_op": at, "exact": bool(exact)}
    if phase:
        p["at"]["phase"] = phase
    p["_twin"] = twin
    return p


def cont_op(kind, sid, twin, lim, n):
    op = {"op": kind, "id": sid, "limit": lim, "_twin": twin}
    if kind == "httpcont" and n % 2 == 1:
        op["resend"] = True         # the client re-sends its original query document with the tokens added
    return op


def with_probes(writes, probes_for, exact_for, http_for=None):
    """interleave: after write i its probes 'now'; after every later write all earlier probes pinned.  A race op
    (writer 1 waits for the dataset lock while writer 2 commits) additionally asks its probes while writer 1 waits -
    before writer 2 starts ("pre") and after it committed ("mid") - and they are pinned to those instants afterwards."""
    ops = []
    recorded = []                       # (index of the write op, phase, probe id, probe)
    pending = []                        # paged POST /query sessions whose continuation requests follow the next write
    for wi, w in enumerate(writes):
        widx = len(ops)
        if w["op"] == "race":
            w = json.loads(json.dumps(w))
            sub = probes_for(wi)[:3]
            w["pre"] = json.loads(json.dumps(sub))
            w["mid"] = json.loads(json.dumps(sub))
            ops.append(w)
            for (wj, ph, pj, probe) in recorded:
                ops.append(pin(probe, wj, exact_for(wi, pj), pj, ph))
            for ph in ("pre", "mid"):
                for j, probe in enumerate(sub):
                    pj = sub_pid(widx, ph, j)
                    recorded.append((widx, ph, pj, probe))
                    ops.append(pin(probe, widx, False, pj, ph))        # right after the race: the waiting writer has committed
        else:
            ops.append(w)
            for (wj, ph, pj, probe) in recorded:
                ops.append(pin(probe, wj, exact_for(wi, pj), pj, ph))
        for (kind, sid, twin, lim) in pending:
            ops.append(cont_op(kind, sid, twin, lim, wi))
        pending = []
        for probe in probes_for(wi):
            ops.append(probe)
            recorded.append((widx, None, len(ops) - 1, probe))
        for h in (http_for(wi) if http_for else None) or []:
            kind, starts, pred, inv, scope, lim = h
            twin = r(starts, pred, inv, scope, [lim])          # the same paged query through the store API, all pages now
            ops.append(twin)
            recorded.append((widx, None, len(ops) - 1, twin))
            if kind == "http":      # POST /query, first page now, continuation requests after the next write
                ops.extend(c3.hq("h%d" % wi, starts, pred, inv, scope, lim)[:1])
                pending.append(("httpcont", "h%d" % wi, len(ops) - 2, lim))
            else:                   # a transform's PagedQuery, first page now, continued (same parameter object + tokens) after the next write
                ops.extend(c3.js("j%d" % wi, starts[0], pred, scope, lim)[:1])
                pending.append(("jscont", "j%d" % wi, len(ops) - 2, lim))
    for (kind, sid, twin, lim) in pending:
        ops.append(cont_op(kind, sid, twin, lim, len(writes)))
    return ops


def witness_cases():
    E, B = c3.ent, c3.B
    w1 = [B("a", E("e1", {"r1": "e2"}), E("e2", {}, False, {"p1": "a"})),
          B("a", E("e2", {}, False, {"p1": "b"})),                       # the related entity changes: F06a
          B("a", E("e1", {"r1": "e2"}, True)),                            # the relation is deleted
          B("b", E("e1", {"r2": ["e2", "e3"]}), E("e2", {}, True, {"p1": "a"}))]
    probes = lambda wi: [g("e1"), g("e2", ["a"]), r(["e1"]), r(["e2"], inverse=True), r(["e1"], limits=[1])] if wi < 3 else []
    w2 = [B("a", E("e1", {"r1": "e2"}), E("e1", {"r1": "e2"}, True), E("e1", {"r1": ["e2", "e3"]})),   # several versions at one commit time
          B("a", E("e1", {"r1": "e3"})), B("a", E("e1", {}, True))]
    probes2 = lambda wi: [g("e1", ["a"]), r(["e1"], limits=[1]), r(["e3"], "r1", True)] if wi < 2 else []
    w3 = [B("a", E("e1", {"r1": "e2"}), E("e2", {}, False, {"p1": "a"})),
          c3.R("a", [E("e1", {"r1": "e4"})], [E("e1", {"r1": "e3"})]),      # a transaction queued behind a batch of the same dataset
          c3.R("a", [E("e1", {}, True)], [E("e1", {"r2": ["e2", "e3"]})], txn=False),
          B("a", E("e1", {"r1": "e2"}))]
    probes3 = lambda wi: [g("e1", ["a"]), r(["e1"]), r(["e3"], inverse=True, limits=[1])] if wi < 3 else []
    w4 = [B("a", E("e1", {"r1": ["e2", "e3"]}), E("e4", {"r1": ["e2", "e3"]})),
          B("a", E("e1", {"r1": "e4"}), E("e4", {}, True)),             # both start entities rewritten between page 1 and the continuations
          B("a", E("e1", {}))]
    http4 = lambda wi: ([("http", ["e1", "e4"], "*", False, None, 1), ("js", ["e1"], "*", False, None, 1)] if wi == 0 else
                        ([("http", ["e2", "e3"], "r1", True, ["a"], 1), ("js", ["e1"], "r1", False, ["a", "px"], 1)] if wi == 1 else None))
    return [{"datasets": c3.DSN, "proxies": c3.PROXIES, "ops": with_probes(w4, lambda wi: [], lambda wi, pj: False, http4)},
            {"datasets": c3.DSN, "proxies": c3.PROXIES, "ops": with_probes(w3, probes3, lambda wi, pj: False)},
            {"datasets": c3.DSN, "proxies": c3.PROXIES, "ops": with_probes(w1, probes, lambda wi, pj: wi % 2 == 0)},
            {"datasets": c3.DSN, "proxies": c3.PROXIES, "ops": with_probes(w2, probes2, lambda wi, pj: True)}]


def corpus_cases():
    return []


def gen_probe(rng):
    if rng.chance(2, 5):
        return g(rng.choice(c3.IDS), rng.choice(GET_SCOPES))
    return r([rng.choice(c3.IDS)], rng.choice(["*"] + c3.PREDS), rng.chance(1, 2), rng.choice(c3.SCOPES),
             [rng.choice([0, 1, 2])])


def gen_case(rng, nw, npr):
    writes = c3.gen_history(rng, nw)
    probes = {wi: [gen_probe(rng) for _ in range(npr)] for wi in range(nw)}
    ex = {}

    def exact_for(wi, pj):
        if (wi, pj) not in ex:
            ex[(wi, pj)] = rng.chance(1, 2)
        return ex[(wi, pj)]
    https = {}
    posted = set()      # ids posted as entities so far: their URIs are certainly asserted (the URI table is not versioned:
    for wi in range(nw - 1):    # a start point asserted only later would change what "the same query" means)
        for _, es in c3._sets(writes[wi]):
            posted.update(e["id"] for e in es)
        if rng.chance(1, 3) and len(posted) >= 2:
            starts = sorted(posted)
            rng.shuffle(starts)
            https[wi] = [("http", starts[:rng.range(2, 3)], rng.choice(["*"] + c3.PREDS), rng.chance(1, 2), rng.choice(c3.SCOPES), rng.choice([1, 1, 2]))]
        if rng.chance(1, 3) and posted:
            jp = ["*"] + sorted(set(p for w in writes[:wi + 1] for _, es in c3._sets(w) for e in es if not e.get("deleted") for p in e["refs"]))
            https.setdefault(wi, []).append(("js", [rng.choice(sorted(posted))], rng.choice(jp), False, rng.choice(c3.SCOPES), rng.choice([1, 1, 2])))
    return {"datasets": c3.DSN, "proxies": c3.PROXIES, "ops": with_probes(writes, lambda wi: probes[wi] if wi < nw - 1 else [], exact_for, lambda wi: https.get(wi))}


def gen(rng, tier):
    if tier == "quick":
        return [gen_case(rng, rng.range(3, 6), 4) for _ in range(80)]
    if tier == "search":
        return [gen_case(rng, rng.range(3, 7), 4) for _ in range(150)]
    return [gen_case(rng, rng.range(3, 9), 5) for _ in range(1400)]


def run(binp, cases):
    return vlib.run_driver(binp, cases, died_obs={"ops": [], "ns": {}, "ids": {}, "dsids": {}})


def predict_text(c, o):
    t = term(c, o)
    body = "Definition c : pcase := %s.\n" % t
    body += ("Eval vm_compute in (C06Check.first_bad pv_current (pc_ds c) rstore0 [] (pc_ops c) 0%N, "
             "C06Check.first_bad pv_fixed (pc_ds c) rstore0 [] (pc_ops c) 0%N, C06Check.spec_ok c, "
             "C06Check.spec_bad [] (pc_ops c) 0%N).\n")
    ok, out, _ = vlib.coq_eval("C06p", ["Lib.CheckLib"] + CHECK_MODULE.split(), body)
    return ("index (in the term's op list) of the first op the model does not predict [current, fixed]; spec_ok; indices of the pinned "
            "probes whose answer differs from the recorded one:\n" + out.strip())


def _explain_all():
    global _UNEXPLAINED
    keys = list(_SEEN)
    terms = [_term(*_SEEN[k]) for k in keys]
    ev = vlib.coq_evaluate_cases(ID + "x", CHECK_MODULE, CASE_TYPE, terms, fn="C06Check.unexplained_all", shard=SHARD)
    bad = set(ev[0])
    _UNEXPLAINED = {k: (i in bad) for i, k in enumerate(keys)}


def attribute(c, o):
    """F06a iff every pinned probe whose answer changed is exactly what the pinned model predicts, else None"""
    k = json.dumps(c, sort_keys=True)
    if _UNEXPLAINED is None or k not in _UNEXPLAINED:
        _SEEN.setdefault(k, (c, o))
        _explain_all()
    return None if _UNEXPLAINED.get(k, True) else "F06a"


def size(c):
    return len(json.dumps(c))


def classify(c, o):
    return c3.classify(c, o) or ("pinned" if any("_twin" in op for op in c["ops"]) else None)


def tags(c, o):
    t = ["writes=%d" % len(c3._hist(c))]
    t.append("pinned-probes=%d" % (sum(1 for op in c["ops"] if "_twin" in op) // 10 * 10))
    if any(op["op"] == "txn" for op in c["ops"]):
        t.append("has-txn")
    if any(op["op"] == "race" for op in c["ops"]):
        t.append("has-race")
    if any(op["op"] == "httpq" for op in c["ops"]):
        t.append("http-paging-across-writes")
    if any(op["op"] == "jsq" for op in c["ops"]):
        t.append("job-pagedquery-continued-across-writes")
    if any(op["op"] == "httpat" for op in c["ops"]):
        t.append("http-tokens-at-commit-times")
    if any(op.get("at", {}).get("exact") for op in c["ops"]):
        t.append("exact-instant")
    if any(op["op"] == "related" and op.get("inverse") for op in c["ops"]):
        t.append("has-incoming")
    t.append("outcome=" + o.get("outcome", "?"))
    return t
