"""C16 - no request is served beyond what the caller's token and ACL grant."""
import itertools

import vlib

ID = "C16"
PROP_FILE = "Properties/C16.v"
CHECK_MODULE = "Check.C16Check"
CASE_TYPE = "tcase"
DRIVER_PKG = "cmd/verif_c16"
SHARD = 25

# order = Check.C16Check.all_variants: method map x deny mode x claims mode x acl-file mode x init mode, pinned value first
FLAGS = [("F16a", "MapPostDelete", "MapSafeOnly"), ("F16b", "DenySkip", "DenyWins"), ("F16d", "ClaimsOptional", "ClaimsRequired"),
         ("F16e", "AclFileClients", "AclFileAcls"), ("F16f", "InitAborts", "InitIndependent")]
VARIANTS = []
for combo in itertools.product([0, 1], repeat=5):
    VARIANTS.append({"name": "+".join(FLAGS[i][1 + combo[i]] for i in range(5)),
                     "findings": [FLAGS[i][0] for i in range(5) if combo[i] == 0]})

RULE_SEQ = (" family seq: one token string whose exp (or nbf) the driver puts 2 s ahead, the same 8 requests sent before and after that instant "
            "through the same process (each answer stamped with the side of the instant the clock saw it on; retried when a stamp is on the "
            "wrong side); family req also carries ACL resources with regular-expression / glob metacharacters (. + ? ( [ | $ \\ { and a * in the "
            "middle) against dataset names that differ only where the metacharacter would match.")
RULE = ("family req: (ACL list of the caller, token description, list of requests) sent through the echo instance NewWebService builds "
        "with AUTHORIZATION_MIDDLEWARE=on; ACL lists enumerated from the lattice {exact resource, /*, /datasets/*, sibling} x {read,write} x "
        "{allow,deny} up to 2 entries (all 273 in the thorough tier, all 1-entry lists + a seeded sample in quick), 39 token variants "
        "(each defect class, node key and external JWKS key), sweeps over the real route table, and every parameterised route "
        "instantiated with adversarial ids derived from the model's skipper patterns and open routes (the pattern's segments, with "
        "suffix / prefix / upper case, embedded after a slash where the greedy last parameter allows, every literal route segment, "
        "ids with * : ; + ~) for absent, invalid and valid-but-ACL-less tokens; family persist: histories of "
        "register/unregister/set-ACL/delete-ACL/restart followed by a restart; family list: GET /datasets as the caller for ACL lists over "
        "{/datasets, /*, /datasets/*, /datasets/secret, /datasets/s*} x {read,write} x {allow,deny} (all lists up to 2 entries in thorough). "
        "A case is non-trivial when the caller is a non-admin "
        "with a non-empty ACL, the token has a defect, or the history has at least one operation; distinct = distinct case objects") + RULE_SEQ
TRUSTED = [
    "RSA/JWT cryptography, base64 and JSON decoding are not modelled: the facts the jwt library extracts from a token (signer, alg, "
    "kid, exp/nbf window, aud, iss, sub, roles) are inputs of the model; the driver mints a real token for every fact combination used",
    "echo's router is modelled only as far as the registered route table needs it (static paths, :param segments, greedy last param); "
    "request paths carry no percent-escapes (URL.Path = RawPath)",
    "outcome classes are read off the HTTP status and the router's selected route: 401 and 403 are produced only by the two middlewares "
    "(no handler except the open /security/token returns them)",
    "OPA is not configured (OPA_ENDPOINT empty): doOpaCheck fails and the ACL check decides, as in the default deployment",
]
ASSUMPTIONS = [
    "security enabled (AUTHORIZATION_MIDDLEWARE=on/local/opa with admin credentials), OPA endpoint not configured",
    "ACL entries are non-nil objects (a JSON null inside an ACL list makes CheckGranted dereference nil: 500, nothing served)",
    "one process; security-management operations are not concurrent with each other",
]
EXHAUSTIVE = {"thorough": True}

NODE = "node:verifnode"
OAUD = "https://aud.verif"
OISS = "https://iss.verif"
TOK = "TOKEN"

BASE = {"hdr": "bearer", "form": "jwt", "alg": "RS256", "key": "node", "kid": "", "exp": 900, "nbf": 0, "aud": [NODE], "iss": NODE,
        "sub": "c1", "roles": ["client"]}


def T(**kw):
    t = dict(BASE)
    t.update(kw)
    return t


OA = dict(key="oauth", kid="good", aud=[OAUD], iss=OISS)
TOKENS = {
    "valid": T(), "admin": T(sub="root", roles=["admin"]), "admin2": T(roles=["client", "admin"]), "Admin": T(roles=["Admin"]),
    "noroles": T(roles=None), "expired": T(exp=-60), "noexp": T(exp=0), "nbf": T(nbf=300), "otherkey": T(key="other"),
    "wrongiss": T(iss="node:evil"), "wrongaud": T(aud=["node:evil"]), "noiss": T(iss=""), "noaud": T(aud=None),
    "noaudnoiss": T(aud=None, iss=""), "multiaud": T(aud=["x", NODE]), "crossaud": T(aud=[OAUD], iss=OISS),
    "mixed": T(aud=[OAUD], iss=NODE), "RS384": T(alg="RS384"), "RS512": T(alg="RS512"), "PS256": T(alg="PS256"),
    "HS256": T(alg="HS256"), "none": T(alg="none"), "garbage": T(form="garbage"), "tampered": T(form="tampered"),
    "basic": T(hdr="basic"), "short": T(hdr="short"), "lower": T(hdr="lower"), "nospace": T(hdr="nospace"), "nohdr": T(hdr="none"),
    "oauth": T(**OA), "oauth-nokid": T(**dict(OA, kid="")), "oauth-badkid": T(**dict(OA, kid="bad")),
    "oauth-otherkey": T(**dict(OA, key="other")), "oauth-nodeaud": T(key="oauth", kid="good"),
    "oauth-noaud": T(**dict(OA, aud=None, iss="")), "oauth-RS384": T(**dict(OA, alg="RS384")),
    "oauth-expired": T(**dict(OA, exp=-5)), "oauth-admin": T(**dict(OA, roles=["admin"])),
    "oauth-wrongiss": T(**dict(OA, iss="https://evil")),
}

# the requests every lattice case sends (method, path)
BATTERY = [(m, "/datasets/secret") for m in ("GET", "POST", "PUT", "PATCH", "DELETE", "HEAD", "OPTIONS")] + [
    ("GET", "/datasets/secret/entities"), ("POST", "/datasets/secret/entities"), ("GET", "/datasets/secret/changes"),
    ("GET", "/datasets"), ("DELETE", "/datasets"),
    ("GET", "/datasets/other"), ("POST", "/datasets/other"), ("PATCH", "/datasets/other"), ("DELETE", "/datasets/other"),
    ("GET", "/datasets/secretx"), ("PATCH", "/datasets/secretx"),
    ("PUT", "/job/j1/run"), ("PUT", "/job/j1/pause"), ("GET", "/job/j1/status"), ("GET", "/jobs"), ("POST", "/jobs"),
    ("DELETE", "/jobs/j1"), ("GET", "/jobs/j1"), ("GET", "/jobs/j1/x"),
    ("PUT", "/content/c1"), ("GET", "/content/c1"), ("DELETE", "/content/c1"),
    ("GET", "/"), ("GET", "/health"), ("POST", "/security/token"), ("GET", "/security/clients"),
    ("POST", "/security/clients/zz/acl"), ("DELETE", "/security/clients/zz/acl"),
    ("POST", "/query"), ("POST", "/transactions"), ("POST", "/compact"), ("GET", "/statistics"), ("GET", "/lineage/secret"),
    ("GET", "/nope"), ("GET", "/api/x"), ("GET", "/datasets/"), ("GET", "/datasets//entities"), ("PUT", "/job//pause"),
]
SMALL = [("GET", "/datasets/secret"), ("PATCH", "/datasets/secret"), ("DELETE", "/datasets/secret"), ("GET", "/"), ("GET", "/health"),
         ("POST", "/security/token"), ("GET", "/nope"), ("GET", "/api/x"), ("OPTIONS", "/datasets"), ("GET", "/healthz")]

LATTICE_RES = ["/datasets/secret", "/*", "/datasets/*", "/datasets/other"]
EXTRA_RES = ["/datasets/secret*", "/datasets/secret/*", "/job/*", "*", "", "/datasets/secret/entities", "/datasets", "/j*", "/datasets/*/entities"]


def entries(resources, actions=("read", "write")):
    return [{"Resource": r, "Action": a, "Deny": d} for r in resources for a in actions for d in (False, True)]


def reqcase(acl, token, reqs, sweep=False, noacl=False, direct=False, param="secret"):
    return {"kind": "req", "acl": acl, "noacl": noacl, "direct": direct, "token": token,
            "reqs": [{"m": m, "p": p} for m, p in reqs], "sweep": sweep, "param": param}


def persistcase(ops, token=None, reqs=(("GET", "/datasets/secret"), ("POST", "/datasets/secret"), ("GET", "/datasets/other"))):
    return {"kind": "persist", "ops": ops, "token": token or T(sub="a"), "reqs": [{"m": m, "p": p} for m, p in reqs]}


SEQ_REQS = [("GET", "/datasets/secret"), ("GET", "/datasets/secret/entities"), ("GET", "/jobs"), ("DELETE", "/datasets/other"), ("GET", "/"),
            ("GET", "/health"), ("GET", "/security/clients"), ("GET", "/nope")]


def seqcase(acl, token, bound="exp", reqs=SEQ_REQS):
    """the same token string before and after its exp (or nbf), which the driver puts 2 s ahead"""
    return {"kind": "seq", "acl": acl, "noacl": False, "direct": True, "token": dict(token, exp=(900 if bound == "nbf" else 2)),
            "bound": bound, "reqs": [{"m": m, "p": p} for m, p in reqs]}


def seq_cases(tier):
    out = [seqcase([A("/datasets/*", "read")], TOKENS["valid"]), seqcase([], TOKENS["admin"]),
           seqcase([A("/datasets/*", "write")], TOKENS["valid"], bound="nbf")]
    if tier != "quick":
        out += [seqcase([A("/*", "write")], TOKENS["oauth"]), seqcase([A("/*", "read")], TOKENS["noaudnoiss"]),
                seqcase([], TOKENS["oauth-admin"]), seqcase([A("/*", "read")], TOKENS["multiaud"], bound="nbf")]
    return out


def listcase(acl, token=None, noacl=False, direct=True):
    return {"kind": "list", "acl": acl, "noacl": noacl, "direct": direct, "token": token or TOKENS["valid"], "reqs": []}


LIST_RES = ["/datasets", "/*", "/datasets/*", "/datasets/secret", "/datasets/s*"]
LIST_RES2 = ["/datasets*", "/datasets/pub.*", "/datasets/other", "/datasets/secretx", "/datasets/core.*"]

# resources whose text means something else when read as a regular expression or a glob: the pattern branch of CheckGranted
# is a literal prefix test on everything before the final *
REGEX_RES = ["/datasets/sdb.*", "/datasets/sdb.A*", "/datasets/pub.*", "/datasets/a+*", "/datasets/a+b*", "/datasets/ab?*", "/datasets/a(b*",
             "/datasets/a(*", "/datasets/[a-z]*", "/datasets/sdb|*", "/datasets/s$*", "/datasets/.*", "/datasets/*/changes*", "/datasets/*/*",
             "/data.ets/*", "/datasets/sdb\\.*", "/datasets/s.b.*", "^/datasets/*", "/datasets/(sdbx|secret)*", "/datasets/a{2}*", ".*"]
REGEX_BATTERY = [(m, "/datasets/" + d + sfx) for d in ("sdb.Animal", "sdb2.Secret", "sdbx", "pub.a", "pubxa", "a+b", "aab", "a(b", "secret", "x")
                 for m, sfx in (("GET", ""), ("GET", "/entities"), ("POST", "/entities"), ("GET", "/changes"), ("DELETE", ""))] + [
    ("GET", "/datasets"), ("GET", "/jobs"), ("GET", "/jobs/sdb.x"), ("GET", "/content/a+b")]


def regex_cases(rng, tier):
    out = []
    v = TOKENS["valid"]
    for i, r in enumerate(REGEX_RES):
        for act in ("read", "write"):
            out.append(reqcase([A(r, act)], v, REGEX_BATTERY, direct=(i % 2 == 0)))
        out.append(listcase([A("/datasets", "read"), A(r, "read")], direct=(i % 2 == 1)))
        if tier != "quick":
            out.append(reqcase([A(r, "write", True), A("/datasets/sdb.Animal", "read")], v, REGEX_BATTERY))
            out.append(listcase([A("/datasets", "read"), A(r, "write"), A("/datasets/secret", "read")]))
    return out



def A(res, act="read", deny=False):
    return {"Resource": res, "Action": act, "Deny": deny}


def OP(op, client="", acl=None, sp=""):
    return {"op": op, "client": client, "acl": acl or [], "sp": sp}


# client ids with characters callers percent-encode, (id, spellings of the id in a URL path segment): eager escapes
# (encodeURIComponent style, lower-case hex), the canonical one, and the pinned handlers' own quirk (+ read as space)
SPELLED = [("bob@clients", ["bob%40clients", "bob@clients", "%62ob%40clients"]), ("urn:client:7", ["urn%3Aclient%3A7", "urn:client%3a7"]),
           ("team/reporting", ["team%2Freporting", "team%2freporting"]), ("a b", ["a%20b", "a+b"]), ("a+b", ["a%2Bb"]),
           ("x=1&y", ["x%3D1%26y", "x=1&y"]), ("plain-id_1.~", ["plain-id_1.~", "%70lain-id_1.~"])]


def spelled_cases(rng, tier):
    """grant through one spelling, revoke through the same or another spelling of the same id, then ask as that client"""
    out = []
    acl = [A("/datasets/*", "write")]
    reqs = (("GET", "/datasets/secret"), ("POST", "/datasets/secret"), ("GET", "/jobs"))
    for cid, sps in SPELLED:
        tok = T(sub=cid)
        pairs = [(a, b) for a in sps for b in sps]
        if tier == "quick":
            pairs = [(sps[0], sps[0])] + ([rng.choice(pairs)] if len(pairs) > 1 else [])
        for a, b in pairs:
            out.append(persistcase([OP("register", cid), OP("setacl", cid, acl, sp=a), OP("delacl", cid, sp=b)], tok, reqs))
        out.append(persistcase([OP("register", cid), OP("setacl", cid, acl, sp=sps[0])], tok, reqs))
        if tier == "quick" and len(out) % 2 == 0:
            continue
        out.append(persistcase([OP("setacl", cid, acl, sp=sps[-1]), OP("register", "other"), OP("setacl", "other", [A("/*", "read")]),
                                OP("delacl", cid, sp=sps[0]), OP("restart"), OP("setacl", cid, [A("/jobs", "read")], sp=sps[0])], tok, reqs))
    return out


# --------------------------------------------------------------------------- adversarial ids
# Requests on guarded routes whose variable segment is derived from the open routes and the skipper's patterns
# (read from the model, so generator and model cannot drift apart): a guarded route must stay guarded whatever
# text its parameter carries - prefix, substring or suffix of an open path.

def model_tables():
    import os
    import re
    src = open(os.path.join(vlib.COQ, "Model", "Gate.v")).read()
    routes = [(m, p, k == "R") for k, m, p in re.findall(r'\b(R|Ropen) "([A-Z]+)" "([^"]*)"', src)]
    sk = re.search(r"Definition skipper.*?\[(.*?)\]", src, re.S).group(1)
    skips = re.findall(r'"([^"]*)"', sk)
    return routes, skips


def adversarial_ids():
    """(ids without a slash, ids with a slash - only routable where the parameter is the greedy last segment)"""
    routes, skips = model_tables()
    pats = list(skips) + [p for _, p, g in routes if not g and p != "/"]
    plain, slashed = [], []
    for p in pats:
        segs = [x for x in p.split("/") if x]
        for sg in segs:
            plain += [sg, sg + "data", "x" + sg, sg.upper()]
        slashed += ["x" + p, "x" + p + "/y", p.lstrip("/") + "/y"]
        if len(segs) > 1:
            slashed.append("/".join(segs))
    lit = sorted({sg for _, p, _ in routes for sg in p.split("/") if sg and not sg.startswith(":")})
    odd = ["*", "a*", "secret*", ":dataset", "a;b", "a.b", "-", "a&b=c", "~", "a+b"]
    dedup = lambda l: list(dict.fromkeys(l))
    return dedup(plain), dedup(slashed), lit, odd


def adversarial_reqs(rng=None, nlit=None):
    routes, skips = model_tables()
    plain, slashed, lit, odd = adversarial_ids()
    out = []
    for m, p, guarded in routes:
        segs = p.split("/")
        pidx = [i for i, sg in enumerate(segs) if sg.startswith(":")]
        if not pidx:
            continue
        lits = lit if (rng is None or nlit is None) else [rng.choice(lit) for _ in range(nlit)]
        ids = plain + odd + lits + (slashed if pidx[-1] == len(segs) - 1 else [])
        for x in ids:
            q = list(segs)
            for i in pidx:
                q[i] = x
            out.append((m, "/".join(q)))
    # paths around the open routes and the skipper patterns themselves
    for p in list(skips) + [pp for _, pp, g in routes if not g and pp != "/"]:
        for q in (p, p + "x", p + "/x", "/x" + p, "/datasets" + p, "/jobs" + p, p + "/../datasets", p.upper()):
            for m in ("GET", "POST", "DELETE"):
                out.append((m, q))
    return list(dict.fromkeys(out))


def adversarial_cases(rng, tier):
    reqs = adversarial_reqs(None if tier != "quick" else rng, 3)
    toks = [("nohdr", [], False), ("valid", [], False), ("otherkey", [], False), ("valid", None, True)]
    if tier != "quick":
        toks += [("garbage", [], False), ("expired", [], False), ("noroles", [], False), ("oauth", [], False),
                 ("oauth-otherkey", [], False), ("basic", [], False)]
    out = []
    for ti, (tn, acl, noacl) in enumerate(toks):
        rs = reqs
        if tier == "quick" and ti >= 2:
            rs = [r for j, r in enumerate(reqs) if (j + ti) % 4 == 0]
        for i in range(0, len(rs), 60):
            out.append(reqcase(acl, TOKENS[tn], rs[i:i + 60], noacl=noacl, direct=True))
    return out


ADV_WITNESS = [("GET", "/datasets/healthdata"), ("GET", "/datasets/healthdata/entities"), ("POST", "/datasets/healthdata/entities"),
               ("DELETE", "/datasets/healthdata"), ("GET", "/datasets/health/changes"), ("GET", "/jobs/healthcheck"),
               ("PUT", "/job/healthcheck/run"), ("GET", "/jobs/x/health"), ("GET", "/content/x/health/y"), ("GET", "/statistics/health"),
               ("GET", "/lineage/x/security/token"), ("GET", "/datasets/api/entities"), ("GET", "/jobs/x/api"), ("GET", "/datasets/static"),
               ("GET", "/datasets/token"), ("GET", "/jobs/security/token"), ("GET", "/content/favicon.ico"), ("GET", "/jobs/x/favicon.ico"),
               ("GET", "/datasets/changes/changes"), ("GET", "/datasets/entities"), ("GET", "/datasets/a*"), ("GET", "/datasets/*/entities"),
               ("GET", "/health/x"), ("GET", "/x/health"), ("GET", "/datasets/health"), ("GET", "/security/token/x"), ("POST", "/security/tokenx")]

def witness_cases():
    v = TOKENS["valid"]
    return [
        # F16a: read-only ACL, PATCH / PUT
        reqcase([A("/datasets/secret", "read")], v, BATTERY),
        reqcase([A("/job/*", "read")], v, BATTERY),
        # F16b: allow on /datasets/* and deny on /datasets/secret, both orders
        reqcase([A("/datasets/*", "write"), A("/datasets/secret", "write", True)], v, BATTERY),
        reqcase([A("/datasets/secret", "write", True), A("/datasets/*", "write")], v, BATTERY),
        reqcase([A("/*", "read", True), A("/*", "read")], v, BATTERY),
        # F16d: token without aud / iss
        reqcase([A("/*", "write")], TOKENS["noaudnoiss"], SMALL),
        reqcase([A("/*", "write")], TOKENS["noaud"], SMALL),
        reqcase([A("/*", "write")], TOKENS["noiss"], SMALL),
        # guarded routes whose id looks like an open route / skipper pattern, without a token and without an ACL
        reqcase([], TOKENS["nohdr"], ADV_WITNESS),
        reqcase([], v, ADV_WITNESS),
        reqcase([], TOKENS["otherkey"], ADV_WITNESS),
        # revoking by the empty list must survive a restart
        persistcase([OP("register", "a"), OP("setacl", "a", [A("/datasets/*", "write")]), OP("setacl", "a", [])]),
        persistcase([OP("register", "a"), OP("setacl", "a", [A("/datasets/*", "write")]), OP("register", "b"),
                     OP("setacl", "b", [A("/*", "read")]), OP("setacl", "b", []), OP("restart")]),
        # trailing-* prefix keeps its last character: /datasets/secret/* does not cover the sibling secretx
        reqcase([A("/datasets/secret/*", "write")], v, BATTERY),
        reqcase([A("/job/*", "write")], v, BATTERY),
        # the text before the final * is a literal prefix, not a regular expression: namespace grant sdb.* vs sdbx / sdb2.Secret
        reqcase([A("/datasets/sdb.*", "write")], v, REGEX_BATTERY),
        listcase([A("/datasets", "read"), A("/datasets/sdb.*", "read")]),
        reqcase([A("/datasets/*/changes*", "read")], v, REGEX_BATTERY),
        # revocation through the escaped spelling of an id (encodeURIComponent style)
        persistcase([OP("register", "bob@clients"), OP("setacl", "bob@clients", [A("/datasets/*", "write")], sp="bob%40clients"),
                     OP("delacl", "bob@clients", sp="bob%40clients")], T(sub="bob@clients")),
        persistcase([OP("register", "team/reporting"), OP("setacl", "team/reporting", [A("/datasets/*", "read")], sp="team%2Freporting"),
                     OP("delacl", "team/reporting", sp="team%2Freporting")], T(sub="team/reporting")),
        # route table
        reqcase([], v, [], sweep=True),
        reqcase([], TOKENS["nohdr"], [], sweep=True),
        reqcase([A("/*", "write")], v, [], sweep=True, param="x"),
        # F16e / F16f: ACL store after a restart
        persistcase([OP("register", "a"), OP("setacl", "a", [A("/datasets/*", "read")]), OP("register", "b"),
                     OP("setacl", "b", [A("/*", "write")]), OP("delacl", "b")]),
        persistcase([OP("setacl", "a", [A("/datasets/*", "read")])]),
        persistcase([OP("register", "a"), OP("setacl", "a", [A("/datasets/*", "write")])]),
        persistcase([OP("register", "a"), OP("setacl", "a", [A("/datasets/*", "write")]), OP("unregister", "a")]),
        # dataset list: filtered, one copy per granting entry, deny ignored (F16b)
        listcase([A("/datasets", "read"), A("/datasets/secret", "read")]),
        listcase([A("/datasets*", "read"), A("/datasets/s*", "write")]),
        listcase([A("/*", "read"), A("/datasets/secret", "read", True)]),
        listcase([A("/*", "read")], TOKENS["admin"]),
        listcase([A("/*", "read")], TOKENS["expired"]),
        listcase([A("/datasets/*", "read")]),
        listcase(None, noacl=True),
    ]


def corpus_cases():
    return []


def token_cases():
    out = []
    for name, t in TOKENS.items():
        out.append(reqcase([A("/datasets/*", "read")], t, SMALL, direct=(len(out) % 2 == 0)))
    return out


def rand_acl(rng, n):
    res = LATTICE_RES + EXTRA_RES
    return [A(rng.choice(res), rng.choice(["read", "write", "write", "read", "Write", "", "admin"]), rng.chance(1, 3)) for _ in range(n)]


def rand_ops(rng, n):
    ops = []
    for _ in range(n):
        k = rng.below(10)
        c = rng.choice(["a", "b", "c"])
        if k < 3:
            ops.append(OP("register", c))
        elif k < 4:
            ops.append(OP("unregister", c))
        elif k < 7:
            ops.append(OP("setacl", c, rand_small_acl(rng)))
        elif k < 9:
            ops.append(OP("delacl", c))
        else:
            ops.append(OP("restart"))
    return ops


def rand_small_acl(rng):
    return [A(rng.choice(["/datasets/secret", "/datasets/*", "/*", "/datasets/other"]), rng.choice(["read", "write"]), rng.chance(1, 4))
            for _ in range(rng.range(0, 2))]


def gen(rng, tier):
    out = []
    v = TOKENS["valid"]
    E = entries(LATTICE_RES)
    one = [[e] for e in E]
    two = [[a, b] for a in E for b in E]
    if tier == "quick":
        out.append(reqcase([], v, BATTERY))
        out.append(reqcase(None, v, SMALL, noacl=True))
        out += [reqcase(l, v, BATTERY, direct=(i % 3 == 0)) for i, l in enumerate(one)]
        rng.shuffle(two)
        out += [reqcase(l, v, BATTERY, direct=True) for l in two[:60]]
        out += token_cases()
        out += adversarial_cases(rng, tier)
        out += regex_cases(rng, tier)
        out += seq_cases(tier)
        out += spelled_cases(rng, tier)
        for _ in range(20):
            out.append(reqcase(rand_acl(rng, rng.range(1, 3)), rng.choice([v, TOKENS["oauth"], TOKENS["noroles"], TOKENS["Admin"]]), BATTERY,
                               direct=rng.chance(1, 2)))
        out.append(reqcase([A("/datasets/other", "write")], TOKENS["admin"], BATTERY))
        for _ in range(25):
            out.append(persistcase(rand_ops(rng, rng.range(1, 6))))
        EL = entries(LIST_RES)
        out += [listcase([e], direct=(i % 4 != 0)) for i, e in enumerate(EL)]
        for _ in range(40):
            out.append(listcase([rng.choice(entries(LIST_RES + LIST_RES2)) for _ in range(rng.range(2, 4))],
                                rng.choice([v, v, v, TOKENS["oauth"], TOKENS["noaud"], TOKENS["admin2"]])))
        return out
    if tier == "search":
        for _ in range(80):
            out.append(listcase([rng.choice(entries(LIST_RES + LIST_RES2)) for _ in range(rng.range(1, 4))]))
        for _ in range(150):
            out.append(reqcase(rand_acl(rng, rng.range(1, 3)), rng.choice(list(TOKENS.values())), BATTERY, direct=True))
        for _ in range(60):
            out.append(persistcase(rand_ops(rng, rng.range(1, 7))))
        return out
    # thorough: the whole lattice up to 2 entries, every token against two ACLs, a larger lattice with the extra patterns
    out.append(reqcase([], v, BATTERY))
    out.append(reqcase(None, v, SMALL, noacl=True))
    out += [reqcase(l, v, BATTERY, direct=(i % 5 != 0)) for i, l in enumerate(one + two)]
    out += token_cases()
    out += adversarial_cases(rng, tier)
    out += regex_cases(rng, tier)
    out += seq_cases(tier)
    out += spelled_cases(rng, tier)
    for t in TOKENS.values():
        out.append(reqcase([A("/*", "write")], t, BATTERY, direct=True))
    E2 = entries(EXTRA_RES)
    out += [reqcase([e], v, BATTERY, direct=True) for e in E2]
    for _ in range(400):
        out.append(reqcase(rand_acl(rng, rng.range(1, 4)), rng.choice([v, v, v, TOKENS["oauth"], TOKENS["noroles"], TOKENS["admin2"]]),
                           BATTERY, direct=True))
    for n in range(0, 4):
        for ops in itertools.product(["register", "unregister", "setacl", "delacl", "restart"], repeat=n):
            out.append(persistcase([OP(o, "a", [A("/datasets/*", "read")] if o == "setacl" else None) for o in ops]))
    for _ in range(150):
        out.append(persistcase(rand_ops(rng, rng.range(2, 8))))
    EL = entries(LIST_RES)
    out += [listcase(l) for l in [[]] + [[e] for e in EL] + [[a, b] for a in EL for b in EL]]
    out += [listcase([e], direct=False) for e in entries(LIST_RES2)]
    for _ in range(200):
        out.append(listcase([rng.choice(entries(LIST_RES + LIST_RES2)) for _ in range(rng.range(2, 4))],
                            rng.choice([v, v, v, TOKENS["oauth"], TOKENS["noaud"], TOKENS["admin2"], TOKENS["expired"]])))
    return out


def run(binp, cases):
    # the dataset-list cases get a session of their own: requests of the other families that are served may delete
    # every dataset (DELETE /datasets removes core.Dataset too, after which DsManager.CreateDataset dereferences nil)
    li = [i for i, c in enumerate(cases) if c["kind"] == "list"]
    ri = [i for i, c in enumerate(cases) if c["kind"] != "list"]
    obs = [None] * len(cases)
    for idx in (li, ri):
        if idx:
            for i, o in zip(idx, vlib.run_driver(binp, [cases[i] for i in idx], died_obs={"res": [], "routes": []}, timeout_per_case=30)):
                obs[i] = o
    return obs


# --------------------------------------------------------------------------- terms

def cs(s):
    for ch in s:
        if ord(ch) < 32 or ord(ch) > 126:
            raise ValueError("non-printable character in a case string: %r" % s)
    return vlib.coq_string(s) + "%string"


def ac_term(a):
    return "{| ac_resource := %s; ac_action := %s; ac_deny := %s |}" % (cs(a["Resource"]), cs(a["Action"]), vlib.coq_bool(a["Deny"]))


def acl_term(l):
    return vlib.coq_list([ac_term(a) for a in (l or [])])


def facts_of(t):
    form = t.get("form", "jwt")
    signer = {"node": "KNode", "oauth": "KOauth"}.get(t.get("key"), "KOther")
    if form == "tampered" or t.get("alg") in ("HS256", "none"):
        signer = "KOther"
    return {
        "wellformed": form != "garbage", "alg": t.get("alg", ""), "signer": signer,
        "kid": {"good": "KidGood", "bad": "KidBad"}.get(t.get("kid", ""), "KidNone"),
        "expired": t.get("exp", 0) < 0, "notyet": t.get("nbf", 0) > 0, "aud": t.get("aud") or [], "iss": t.get("iss", ""),
        "sub": t.get("sub", ""), "roles": t.get("roles") or [],
    }


def facts_term(t):
    f = facts_of(t)
    return ("{| f_wellformed := %s; f_alg := %s; f_signer := %s; f_kid := %s; f_expired := %s; f_notyet := %s; f_aud := %s; "
            "f_iss := %s; f_sub := %s; f_roles := %s |}" % (
                vlib.coq_bool(f["wellformed"]), cs(f["alg"]), f["signer"], f["kid"], vlib.coq_bool(f["expired"]),
                vlib.coq_bool(f["notyet"]), vlib.coq_list([cs(x) for x in f["aud"]]), cs(f["iss"]), cs(f["sub"]),
                vlib.coq_list([cs(x) for x in f["roles"]])))


def auth_of(t):
    return {"none": "", "basic": "Basic " + TOK, "short": "Bearer ", "lower": "bearer " + TOK, "nospace": "Bearer" + TOK}.get(
        t.get("hdr", "bearer"), "Bearer " + TOK)


def klass(r):
    if r["st"] == 401:
        return 2
    if r["st"] == 403:
        return 3
    if r["m"] == "OPTIONS" and r["st"] == 204:
        return 1
    if r["route"] == "":
        return 4
    return 0


def snap_term(s):
    if not s:
        return "{| sn_clients := []; sn_acls := [] |}"
    return "{| sn_clients := %s; sn_acls := %s |}" % (
        vlib.coq_list([cs(x) for x in s["clients"]]),
        vlib.coq_list(["(%s, %s)" % (cs(k), acl_term(v)) for k, v in sorted(s["acls"].items())]))


def gets_term(o):
    out = []
    for g in (o.get("gets") or []):
        if g.get("st") != 200:
            out.append("(%s, Some [{| ac_resource := %s; ac_action := %s; ac_deny := true |}])" % (cs(g["sp"]), cs("GET failed"), cs(str(g.get("st")))))
        else:
            out.append("(%s, %s)" % (cs(g["sp"]), "None" if g.get("null") else "Some %s" % acl_term(g.get("acl"))))
    return vlib.coq_list(out)


def op_term(o):
    c = cs(o.get("client", ""))
    if o.get("sp") and o["op"] in ("setacl", "delacl"):
        c = "(rid %s)" % cs(o["sp"])
    return {"register": "OpRegister %s" % c, "unregister": "OpUnregister %s" % c, "delacl": "OpDelAcl %s" % c, "restart": "OpRestart",
            "setacl": "OpSetAcl %s %s" % (c, acl_term(o.get("acl")))}[o["op"]]


def term(c, o):
    if o.get("outcome") != "ok":
        # a case the driver could not run: a term no variant agrees with (kind 0, one impossible observation)
        reqs = '[{| q_method := "GET"%string; q_path := "/health"%string; q_class := 9%N; q_route := "driver failure"%string |}]'
        res = []
    else:
        res = o.get("res") or []
        reqs = vlib.coq_list(["{| q_method := %s; q_path := %s; q_class := %d%%N; q_route := %s |}" % (
            cs(r["m"]), cs(r["p"]), klass(r), cs(r["route"])) for r in res])
    kind = {"persist": 1, "list": 2, "seq": 3}.get(c["kind"], 0)
    seq = "[]"
    if kind == 3 and o.get("outcome") == "ok":
        seq = vlib.coq_list(["(%d%%N, {| q_method := %s; q_path := %s; q_class := %d%%N; q_route := %s |})" % (
            0 if r["ph"] == 0 else 10, cs(r["m"]), cs(r["p"]), klass(r), cs(r["route"])) for r in res if r.get("ph") != 1])
        reqs = "[]"
    elif kind == 3:
        kind = 0
    acl = "None" if (kind == 1 or c.get("noacl")) else "Some %s" % acl_term(c.get("acl"))
    if kind == 2 and o.get("outcome") == "ok":
        reqs = "[]"
        lr = {"m": "GET", "p": "/datasets", "st": o.get("listst", 0), "route": o.get("listrt", "")}
        olist = "{| q_method := %s; q_path := %s; q_class := %d%%N; q_route := %s |}" % (cs("GET"), cs("/datasets"), klass(lr), cs(lr["route"]))
    else:
        olist = "{| q_method := %s; q_path := %s; q_class := 9%%N; q_route := %s |}" % (cs("GET"), cs("/datasets"), cs(""))
        if kind == 2:
            kind = 0   # driver failure: falls under the impossible kind-0 observation built above
    cfg = '{| cfg_oauth := %s; cfg_aud := [%s; %s]; cfg_iss := [%s; %s] |}' % (
        vlib.coq_bool(o.get("oauth", True)), cs(OAUD), cs(NODE), cs(OISS), cs(NODE))
    return ("{| c_kind := %d%%N; c_cfg := %s; c_acl := %s; c_auth := %s; c_tok := %s; c_facts := %s; c_reqs := %s; c_sweep := %s; "
            "c_routes := %s; c_ops := %s; o_before := %s; o_after := %s; o_all := %s; o_listed := %s; o_list := %s; c_exp := %s; c_nbf := %s; o_gets := %s; c_seq := %s |}" % (
                kind, cfg, acl, cs(auth_of(c["token"])), cs(TOK), facts_term(c["token"]), reqs,
                vlib.coq_bool(bool(c.get("sweep")) and o.get("outcome") == "ok"),
                vlib.coq_list(["(%s, %s)" % (cs(r[0]), cs(r[1])) for r in (o.get("routes") or [])]),
                vlib.coq_list([op_term(x) for x in (c.get("ops") or [])]), snap_term(o.get("before")), snap_term(o.get("after")),
                vlib.coq_list([cs(x) for x in (o.get("all") or [])]), vlib.coq_list([cs(x) for x in (o.get("listed") or [])]), olist,
                "Some 5%N" if (c["kind"] == "seq" and c.get("bound") != "nbf") else "None",
                "Some 5%N" if (c["kind"] == "seq" and c.get("bound") == "nbf") else "None", gets_term(o), seq))


def predict_text(c, o):
    t = term(c, o)
    q = ("Definition c : tcase := %s.\n"
         "Definition show (cv : cvariant) := (map (fun q => decide (cv_gate cv) (world_of c (if N.eqb (c_kind c) 0 then acls_kind0 c else "
         "(fun k => lookup k (mem_acls (restart (cv_init cv) (sec_run (cv_file cv) (cv_init cv) (c_ops c))))))) (c_auth c) (q_method q) (q_path q)) (c_reqs c),\n"
         "  mem_acls (sec_run (cv_file cv) (cv_init cv) (c_ops c)), mem_acls (restart (cv_init cv) (sec_run (cv_file cv) (cv_init cv) (c_ops c)))).\n"
         "Eval vm_compute in (show (hd cfixed all_variants), show cfixed).\n"
         "Eval vm_compute in (decide current (world_of c (acls_kind0 c)) (c_auth c) \"GET\"%%string \"/datasets\"%%string, predicted_list DenySkip c, predicted_list DenyWins c).\n"
         "Eval vm_compute in (map fst (c_seq c), gate_run CacheNone current (tworld_of c) (map (rq_of c) (c_seq c))).\n" % t)
    ok, out, _ = vlib.coq_eval("C16p", [CHECK_MODULE, "Model.Acl", "Model.Jwt", "Model.Gate", "Model.SecStore"], q)
    return "(pinned variant, repaired variant): (outcome, route) per request; ACL store before / after restart\n" + out.strip()[-3000:]


# --------------------------------------------------------------------------- attribution (python re-reading of the spec)

def res_matches(r, p):
    return r == p or (r.endswith("*") and p.startswith(r[:-1]))


def spec_need(m):
    return "read" if m in ("GET", "HEAD") else "write"


def covers(g, n):
    return g == n or (g == "write" and n == "read")


def attribute(c, o):
    if o.get("outcome") != "ok" or c["kind"] == "seq":
        return None
    if c["kind"] == "persist":
        b, a = o.get("before"), o.get("after")
        if b == a:
            return None
        ops = [x["op"] for x in c["ops"]]
        if not (a or {}).get("clients") and not (b or {}).get("clients") and "delacl" not in ops and "unregister" not in ops:
            return "F16f"
        if "delacl" in ops or "unregister" in ops:
            return "F16e"
        return None
    res = list(o.get("res") or [])
    if c["kind"] == "list":
        res = [{"m": "GET", "p": "/datasets", "st": o.get("listst", 0), "route": o.get("listrt", "")}]
    f = facts_of(c["token"])
    acl = [] if c.get("noacl") else (c.get("acl") or [])
    tok_rest = (f["wellformed"] and f["alg"] == "RS256" and not f["expired"] and not f["notyet"]
                and (f["signer"] == "KNode" or (f["signer"] == "KOauth" and f["kid"] == "KidGood")) and auth_of(c["token"]) == "Bearer " + TOK)
    tok_claims = any(a in (OAUD, NODE) for a in f["aud"]) and f["iss"] in (OISS, NODE)
    causes = []
    if c["kind"] == "list" and "admin" not in f["roles"]:
        for d in o.get("listed") or []:
            p = "/datasets/" + d
            allow = any(not a["Deny"] and res_matches(a["Resource"], p) and covers(a["Action"], "read") for a in acl)
            deny = any(a["Deny"] and res_matches(a["Resource"], p) and a["Action"] == "read" for a in acl)
            if d not in (o.get("all") or []) or not allow:
                return None
            if deny:
                causes.append("F16b")
    for r in res:
        if klass(r) != 0 or (r["m"], r["p"]) in (("GET", "/health"), ("POST", "/security/token")):
            continue
        if not tok_rest:
            return None                     # served on a token that is bad beyond any recorded finding
        if not tok_claims:
            if f["aud"] and f["iss"]:
                return None                 # wrong (not missing) audience / issuer served: unexplained
            causes.append("F16d")
            continue
        if (r["m"], r["p"]) == ("GET", "/") or "admin" in f["roles"]:
            continue
        need = spec_need(r["m"])
        allow = any(not a["Deny"] and res_matches(a["Resource"], r["p"]) and covers(a["Action"], need) for a in acl)
        allow_read = any(not a["Deny"] and res_matches(a["Resource"], r["p"]) and covers(a["Action"], "read") for a in acl)
        deny = any(a["Deny"] and res_matches(a["Resource"], r["p"]) and a["Action"] == need for a in acl)
        if allow and not deny:
            continue                        # the spec allows this one
        if not allow and allow_read and r["m"] not in ("GET", "HEAD", "POST", "DELETE"):
            causes.append("F16a")
        elif allow and deny:
            causes.append("F16b")
        else:
            return None                     # served with no grant at all: unexplained
    return causes[0] if causes else None


def size(c):
    if c["kind"] == "seq":
        return 1000 + len(c["reqs"])
    return _size(c)


def _size(c):
    return len(c.get("acl") or []) * 10 + len(c.get("ops") or []) * 10 + len(c.get("reqs") or [])


def classify(c, o):
    if c["kind"] == "seq":
        phs = [r.get("ph") for r in (o.get("res") or [])]
        return "seq" if (0 in phs and 2 in phs) else None
    if c["kind"] == "list":
        return "list" if (c.get("acl") or c["token"] != TOKENS["valid"]) else None
    if c["kind"] == "persist":
        return "history" if c["ops"] else None
    f = facts_of(c["token"])
    if c["token"] != TOKENS["valid"]:
        return "token-variant"
    return "acl" if (c.get("acl") and "admin" not in f["roles"]) else None


def tags(c, o):
    if c["kind"] == "seq":
        res = o.get("res") or []
        return ["family=seq", "boundary=%s" % c.get("bound"), "before=%d" % sum(1 for r in res if r.get("ph") == 0),
                "after=%d" % sum(1 for r in res if r.get("ph") == 2), "ambiguous=%d" % sum(1 for r in res if r.get("ph") == 1),
                "served-before=%d" % sum(1 for r in res if r.get("ph") == 0 and klass(r) == 0),
                "served-after=%d" % sum(1 for r in res if r.get("ph") == 2 and klass(r) == 0)]
    if c["kind"] == "list":
        return ["family=list", "acl-entries=%d" % len(c.get("acl") or []), "status=%s" % o.get("listst"),
                "listed=%d/%d" % (len(o.get("listed") or []), len(o.get("all") or [])),
                "duplicates=%s" % (len(set(o.get("listed") or [])) != len(o.get("listed") or []))]
    if c["kind"] == "persist":
        return ["family=persist", "ops=%d" % len(c["ops"]), "restart-noop=%s" % (o.get("before") == o.get("after"))]
    t = ["family=req", "acl-entries=%d" % len(c.get("acl") or []), "sweep=%s" % bool(c.get("sweep")),
         "acl-set-via=%s" % ("core" if c.get("direct") else "http")]
    ks = [klass(r) for r in (o.get("res") or [])]
    names = {0: "served", 1: "preflight", 2: "401", 3: "403", 4: "noroute"}
    t += ["outcome-seen=" + names[k] for k in sorted(set(ks))]
    if any(a["Deny"] for a in (c.get("acl") or [])):
        t.append("has-deny")
    return t
