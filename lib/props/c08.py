"""C08 - incremental jobs converge and tokens never run ahead of delivered data."""
import vlib

ID = "C08"
PROP_FILE = "Properties/C08.v"
CHECK_MODULE = "Check.C08Check"
CASE_TYPE = "tcase"
DRIVER_PKG = "cmd/verif_c08"
SHARD = 60

# order = all_variants in Check/C08Check.v.  The in-batch duplicate flag (finding F02a of C01/C02 when pinned) changes
# feed positions and hence tokens, but never makes the C08 spec fail: no C08 finding is attached to it.
VARIANTS = [
    {"name": "current(EqLen,FsKeep,DupStoredAndLocal)", "findings": ["F08a", "F08b"]},
    {"name": "EqFull,FsKeep,DupStoredAndLocal", "findings": ["F08b"]},
    {"name": "EqLen,FsReset,DupStoredAndLocal", "findings": ["F08a"]},
    {"name": "EqFull,FsReset,DupStoredAndLocal", "findings": []},
    {"name": "EqLen,FsKeep,DupLocalElseStored", "findings": ["F08a", "F08b"]},
    {"name": "EqFull,FsKeep,DupLocalElseStored", "findings": ["F08b"]},
    {"name": "EqLen,FsReset,DupLocalElseStored", "findings": ["F08a"]},
    {"name": "fixed(EqFull,FsReset,DupLocalElseStored)", "findings": []},
]
RULE = ("cases = (source kind: DatasetSource / UnionDatasetSource with 1-3 members, LatestOnly per member, batch size 1..5, "
        "history of source batches (re-writes of the same id, deletes, un-deletes, equal-JSON-length pairs), foreign writes to the "
        "sink dataset, and job runs (incremental / fullsync) each with a scripted fault: sink error / source (ReadEntities) error / sink commit then death / "
        "kill after a page / death at hook pipeline.beforeToken / pipeline.afterToken at page index i / sink rejecting one entity), "
        "deleting and re-creating the sink dataset between runs of the SAME job objects (built once by Scheduler.verify + "
        "toTriggeredJobs), reQueue / reRun error handlers on the triggers; fault positions are "
        "enumerated over every page index of fixed histories plus PRNG histories; a case is non-trivial when some fault fired or a "
        "run needed >= 2 pages; distinct = distinct case tuples")
TRUSTED = [
    "json.Marshal length of an entity modelled by jlen (two optional string properties ns0:p / ns0:q, \"deleted\":true, = 15 bytes); "
    "values outside the driver's catalogue are not modelled",
    "badger: a committed StoreEntities batch is atomic and durable; Sequence numbers of a dataset's change log are contiguous "
    "(Release returns the unused lease), so a continuation token is a position in the feed",
    "process death is simulated by a panic at the hook / in the sink wrapper that unwinds job.Run, followed by closing and "
    "reopening the store (everything in memory is dropped); un-synced badger writes of a real kill -9 are not modelled",
    "kill = cancelling the run's context right after the sink committed page i (the next callback returns 'got job interrupt')",
]
ASSUMPTIONS = [
    "batch size >= 1 (the scheduler replaces batchSize < 1 by 10000)",
    "convergence / idempotence: no source writes while the run is in progress (token safety is proved for histories of writes "
    "interleaved with complete or faulted runs)",
    "union sources: member datasets contain disjoint entity id sets; other writers of the sink dataset only touch ids no source member contains",
    "fullsync: CompleteFullSync itself is not interrupted; fewer than 1000 unseen entities (one delete batch)",
    "sink and source are local (non-proxy) datasets; no transform (plain copy job)",
]
EXHAUSTIVE = {"thorough": False}

FAULTS = ["sinkfail", "sinkpanic", "kill", "diebefore", "dieafter", "srcfail", "sinkreject"]
FAULT_COQ = {"none": "FNone", "sinkfail": "FSinkFail", "sinkpanic": "FSinkPanic", "kill": "FKill",
             "diebefore": "FDieBefore", "dieafter": "FDieAfter", "srcfail": "FSrcFail", "sinkreject": "FSinkReject", "slow": "FNone"}
HANDLER_COQ = {"requeue": "HReQueue", "rerun": "HReRun", "log": "HLog"}
HANDLER_SETS = [[], [], ["requeue"], ["rerun"], ["requeue", "rerun"]]
OUTCOME = {"ok": 0, "failed": 1, "died": 2}


def W(k, es):
    return {"op": "w", "k": k, "es": [list(e) for e in es]}


def SW(es):
    return {"op": "sw", "es": [list(e) for e in es]}


def R(full=False, fault="none", at=0):
    return {"op": "run", "full": full, "fault": fault, "at": at}


DROP = {"op": "drop"}
CREATE = {"op": "create"}
LEASE = {"op": "lease"}   # an http client opened a fullsync on the sink without a sync id and went away (lease = 1 s)


def mk(ops, batch=2, los=(False,), union=False, handlers=(), sink="dataset", srchttp=False, dropids=()):
    return {"members": len(los), "union": union, "los": list(los), "batch": batch, "handlers": list(handlers),
            "sink": sink, "srchttp": srchttp, "dropids": list(dropids), "ops": ops}


def drop_cases():
    """A filtering transform (Go stub) that drops one COMPLETE page k of the source, with entities following, for
    several batch sizes; fullsync and incremental, fault-free, every id written once, single dataset source.
    Such a job is a copy job over the filtered feed: term() translates feeds, feed lengths and tokens into the
    coordinates of the filtered feed (count of kept entries before the position) and the unchanged model is used."""
    out = []
    for b in (1, 2, 3, 4):
        for k in (0, 1, 2):
            n = (k + 2) * b + 1
            ids = list(range(1, n + 1))
            drop = ids[k * b:(k + 1) * b]
            w = W(0, [(i, 1, 0, 0) for i in ids])
            out.append(mk([w, R(True), R(), R()], batch=b, dropids=drop))
            out.append(mk([w, R(), R(True), R()], batch=b, dropids=drop))
            out.append(mk([SW([(100, 1, 0, 0)]), w, R(), W(0, [(n + 1, 1, 0, 0)]), R(True), R()], batch=b, dropids=drop))
    return out


def witness_cases():
    return [
        # F08a: un-delete of equal JSON length reaches a LatestOnly sink as the only new version and is dropped
        mk([W(0, [(1, 0, 0, 1)]), R(), W(0, [(1, 4, 0, 0)]), W(0, [(1, 13, 0, 0)]), R(), R()], batch=2, los=(True,)),
        mk([W(0, [(1, 1, 0, 1)]), R(), W(0, [(1, 1, 2, 0)]), W(0, [(1, 1, 10, 0)]), R(), R(True), R()], batch=3, los=(True,)),
        # F08b: a fullsync killed after it re-wrote an old version leaves the old token
        mk([W(0, [(1, 1, 0, 0)]), W(0, [(1, 2, 0, 0)]), R(), R(True, "kill", 0), R(), R()], batch=1),
        mk([W(0, [(1, 1, 0, 0), (2, 1, 0, 0)]), W(0, [(1, 2, 0, 0)]), R(), R(True, "sinkfail", 1), R()], batch=2),
        mk([W(0, [(1, 1, 0, 0)]), W(1, [(11, 1, 0, 0)]), W(1, [(11, 2, 0, 0)]), R(), R(True, "sinkpanic", 1), R()],
           batch=1, los=(False, False), union=True),
        # in-batch repeats (source and sink side): tells the two duplicate rules apart through feed positions / tokens
        mk([W(0, [(2, 13, 0, 1), (1, 2, 0, 0), (1, 2, 0, 0)]), R(), W(0, [(1, 2, 0, 0), (1, 3, 0, 0), (1, 3, 0, 0)]),
            R(False, "kill", 0), R(), R()], batch=2),
        # a fullsync that fails at batch k (sink error / source error) on a sink that already holds data, then an
        # incremental run: token must not pass undelivered data, nothing may be deleted, the next run converges
        mk([W(0, [(1, 1, 0, 0), (2, 1, 0, 0), (3, 1, 0, 0), (4, 1, 0, 0)]), R(), W(0, [(5, 1, 0, 0), (6, 1, 0, 0)]),
            R(True, "sinkfail", 2), R(), R()], batch=2, los=(True,)),
        mk([W(0, [(1, 1, 0, 0), (2, 1, 0, 0), (3, 1, 0, 0), (4, 1, 0, 0)]), R(), W(0, [(5, 1, 0, 0)]),
            R(True, "srcfail", 1), R(), R()], batch=2),
        mk([W(0, [(1, 1, 0, 0), (2, 1, 0, 0)]), W(1, [(11, 1, 0, 0), (12, 1, 0, 0)]), R(), W(1, [(13, 1, 0, 0)]),
            R(True, "srcfail", 0), R(), R(True, "sinkfail", 1), R()], batch=1, los=(False, True), union=True),
        # the sink dataset is deleted (and re-created) between runs of the same job objects: a run without a sink must
        # not move the token, the sink is found by name again, a completed fullsync converges into the NEW dataset
        mk([W(0, [(1, 1, 0, 0), (2, 1, 0, 0), (3, 1, 0, 0)]), R(), dict(DROP), W(0, [(4, 1, 0, 0), (5, 1, 0, 0)]), R(),
            dict(CREATE), R(), R(True), R()], batch=2),
        mk([W(0, [(1, 1, 0, 0), (2, 1, 0, 0)]), R(True), dict(DROP), R(True), dict(CREATE), W(0, [(3, 1, 0, 0)]), R(True), R()],
           batch=1, los=(True,)),
        mk([W(0, [(1, 1, 0, 0)]), W(1, [(11, 1, 0, 0)]), R(), dict(DROP), dict(CREATE), W(1, [(12, 1, 0, 0)]), R(), R(True), R()],
           batch=2, los=(False, False), union=True),
        # a sink that rejects one entity, with reQueue / reRun error handlers on the triggers: the run fails and the token
        # stays behind the rejected entity; the next healthy run delivers it
        mk([W(0, [(1, 1, 0, 0), (2, 1, 0, 0), (3, 1, 0, 0), (4, 1, 0, 0), (5, 1, 0, 0)]), R(False, "sinkreject", 3), R(), R()],
           batch=2, handlers=("requeue",)),
        mk([W(0, [(1, 1, 0, 0), (2, 1, 0, 0), (3, 1, 0, 0), (4, 1, 0, 0), (5, 1, 0, 0)]), R(True, "sinkreject", 3), R(), R()],
           batch=2, handlers=("requeue", "rerun")),
        mk([W(0, [(1, 1, 0, 0), (2, 1, 0, 0)]), W(1, [(11, 1, 0, 0), (12, 1, 0, 0)]), R(False, "sinkreject", 11), R(True), R()],
           batch=3, los=(False, True), union=True, handlers=("rerun",)),
        # HttpDatasetSink -> the hub's own POST handler.  A fullsync then pages the source through MapEntities
        # (entities mode, token not stored); union of two members, one larger than the batch size
        mk([W(0, [(1, 1, 0, 0), (2, 1, 0, 0), (3, 1, 0, 0), (4, 1, 0, 0), (5, 1, 0, 0)]), W(1, [(11, 1, 0, 0)]),
            SW([(100, 1, 0, 0)]), R(True), R(), R()], batch=2, los=(False, False), union=True, sink="http"),
        mk([W(0, [(1, 1, 0, 0), (2, 1, 0, 0), (1, 2, 0, 0), (3, 1, 0, 1)]), R(False, "kill", 0), R(True), W(0, [(2, 2, 0, 0)]), R()],
           batch=1, sink="http"),
        # ... with a log handler and a receiver that refuses one entity after it accepted earlier batches
        mk([W(0, [(1, 1, 0, 0), (2, 1, 0, 0), (3, 1, 0, 0), (4, 1, 0, 0), (5, 1, 0, 0), (6, 1, 0, 0)]),
            R(True, "sinkreject", 4), R()], batch=2, handlers=("log",), sink="http"),
        mk([W(0, [(1, 1, 0, 0), (2, 1, 0, 0), (3, 1, 0, 0), (2, 2, 0, 0)]), SW([(100, 1, 0, 0)]), R(),
            R(True, "sinkreject", 3)], batch=3, handlers=("log",), sink="http"),
        # HttpDatasetSource reading the hub's /changes endpoint with its own latestOnly / limit parameters
        mk([W(0, [(1, 1, 0, 0), (2, 1, 0, 0), (3, 1, 0, 0), (4, 1, 0, 0)]), W(0, [(3, 2, 0, 0), (4, 2, 0, 0)]), R(), R()],
           batch=2, los=(True,), srchttp=True),
        mk([W(0, [(1, 1, 0, 0), (2, 1, 0, 0), (1, 2, 0, 0)]), R(False, "diebefore", 0), W(0, [(2, 2, 0, 0), (1, 3, 0, 0)]), R(), R(True), R()],
           batch=1, los=(True,), srchttp=True),
        # an abandoned id-less http fullsync lease (1 s) on the sink, then a fullsync job run that outlives it
        mk([SW([(100, 1, 0, 0)]), W(0, [(1, 1, 0, 0), (2, 1, 0, 0), (3, 1, 0, 0), (4, 1, 0, 0)]), dict(LEASE),
            R(True, "slow", 400), R()], batch=1),
        # plain behaviour: death between sink write and token store, then recovery and a no-op run
        mk([W(0, [(1, 1, 0, 0), (2, 2, 0, 0), (3, 3, 0, 0)]), R(), W(0, [(1, 4, 0, 0)]), R(False, "diebefore", 0), R(), R()]),
        mk([W(0, [(1, 1, 0, 0), (2, 2, 0, 0), (3, 3, 0, 0)]), W(1, [(11, 1, 0, 0), (12, 2, 0, 0), (11, 3, 0, 0)]),
            SW([(100, 1, 1, 0)]), R(False, "sinkfail", 1), R(), R(True), R()], batch=2, los=(False, True), union=True),
    ]


def corpus_cases():
    return drop_cases()


# value codes: 0 absent; 1..3 one letter; 4..6 two; 10..12 four; 13..15 five letters
PVALS = [0, 1, 2, 3, 4, 5, 13, 14, 1, 2]
QVALS = [0, 0, 0, 0, 1, 10, 11, 2]


def rand_version(rng, pool):
    return (rng.choice(pool), rng.choice(PVALS), rng.choice(QVALS), 1 if rng.chance(1, 5) else 0)


def rand_fault(rng, maxat=3, ids=(1, 2, 3)):
    if rng.chance(1, 2):
        return "none", 0
    f = rng.choice(FAULTS)
    if f == "sinkreject":
        return f, rng.choice(list(ids))
    return f, rng.range(0, maxat)


def rand_shape(rng):
    x = rng.below(10)
    if x < 4:
        return False, (rng.chance(1, 3),)
    if x < 8:
        return True, (rng.chance(1, 3), rng.chance(1, 3))
    if x < 9:
        return True, (rng.chance(1, 2),)
    return True, (rng.chance(1, 3), rng.chance(1, 3), rng.chance(1, 3))


def rand_case(rng, maxops=8):
    union, los = rand_shape(rng)
    n = len(los)
    pools = [[k * 10 + 1, k * 10 + 2, k * 10 + 3] for k in range(n)]
    ops = []
    nops = rng.range(3, maxops)
    for _ in range(nops):
        x = rng.below(20)
        if x < 9:
            k = rng.below(n)
            if rng.chance(1, 6):
                # engineered un-delete of equal JSON length: deleted, then (maybe a run), a shorter live one, the 15-byte one
                i = rng.choice(pools[k])
                p0 = rng.choice([0, 1])
                ops.append(W(k, [(i, p0, 0, 1)]))
                if rng.chance(2, 3):
                    ops.append(R(False, "none", 0))
                if p0 == 0:
                    ops.append(W(k, [(i, rng.choice([1, 4]), 0, 0)]))
                    ops.append(W(k, [(i, rng.choice([13, 14]), 0, 0)]))
                else:
                    ops.append(W(k, [(i, p0, rng.choice([1, 4]), 0)]))
                    ops.append(W(k, [(i, p0, rng.choice([10, 11]), 0)]))
            else:
                ops.append(W(k, [rand_version(rng, pools[k]) for _ in range(rng.range(1, 4))]))
        elif x < 10:
            ops.append(SW([rand_version(rng, [100, 101]) for _ in range(rng.range(1, 2))]))
        elif x < 12:
            # the sink dataset is deleted under the job; runs while it is gone; re-created; runs; a fullsync
            ops.append(dict(DROP))
            for _ in range(rng.below(3)):
                if rng.chance(1, 2):
                    k = rng.below(n)
                    ops.append(W(k, [rand_version(rng, pools[k]) for _ in range(rng.range(1, 3))]))
                else:
                    ops.append(R(rng.chance(1, 3), "none", 0))
            ops.append(dict(CREATE))
            for _ in range(rng.below(3)):
                ops.append(R(False, "none", 0))
            if rng.chance(3, 4):
                ops.append(R(True, "none", 0))
        else:
            f, at = rand_fault(rng, ids=pools[rng.below(n)])
            ops.append(R(rng.chance(1, 4), f, at))
    if rng.chance(4, 5):
        ops.append(R(rng.chance(1, 6), "none", 0))
        ops.append(R(False, "none", 0))
    return mk(ops, batch=rng.range(1, 5), los=los, union=union, handlers=rng.choice(HANDLER_SETS))


BASE_HIST = [(1, 1, 0, 0), (2, 1, 0, 0), (1, 2, 0, 0), (3, 1, 0, 1), (2, 2, 0, 0)]


def enum_cases(rng, sample=None):
    """every fault kind at every page index, for every batch size, on fixed multi-version histories"""
    out = []
    shapes = [(False, (False,)), (False, (True,)), (True, (False, True))]
    for union, los in shapes:
        for batch in range(1, 6):
            for full in (False, True):
                for f in FAULTS:
                    if full and f in ("diebefore", "dieafter"):
                        continue
                    for at in range(0, 7):
                        if f == "sinkreject":
                            if at not in (1, 2, 3):
                                continue
                        elif at * batch > len(BASE_HIST) + batch:
                            continue
                        ops = [W(0, BASE_HIST[:3]), W(0, BASE_HIST[3:])]
                        if len(los) > 1:
                            ops.append(W(1, [(11, 1, 0, 0), (12, 1, 0, 0), (11, 2, 0, 0)]))
                        pre = rng.below(3)
                        if pre == 1:
                            ops.insert(1, R(False, "none", 0))
                        elif pre == 2:
                            ops.append(R(False, "none", 0))
                            ops.append(W(0, [(1, 3, 0, 0), (3, 1, 0, 0)]))
                        ops += [R(full, f, at), R(False, "none", 0), R(False, "none", 0)]
                        out.append(mk(ops, batch=batch, los=los, union=union, handlers=rng.choice(HANDLER_SETS)))
    if sample is not None and len(out) > sample:
        rng.shuffle(out)
        out = out[:sample]
    return out


def transport_cases(rng, count):
    """http sink / http source; fullsyncs to an http sink only fault-free or log + refused entity"""
    out = []
    for _ in range(count):
        x = rng.below(3)
        if x == 0:      # http source (single), any fault
            lo = rng.chance(1, 2)
            pool = [1, 2, 3, 4]
            ops = []
            for _ in range(rng.range(2, 5)):
                if rng.chance(1, 2) or not ops:
                    ops.append(W(0, [rand_version(rng, pool) for _ in range(rng.range(1, 4))]))
                else:
                    f, at = rand_fault(rng, ids=pool)
                    ops.append(R(rng.chance(1, 4), f, at))
            ops += [R(False, "none", 0), R(False, "none", 0)]
            out.append(mk(ops, batch=rng.range(1, 4), los=(lo,), srchttp=True, handlers=rng.choice(HANDLER_SETS)))
        else:           # http sink
            log = (x == 2)
            # (log + refused entity: single source and batch >= 2, so that the recorded outcome of the run does not
            #  depend on the page order - wrappedSink forgets the error after a later unsplit batch; that is C17's)
            union, los = (False, (False,)) if log else rand_shape(rng)
            n = len(los)
            pools = [[k * 10 + 1, k * 10 + 2, k * 10 + 3, k * 10 + 4] for k in range(n)]
            ops = []
            for k in range(n):
                ops.append(W(k, [rand_version(rng, pools[k]) for _ in range(rng.range(2, 6))]))
            if rng.chance(1, 3):
                ops.append(SW([rand_version(rng, [100, 101])]))
            for _ in range(rng.range(1, 4)):
                y = rng.below(4)
                if y == 0:
                    k = rng.below(n)
                    ops.append(W(k, [rand_version(rng, pools[k]) for _ in range(rng.range(1, 3))]))
                elif y == 1 and not log:
                    f, at = rand_fault(rng, ids=pools[rng.below(n)])
                    if f in ("sinkreject", "slow"):
                        f, at = "none", 0
                    ops.append(R(False, f, at))
                elif y == 2:
                    ops.append(R(False, "none", 0))
                else:
                    ops.append(R(True, "none", 0))
            ents = not ((not union) and los[0])
            if log and ents:
                ops.append(R(True, "sinkreject", rng.choice(pools[rng.below(n)])))
            else:
                ops.append(R(True, "none", 0))
            ops.append(R(False, "none", 0))
            out.append(mk(ops, batch=(rng.range(2, 4) if log else rng.range(1, 4)), los=los, union=union, sink="http",
                          handlers=(("log",) if log else rng.choice(HANDLER_SETS))))
    return out


def gen(rng, tier):
    if tier == "quick":
        return enum_cases(rng, 100) + [rand_case(rng) for _ in range(100)] + transport_cases(rng, 40)
    if tier == "search":
        return [rand_case(rng, 10) for _ in range(260)] + transport_cases(rng, 60)
    return enum_cases(rng) + [rand_case(rng, 10) for _ in range(1500)] + transport_cases(rng, 300)


def run(binp, cases):
    return vlib.run_driver(binp, cases, died_obs={"runs": [], "srcs": []})


def vterm(t):
    return "mkV %s %s %s %s" % (vlib.zlit(t[0]), vlib.zlit(t[1]), vlib.zlit(t[2]), "true" if t[3] else "false")


def vlist(ts):
    return vlib.coq_list([vterm(t) for t in ts])


def zl(l):
    return vlib.coq_list([vlib.zlit(x) for x in l])


def term(c, o):
    t = _term(c, o)
    k = _key(c, o)
    if k not in _TERMS:
        _TERMS[k] = t
        _ORDER.append(k)
    return t


def _kept(c, ts):
    d = set(c.get("dropids") or [])
    return [t for t in ts if t[0] not in d]


def _untransform(c, o):
    """copy job with a filtering transform -> the same history as a plain copy job over the filtered feed"""
    d = set(c.get("dropids") or [])
    if not d:
        return c, o
    srcs = o.get("srcs") or []
    pos = lambda k, n: (len(_kept(c, srcs[k][:n])) if 0 <= k < len(srcs) and n >= 0 else n)
    c2 = dict(c)
    c2["ops"] = [dict(op, es=_kept(c, op["es"])) if op["op"] == "w" else op for op in c["ops"]]
    o2 = dict(o)
    o2["srcs"] = [_kept(c, f) for f in srcs]
    o2["runs"] = [dict(r, token=[pos(k, t) for k, t in enumerate(r.get("token") or [])],
                       srclens=[pos(k, n) for k, n in enumerate(r.get("srclens") or [])]) for r in o.get("runs") or []]
    return c2, o2


def _term(c, o):
    c, o = _untransform(c, o)
    runs = list(o.get("runs") or [])
    ops = []
    ri = 0
    for op in c["ops"]:
        if op["op"] == "w":
            ops.append("TW %d %s" % (op["k"], vlist(op["es"])))
        elif op["op"] == "sw":
            ops.append("TSW %s" % vlist(op["es"]))
        elif op["op"] == "drop":
            ops.append("TDrop")
        elif op["op"] == "create":
            ops.append("TCreate")
        elif op["op"] == "lease":
            continue   # nothing in the model: the job's StartFullSync abandons the stale http fullsync
        else:
            r = runs[ri] if ri < len(runs) else {"outcome": "missing", "token": [], "sink": [], "sinklen": -1, "srclens": [],
                                                 "sinknew": []}
            ri += 1
            flt = FAULT_COQ[op["fault"]] + ("" if op["fault"] in ("none", "slow") else " %s" % vlib.zlit(op["at"]))
            ops.append("TRun (mkTR %s (%s) %d%%N %s %s %s %s %s)" % (
                vlib.coq_bool(op.get("full", False)), flt, OUTCOME.get(r["outcome"], 9),
                zl(r.get("token") or []), vlist(r.get("sink") or []), vlib.zlit(r.get("sinklen", -1)),
                zl(r.get("srclens") or []), vlist(r.get("sinknew") or [])))
    srcs = o.get("srcs") or []
    return "mkTC %d %s %s %d %s %s %s %s" % (
        c["members"], vlib.coq_bool(c["union"]), vlib.coq_list([vlib.coq_bool(b) for b in c["los"]]), c["batch"],
        vlib.coq_list([HANDLER_COQ[h] for h in c.get("handlers") or []]), vlib.coq_bool(c.get("sink") == "http"),
        vlib.coq_list(["\n   " + x for x in ops]), vlib.coq_list([vlist(f) for f in srcs]))


def predict_text(c, o):
    t = term(c, o)
    ok, out, _ = vlib.coq_eval("C08p", [CHECK_MODULE, "Model.Pipeline"],
                               "Definition c : tcase := %s.\nEval vm_compute in (predict v_cur c).\n"
                               "Eval vm_compute in (predict v_fixed c).\n" % t)
    return out.strip()


_TERMS = {}      # (case, obs) key -> position in _ORDER ; filled by term()
_ORDER = []
_EXPLAINED = {}  # key -> list of variant indices that predict this observation


def _key(c, o):
    import json
    return json.dumps(c, sort_keys=True) + "|" + json.dumps(o, sort_keys=True)


def attribute(c, o):
    """A spec failure of the implementation is explained by a finding only if some variant of the model predicts
    exactly this observation; the finding is then (the first of) those of the least deviating such variant.
    Evaluated in Coq, once for all cases seen by term()."""
    k = _key(c, o)
    if k not in _EXPLAINED:
        todo = [kk for kk in _ORDER if kk not in _EXPLAINED]
        if k not in _TERMS:
            _TERMS[k] = _term(c, o)
            todo.append(k)
        ev = vlib.coq_evaluate_cases("C08a", CHECK_MODULE, CASE_TYPE, [_TERMS[kk] for kk in todo], shard=SHARD)
        for i, kk in enumerate(todo):
            _EXPLAINED[kk] = [vi for vi in range(len(VARIANTS)) if i not in ev[vi]]
    agreeing = _EXPLAINED[k]
    if not agreeing:
        return None
    best = min(agreeing, key=lambda vi: len(VARIANTS[vi]["findings"]))
    fs = VARIANTS[best]["findings"]
    return fs[0] if fs else None


def size(c):
    return len(c["ops"]) * 10 + sum(len(op.get("es") or []) for op in c["ops"])


def classify(c, o):
    runs = o.get("runs") or []
    if any(r.get("outcome") in ("failed", "died") for r in runs):
        return "fault-fired"
    total = sum(len(op.get("es") or []) for op in c["ops"] if op["op"] == "w")
    return "multi-page" if total > c["batch"] else None


def tags(c, o):
    t = ["source=" + ("union%d" % c["members"] if c["union"] else "single"),
         "latestOnly=%s" % ("some" if any(c["los"]) else "none"), "batch=%d" % c["batch"]]
    runs = o.get("runs") or []
    ri = 0
    for op in c["ops"]:
        if op["op"] == "run":
            r = runs[ri] if ri < len(runs) else {"outcome": "missing"}
            ri += 1
            t.append("run=%s/%s/%s" % ("full" if op.get("full") else "incr", op["fault"], r["outcome"]))
    return sorted(set(t))
