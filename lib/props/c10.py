"""C10 - every source entity reaches the transform exactly once, for any batching."""
import vlib

ID = "C10"
PROP_FILE = "Properties/C10.v"
CHECK_MODULE = "Check.C10Check"
CASE_TYPE = "tcase"
DRIVER_PKG = "cmd/verif_c10"
SHARD = 400

VARIANTS = [
    {"name": "current(PRound)", "findings": ["F10a", "F10b"]},
    {"name": "fixed(PCeilClip)", "findings": []},
]
RULE = ("cases = (n source entities, batch size, parallelism, transform kind, pipeline type, recording wrapper); enumerated "
        "around the rounding boundaries of n/parallelism plus PRNG samples (quick) or the full box n<=24 x p<=12 (thorough); "
        "a case is non-trivial when the page is actually partitioned (n >= p >= 2 on some page); distinct = distinct case tuples")
TRUSTED = [
    "math.Round(float64 n / float64 p) modelled as (2n+p)/(2p) on Z: exact for n,p < 2^26",
    "goja / the four JavaScript transforms of the driver are modelled by their per-entity functions g (return, drop odd, duplicate, create)",
    "copy mode (content level): the three content-preserving transforms (return as is / read and write back every value / rebuild "
    "with NewEntity) are KIdentity in the model; 'equivalent to a plain copy' is judged by the driver comparing the sink with the sink "
    "of a job without transform over the same source (canonical JSON), 'running it again produces no new changes' by the sink's "
    "change-log length after a run from scratch and after a full sync; goja's value conversion itself is not modelled",
    "goroutine scheduling of the chunk workers: results are collected by worker index, so the model is sequential",
]
ASSUMPTIONS = [
    "batch size >= 1, parallelism >= 1 (the scheduler replaces batchSize < 1 by 10000; Parallelism is taken from the job JSON)",
    "the source dataset is not written during the run",
]
EXHAUSTIVE = {"thorough": True}
COPY_KINDS = ["identity", "touch", "rebuild"]     # content-preserving transforms of the copy mode (all KIdentity in the model)
KINDS = ["identity", "dropodd", "dup", "create", "droplow", "pushin"]
KIND_COQ = {"touch": "KIdentity", "rebuild": "KIdentity", "identity": "KIdentity", "dropodd": "KDropOdd", "dup": "KDup", "create": "KCreate", "droplow": "KDropLow", "pushin": "KPushIn"}


def mk(n, batch, par, kind="identity", full=False, wrap=True):
    return {"n": n, "batch": batch, "par": par, "kind": kind, "full": full, "wrap": wrap}


def mkcopy(n, batch, par, kind):
    """copy mode: rich contents into a real DatasetSink beside a plain copy job; second run from scratch and a full sync add nothing"""
    return {"n": n, "batch": batch, "par": par, "kind": kind, "full": False, "wrap": False, "copy": True}


def witness_cases():
    return [mkcopy(13, 5, 2, "touch"), mkcopy(13, 100, 3, "rebuild"), mkcopy(9, 4, 1, "identity"), mkcopy(0, 4, 3, "touch"),
            mk(11, 100, 10), mk(15, 100, 10), mk(19, 100, 10), mk(4, 100, 3), mk(14, 5, 4, "create"),
            mk(11, 100, 10, "identity", False, False), mk(11, 100, 10, "dup", True, True),
            # a filtering transform that empties a whole NON-final page must not end the run (fullsync and incremental)
            mk(6, 2, 1, "droplow", True, True), mk(5, 1, 1, "dropodd", True, True), mk(7, 1, 2, "droplow", False, True),
            mk(6, 2, 1, "droplow", True, False),
            # a transform that grows its INPUT array in place must not reach into the next worker's chunk
            mk(6, 100, 2, "pushin", False, True), mk(9, 100, 3, "pushin", False, False), mk(8, 4, 2, "pushin", False, True)]


def corpus_cases():
    return []


def gen(rng, tier):
    out = []
    if tier == "quick":
        for p in (2, 3, 4, 6, 10):
            for k in (1, 2):
                base = p * k
                for d in range(0, p):
                    n = base + d
                    out.append(mk(n, 1000, p, rng.choice(KINDS), False, rng.chance(3, 4)))
        for b in (1, 2):
            for kind in ("droplow", "dropodd"):
                out.append(mk(rng.range(4, 9), b, rng.choice([1, 2, 3]), kind, True, rng.chance(1, 2)))
                out.append(mk(rng.range(4, 9), b, rng.choice([1, 2, 3]), kind, False, rng.chance(1, 2)))
        for _ in range(40):
            n = rng.range(0, 40)
            out.append(mk(n, rng.choice([1, 2, 3, 5, 7, 10, 1000]), rng.range(1, 12), rng.choice(KINDS),
                          rng.chance(1, 5), rng.chance(3, 4)))
        for _ in range(12):
            out.append(mkcopy(rng.range(1, 30), rng.choice([1, 2, 3, 5, 7, 1000]), rng.range(1, 6), rng.choice(COPY_KINDS)))
        return out
    if tier == "search":
        for _ in range(40):
            out.append(mkcopy(rng.range(0, 40), rng.choice([1, 2, 3, 5, 7, 1000]), rng.range(1, 8), rng.choice(COPY_KINDS)))
        for _ in range(300):
            n = rng.range(0, 60)
            out.append(mk(n, rng.choice([1, 2, 3, 4, 5, 7, 10, 16, 1000]), rng.range(1, 16), rng.choice(KINDS),
                          rng.chance(1, 4), rng.chance(3, 4)))
        return out
    # thorough: the whole box, one page
    for n in range(0, 25):
        for p in range(1, 13):
            out.append(mk(n, 1000, p, KINDS[(n + p) % 6], False, True))
    for n in range(1, 25):
        for p in (2, 3, 5, 10):
            for b in range(1, 7):
                out.append(mk(n, b, p, KINDS[(n + p + b) % 6], (n + b) % 3 == 0, (n + p) % 3 != 0))
    for _ in range(150):
        out.append(mkcopy(rng.range(0, 60), rng.choice([1, 2, 3, 5, 7, 16, 1000]), rng.range(1, 12), rng.choice(COPY_KINDS)))
    for _ in range(600):
        n = rng.range(25, 200)
        out.append(mk(n, rng.choice([7, 10, 16, 33, 64, 1000]), rng.range(1, 40), rng.choice(KINDS),
                      rng.chance(1, 5), rng.chance(3, 4)))
    return out


def run(binp, cases):
    return vlib.run_driver(binp, cases, died_obs={"seen": [], "sink": [], "token": "", "rerun": -1, "result": False})


OUTCOME = {"ok": 0, "err": 1, "panic": 2, "noresult": 3, "died": 4, "setup-error": 5}


def canon(c, o):
    tok = int(o["token"]) if o.get("token", "").isdigit() else 0
    seen = o.get("seen") or []
    if o["outcome"] != "ok":
        # chunks of the page that failed may or may not have been started: not compared
        seen = [ch for ch in seen if ch and ch[0] < tok]
    return tok, seen


def term(c, o):
    tok, seen = canon(c, o)
    zl = lambda l: vlib.coq_list([vlib.zlit(x) for x in l])
    zll = lambda ll: vlib.coq_list([zl(l) for l in ll])
    return ("{| c_n := %d; c_batch := %d; c_par := %d; c_kind := %s; c_full := %s; c_wrap := %s; "
            "o_outcome := %d%%N; o_seen := %s; o_sink := %s; o_token := %d; o_rerun := %s; o_copy := %s |}" % (
                c["n"], c["batch"], c["par"], KIND_COQ[c["kind"]], vlib.coq_bool(c["full"]), vlib.coq_bool(c["wrap"]),
                OUTCOME.get(o["outcome"], 9), zll(seen), zll(o.get("sink") or []), tok, vlib.zlit(o.get("rerun", -1)),
                ("Some (%s, %s, %s, %s, %s)" % (vlib.coq_bool(bool(o.get("dst_eq"))), vlib.zlit(o.get("dst_changes", -1)),
                                                vlib.zlit(o.get("ref_changes", -1)), vlib.zlit(o.get("re_changes", -1)),
                                                vlib.zlit(o.get("full_changes", -1)))) if c.get("copy") else "None"))


def predict_text(c, o):
    t = term(c, o)
    ok, out, _ = vlib.coq_eval("C10p", [CHECK_MODULE],
                               "Definition c : tcase := %s.\nEval vm_compute in (predict PRound c, predict PCeilClip c).\n" % t)
    return out.strip()


def eff_par(n, p):
    return 1 if n < p else p


def attribute(c, o):
    """signature of the recorded findings on the pinned arithmetic"""
    if c["full"] or c.get("copy"):
        return None
    # a page of length L is bad for math.Round arithmetic iff ...
    def page_bad(L):
        par = eff_par(L, c["par"])
        s = (2 * L + par) // (2 * par)
        if (par - 1) * s > L:
            return "F10b"
        if par * s < L:
            return "F10a"
        return None
    n, b = c["n"], c["batch"]
    pos = 0
    while pos < n:
        L = min(b, n - pos)
        r = page_bad(L)
        if r == "F10b":
            return "F10b" if o["outcome"] == "panic" else None
        if r == "F10a":
            return "F10a" if o["outcome"] == "ok" else None
        pos += L
    return None


def size(c):
    return c["n"] * 100 + c["par"]


def classify(c, o):
    return "partitioned" if (not c["full"] and c["par"] >= 2 and min(c["n"], c["batch"]) >= c["par"]) else None


def tags(c, o):
    return ["kind=" + c["kind"], "mode=" + ("copy" if c.get("copy") else "ids"), "pipeline=" + ("fullsync" if c["full"] else "incremental"),
            "wrap=%s" % c["wrap"], "outcome=" + o["outcome"],
            "n<p" if c["n"] < c["par"] else "n>=p", "pages=%s" % ("1" if c["batch"] >= c["n"] else ">1")]
