"""C10 - every source entity reaches the transform exactly once, for any batching."""
import vlib

ID = "C10"
PROP_FILE = "Properties/C10.v"
CHECK_MODULE = "Model.JsonValue Check.C10Check"
CASE_TYPE = "tcase"
DRIVER_PKG = "cmd/verif_c10"
SHARD = 400

VARIANTS = [
    {"name": "current(PRound, nested entities from the HTTP transform re-stored)", "findings": ["F10a", "F10b", "F10c"]},
    {"name": "PRound, nested repaired", "findings": ["F10a", "F10b"]},
    {"name": "PCeilClip, nested entities from the HTTP transform re-stored", "findings": ["F10c"]},
    {"name": "fixed(PCeilClip, nested repaired)", "findings": []},
]
RULE = ("cases = (n source entities, batch size, parallelism, transform kind, pipeline type, recording wrapper); enumerated "
        "around the rounding boundaries of n/parallelism plus PRNG samples (quick) or the full box n<=24 x p<=12 (thorough); "
        "a case is non-trivial when the page is actually partitioned (n >= p >= 2 on some page); distinct = distinct case tuples")
TRUSTED = [
    "math.Round(float64 n / float64 p) modelled as (2n+p)/(2p) on Z: exact for n,p < 2^26",
    "goja / the four JavaScript transforms of the driver are modelled by their per-entity functions g (return, drop odd, duplicate, create)",
    "copy mode (content level): the three content-preserving transforms (return as is / read and write back every value / rebuild "
    "with NewEntity) are KIdentity in the model; 'equivalent to a plain copy' is judged by the driver comparing the sink with the sink "
    "of a job without transform over the same source (canonical JSON), 'running it again produces no new changes' by the sink's "
    "change-log length after a run from scratch and after a full sync; goja's value conversion itself is not modelled",
    "value normalisation: entity.go toJsonValue is called directly on Go values of every integer / float kind, strings, bools, nil, "
    "nested slices, []string and maps, in pairs (value, what goja may hand back for it); the model is Model/JsonValue.v (floats as "
    "thousandths); struct values (nested *Entity through toMap) are not modelled",
    "copy mode also runs the HttpTransform against an httptest service that sends back what it received, without and with the "
    "namespace context (SupportContext); both are KIdentity in the model",
    "goroutine scheduling of the chunk workers: results are collected by worker index, so the model is sequential",
]
ASSUMPTIONS = [
    "batch size >= 1, parallelism >= 1 (the scheduler replaces batchSize < 1 by 10000; Parallelism is taken from the job JSON)",
    "the source dataset is not written during the run",
]
EXHAUSTIVE = {"thorough": True}
COPY_KINDS = ["identity", "touch", "rebuild", "httpecho", "httpctx", "httpflaky"]     # content-preserving transforms of the copy mode (all KIdentity in the model)
KINDS = ["identity", "dropodd", "dup", "create", "droplow", "pushin"]
KIND_COQ = {"httpflaky": "KIdentity", "touch": "KIdentity", "rebuild": "KIdentity", "httpecho": "KIdentity", "httpctx": "KIdentity", "identity": "KIdentity", "dropodd": "KDropOdd", "dup": "KDup", "create": "KCreate", "droplow": "KDropLow", "pushin": "KPushIn"}


def mk(n, batch, par, kind="identity", full=False, wrap=True):
    return {"n": n, "batch": batch, "par": par, "kind": kind, "full": full, "wrap": wrap}


def mkcopy(n, batch, par, kind):
    """copy mode: rich contents into a real DatasetSink beside a plain copy job; second run from scratch and a full sync add nothing"""
    return {"n": n, "batch": batch, "par": par, "kind": kind, "full": False, "wrap": False, "copy": True}


IKINDS = ["int", "int8", "int16", "int32", "int64", "uint", "uint8", "uint16", "uint32", "uint64"]
IKIND_COQ = {"int": "KInt", "int8": "KInt8", "int16": "KInt16", "int32": "KInt32", "int64": "KInt64", "uint": "KUint",
             "uint8": "KUint8", "uint16": "KUint16", "uint32": "KUint32", "uint64": "KUint64"}


def gen_gval(rng, depth=0):
    r = rng.below(12 if depth < 3 else 8)
    if r < 2:
        k = rng.choice(IKINDS)
        n = rng.range(0, 100) if k.startswith("u") or k == "int8" else rng.range(-100, 100)
        return {"k": k, "v": n}
    if r < 4:
        return {"k": "f64", "v": rng.choice([0, 1000, 2000, -3000, 1500, 250, -500, 7000, 100000])}
    if r == 4:
        return {"k": "f32", "v": rng.choice([0, 500, 1500, -2500, 1000, 3000])}
    if r == 5:
        return {"k": "str", "v": rng.range(1, 5)}
    if r == 6:
        return {"k": "bool", "v": rng.chance(1, 2)}
    if r == 7:
        return {"k": "nil"}
    if r < 10:
        return {"k": "slice", "v": [gen_gval(rng, depth + 1) for _ in range(rng.range(0, 3))]}
    if r == 10:
        return {"k": "strslice", "v": [rng.range(1, 5) for _ in range(rng.range(0, 3))]}
    return {"k": "map", "v": [[i + 1, gen_gval(rng, depth + 1)] for i in range(rng.range(0, 2))]}


def js_image(rng, g):
    """what a pass through a JavaScript transform may turn the value into: integer-valued float64 -> int64, inside slices too"""
    if g["k"] == "f64" and g["v"] % 1000 == 0 and rng.chance(3, 4):
        return {"k": "int64", "v": g["v"] // 1000}
    if g["k"] == "slice":
        return {"k": "slice", "v": [js_image(rng, x) for x in g["v"]]}
    return g


def mkjson(rng):
    g = gen_gval(rng)
    return {"n": 0, "batch": 1, "par": 1, "kind": "identity", "full": False, "wrap": False, "json": [g, js_image(rng, g)]}


def gval_term(g):
    k = g["k"]
    if k in IKIND_COQ:
        return "(GInt %s %s)" % (IKIND_COQ[k], vlib.zlit(int(g["v"])))
    if k == "f64":
        return "(GF64 %s)" % vlib.zlit(int(g["v"]))
    if k == "f32":
        return "(GF32 %s)" % vlib.zlit(int(g["v"]))
    if k == "str":
        return "(GStr %d)" % int(g["v"])
    if k == "bool":
        return "(GBool %s)" % vlib.coq_bool(bool(g["v"]))
    if k == "nil":
        return "GNil"
    if k == "slice":
        return "(GSlice %s)" % vlib.coq_list([gval_term(x) for x in g["v"]])
    if k == "strslice":
        return "(GSlice %s)" % vlib.coq_list(["(GStr %d)" % int(x) for x in g["v"]])
    if k == "map":
        return "(GMap %s)" % vlib.coq_list(["(%d, %s)" % (int(kv[0]), gval_term(kv[1])) for kv in g["v"]])
    return "(GStr (-1))"       # a dynamic type the model does not know: predicted by nothing


def jval_term(j):
    t = j.get("t")
    if t == "num":
        return "(JNum %s)" % vlib.zlit(int(j["v"]))
    if t == "str":
        return "(JStr %d)" % int(j["v"])
    if t == "bool":
        return "(JBool %s)" % vlib.coq_bool(bool(j["v"]))
    if t == "nil":
        return "JNil"
    if t == "slice":
        return "(JSlice %s)" % vlib.coq_list([jval_term(x) for x in j["v"]])
    if t == "map":
        return "(JMap %s)" % vlib.coq_list(["(%d, %s)" % (int(kv[0]), gval_term(kv[1])) for kv in j["v"]])
    return "(JStr (-1))"


def witness_cases():
    f = lambda v: {"k": "f64", "v": v}
    i = lambda v: {"k": "int64", "v": v}
    js = lambda a, b: {"n": 0, "batch": 1, "par": 1, "kind": "identity", "full": False, "wrap": False, "json": [a, b]}
    return [mkcopy(9, 3, 1, "httpflaky"), mkcopy(11, 4, 1, "httpecho"), mkcopy(11, 4, 1, "httpctx"), js(f(22000), i(22)), js({"k": "slice", "v": [f(1000), {"k": "slice", "v": [f(2000), f(2500)]}]},
                                    {"k": "slice", "v": [i(1), {"k": "slice", "v": [i(2), f(2500)]}]}),
            js({"k": "uint16", "v": 7}, {"k": "uint16", "v": 7}), js({"k": "strslice", "v": [1, 2]}, {"k": "strslice", "v": [1, 2]}),
            js({"k": "map", "v": [[1, i(1)], [2, f(1500)]]}, {"k": "map", "v": [[1, i(1)], [2, f(1500)]]}),
            mkcopy(13, 5, 2, "touch"), mkcopy(13, 100, 3, "rebuild"), mkcopy(9, 4, 1, "identity"), mkcopy(0, 4, 3, "touch"),
            mk(11, 100, 10), mk(15, 100, 10), mk(19, 100, 10), mk(4, 100, 3), mk(14, 5, 4, "create"),
            mk(11, 100, 10, "identity", False, False), mk(11, 100, 10, "dup", True, True),
            # a filtering transform that empties a whole NON-final page must not end the run (fullsync and incremental)
            mk(6, 2, 1, "droplow", True, True), mk(5, 1, 1, "dropodd", True, True), mk(7, 1, 2, "droplow", False, True),
            mk(6, 2, 1, "droplow", True, False),
            # a transform that grows its INPUT array in place must not reach into the next worker's chunk
            mk(6, 100, 2, "pushin", False, True), mk(9, 100, 3, "pushin", False, False), mk(8, 4, 2, "pushin", False, True)]


def corpus_cases():
    return []


def gen(rng, tier):
    out = []
    if tier == "quick":
        for p in (2, 3, 4, 6, 10):
            for k in (1, 2):
                base = p * k
                for d in range(0, p):
                    n = base + d
                    out.append(mk(n, 1000, p, rng.choice(KINDS), False, rng.chance(3, 4)))
        for b in (1, 2):
            for kind in ("droplow", "dropodd"):
                out.append(mk(rng.range(4, 9), b, rng.choice([1, 2, 3]), kind, True, rng.chance(1, 2)))
                out.append(mk(rng.range(4, 9), b, rng.choice([1, 2, 3]), kind, False, rng.chance(1, 2)))
        for _ in range(40):
            n = rng.range(0, 40)
            out.append(mk(n, rng.choice([1, 2, 3, 5, 7, 10, 1000]), rng.range(1, 12), rng.choice(KINDS),
                          rng.chance(1, 5), rng.chance(3, 4)))
        for _ in range(60):
            out.append(mkjson(rng))
        for _ in range(12):
            out.append(mkcopy(rng.range(1, 30), rng.choice([1, 2, 3, 5, 7, 1000]), rng.range(1, 6), rng.choice(COPY_KINDS)))
        return out
    if tier == "search":
        for _ in range(200):
            out.append(mkjson(rng))
        for _ in range(40):
            out.append(mkcopy(rng.range(0, 40), rng.choice([1, 2, 3, 5, 7, 1000]), rng.range(1, 8), rng.choice(COPY_KINDS)))
        for _ in range(300):
            n = rng.range(0, 60)
            out.append(mk(n, rng.choice([1, 2, 3, 4, 5, 7, 10, 16, 1000]), rng.range(1, 16), rng.choice(KINDS),
                          rng.chance(1, 4), rng.chance(3, 4)))
        return out
    # thorough: the whole box, one page
    for n in range(0, 25):
        for p in range(1, 13):
            out.append(mk(n, 1000, p, KINDS[(n + p) % 6], False, True))
    for n in range(1, 25):
        for p in (2, 3, 5, 10):
            for b in range(1, 7):
                out.append(mk(n, b, p, KINDS[(n + p + b) % 6], (n + b) % 3 == 0, (n + p) % 3 != 0))
    for _ in range(1500):
        out.append(mkjson(rng))
    for _ in range(150):
        out.append(mkcopy(rng.range(0, 60), rng.choice([1, 2, 3, 5, 7, 16, 1000]), rng.range(1, 12), rng.choice(COPY_KINDS)))
    for _ in range(600):
        n = rng.range(25, 200)
        out.append(mk(n, rng.choice([7, 10, 16, 33, 64, 1000]), rng.range(1, 40), rng.choice(KINDS),
                      rng.chance(1, 5), rng.chance(3, 4)))
    return out


def run(binp, cases):
    return vlib.run_driver(binp, cases, died_obs={"seen": [], "sink": [], "token": "", "rerun": -1, "result": False})


OUTCOME = {"ok": 0, "err": 1, "panic": 2, "noresult": 3, "died": 4, "setup-error": 5}


def canon(c, o):
    tok = int(o["token"]) if o.get("token", "").isdigit() else 0
    seen = o.get("seen") or []
    if o["outcome"] != "ok":
        # chunks of the page that failed may or may not have been started: not compared
        seen = [ch for ch in seen if ch and ch[0] < tok]
    return tok, seen


def term(c, o):
    tok, seen = canon(c, o)
    zl = lambda l: vlib.coq_list([vlib.zlit(x) for x in l])
    zll = lambda ll: vlib.coq_list([zl(l) for l in ll])
    return ("{| c_n := %d; c_batch := %d; c_par := %d; c_kind := %s; c_full := %s; c_wrap := %s; "
            "o_outcome := %d%%N; o_seen := %s; o_sink := %s; o_token := %d; o_rerun := %s; o_copy := %s; c_nested := %s; c_ffail := %s |}" % (
                c["n"], c["batch"], c["par"], KIND_COQ[c["kind"]], vlib.coq_bool(c["full"]), vlib.coq_bool(c["wrap"]),
                OUTCOME.get(o["outcome"], 9), zll(seen), zll(o.get("sink") or []), tok, vlib.zlit(o.get("rerun", -1)),
                ("Some (%s, %s, %s, %s, %s)" % (vlib.coq_bool(bool(o.get("dst_eq"))), vlib.zlit(o.get("dst_changes", -1)),
                                                vlib.zlit(o.get("ref_changes", -1)), vlib.zlit(o.get("re_changes", -1)),
                                                vlib.zlit(o.get("full_changes", -1)))) if c.get("copy") else "None",
                # the driver's payload gives entity i a nested entity iff i % 6 is 3 or 5 (harness/C10/zz_verif_c10copy.go)
                str(sum(1 for i in range(c["n"]) if i % 6 in (3, 5)) if c.get("copy") and c["kind"] == "httpctx" else 0),
                vlib.coq_bool(bool(c.get("copy")) and c["kind"] == "httpflaky"))
            ).replace(" |}", "; o_json := %s |}" % (
                ("Some (%s, %s, %s, %s)" % (gval_term(c["json"][0]), gval_term(c["json"][1]),
                                            jval_term((o.get("json_out") or [{}, {}])[0]), jval_term((o.get("json_out") or [{}, {}])[1])))
                if c.get("json") else "None"))


def predict_text(c, o):
    t = term(c, o)
    ok, out, _ = vlib.coq_eval("C10p", CHECK_MODULE.split(),
                               "Definition c : tcase := %s.\nEval vm_compute in (predict PRound c, predict PCeilClip c).\n" % t)
    return out.strip()


def eff_par(n, p):
    return 1 if n < p else p


def attribute(c, o):
    """signature of the recorded findings on the pinned arithmetic"""
    if c.get("copy") and c["kind"] == "httpctx" and o.get("outcome") == "ok" and o.get("dst_eq") \
            and o.get("re_changes") == o.get("full_changes") == sum(1 for i in range(c["n"]) if i % 6 in (3, 5)) > 0:
        return "F10c"
    if c["full"] or c.get("copy") or c.get("json"):
        return None
    # a page of length L is bad for math.Round arithmetic iff ...
    def page_bad(L):
        par = eff_par(L, c["par"])
        s = (2 * L + par) // (2 * par)
        if (par - 1) * s > L:
            return "F10b"
        if par * s < L:
            return "F10a"
        return None
    n, b = c["n"], c["batch"]
    pos = 0
    while pos < n:
        L = min(b, n - pos)
        r = page_bad(L)
        if r == "F10b":
            return "F10b" if o["outcome"] == "panic" else None
        if r == "F10a":
            return "F10a" if o["outcome"] == "ok" else None
        pos += L
    return None


def size(c):
    return c["n"] * 100 + c["par"]


def classify(c, o):
    return "partitioned" if (not c["full"] and c["par"] >= 2 and min(c["n"], c["batch"]) >= c["par"]) else None


def tags(c, o):
    if c.get("json"):
        return ["mode=value-normalisation", "value=" + c["json"][0]["k"], "js-image-differs=%s" % (c["json"][0] != c["json"][1])]
    return ["kind=" + c["kind"], "mode=" + ("copy" if c.get("copy") else "ids"), "pipeline=" + ("fullsync" if c["full"] else "incremental"),
            "wrap=%s" % c["wrap"], "outcome=" + o["outcome"],
            "n<p" if c["n"] < c["par"] else "n>=p", "pages=%s" % ("1" if c["batch"] >= c["n"] else ">1")]
