"""C02 - change feed is the complete ordered version history; tokens resume exactly."""
import json

import storecases as sc
import vlib

ID = "C02"
PROP_FILE = "Properties/C02.v"
CHECK_MODULE = "Model.Store Check.StoreCheck"
CASE_TYPE = "tcase"
EVAL_FN = "evaluate_c02"
DRIVER_PKG = "cmd/verif_c02"
SHARD = 60

FLAGS = [(lk, ob, dm) for dm in ("stored_and_local", "local_else_stored") for (lk, ob) in ((True, True), (False, True), (True, False), (False, False))]
VARIANTS = [{"name": "lenkeys=%s,objneq=%s,dup=%s" % f,
             "findings": (["F01a"] if f[0] else []) + (["F02b"] if f[1] else []) + (["F02a"] if f[2] == "stored_and_local" else [])}
            for f in FLAGS]
VARIANTS[0]["name"] = "current(" + VARIANTS[0]["name"] + ")"
VARIANTS[-1]["name"] = "fixed(" + VARIANTS[-1]["name"] + ")"

RULE = ("a case is a history over 1-2 datasets and a 3-5 id pool: batches and multi-dataset transactions (contents from a catalogue "
        "with scalars, arrays, nested entities, single/array refs, deleted flag, engineered equal-length pairs, identical re-posts, "
        "repeated ids inside a batch) interleaved with token-carrying changes readers (limits 1,2,3,0; latest-only on/off) and final "
        "full / latest-only / beyond-the-end reads; non-trivial = at least one write is skipped or repeated-in-batch or engineered; "
        "distinct = distinct history JSON")
TRUSTED = [
    "property values are abstracted to (code of canonical JSON, contains-nested-entity); serialized lengths (c_len) are taken from the "
    "Go driver (json.Marshal of the parsed entity with internalId/recorded zeroed) rather than modelled",
    "badger transactions/iterators are modelled as atomic updates of sorted lists (Model/Store.v); change sequence numbers are contiguous "
    "from 0 (no crash in these histories)",
    "histories with a refused batch (nil reference): the batch is a no-op in the model; Badger's sequence has consumed positions for it, "
    "so every token of such a history is renumbered by the harness to its rank among the sequence numbers really present (driver op seqs)",
]
ASSUMPTIONS = ["sequential histories (one client) plus forced two-writer schedules (race op); no dataset deletion, compaction or crash inside a history (C04, C07, C12 cover those)"]

CODES = sc.Codes()


def witness_cases():
    A = {"props": {"p1": "a"}, "refs": {}}
    B = {"props": {"p1": "b"}, "refs": {}}
    old, new = sc.ENGINEERED[0]
    nested = {"props": {"p2": sc.NESTED1}, "refs": {}}
    fin = [{"op": "changes", "ds": "a", "since": 0, "limit": 0}, {"op": "changes", "ds": "a", "since": 0, "limit": 0, "latest": True}]
    C = {"props": {"p1": "bb"}, "refs": {}}
    race_fin = [{"op": "changes", "ds": "a", "reader": "rx", "limit": 0}] + fin
    races = [
        {"datasets": ["a"], "ops": [{"op": "batch", "ds": "a", "ents": [sc.with_id("e1", A)]},
                                    {"op": "changes", "ds": "a", "reader": "rx", "limit": 0},
                                    {"op": "race", "ds": "a", "ents": [sc.with_id("e2", A), sc.with_id("e3", B)], "second": [sc.with_id("e4", C)],
                                     "pause_at": "batch.beforeIdCommit", "reader": "rx", "limit": 0}] + race_fin},
        {"datasets": ["a"], "ops": [{"op": "batch", "ds": "a", "ents": [sc.with_id("e1", A)]},
                                    {"op": "race", "ds": "a", "ents": [sc.with_id("e1", B)], "second": [sc.with_id("e1", C)],
                                     "pause_at": "lock.wait", "reader": "rx", "limit": 0}] + race_fin},
    ]
    D = {"deleted": True, "props": {"p1": "a"}, "refs": {}}
    races.append({"datasets": ["a"], "ops": [{"op": "batch", "ds": "a", "ents": [sc.with_id("e1", A), sc.with_id("e2", D)]},
                                             {"op": "race", "ds": "a", "ents": [sc.with_id("e1", A), sc.with_id("e2", D)],
                                              "second": [sc.with_id("e1", B), sc.with_id("e2", A)],
                                              "pause_at": "lock.wait", "reader": "rx", "limit": 0}] + race_fin})
    # a refused batch (nil reference in its last entity) leaves no trace: the retry is stored in full
    retry = [sc.with_id("e1", B), sc.with_id("e2", A), sc.with_id("e3", D)]
    races.append({"datasets": ["a"], "ops": [{"op": "batch", "ds": "a", "ents": [sc.with_id("e1", A), sc.with_id("e3", A)]},
                                             {"op": "batch", "ds": "a", "ents": retry, "reject": True}] + race_fin
                  + [{"op": "batch", "ds": "a", "ents": retry}] + race_fin + [{"op": "seqs", "ds": "a"}]})
    # a batch into b is refused while the writer of a stands between asserting its new ids and committing them; after a restart
    # the identical re-post adds nothing
    R1 = {"props": {"p1": "a"}, "refs": {"r1": "e2"}}
    fresh = [sc.with_id("e7", A), sc.with_id("e8", R1), sc.with_id("e9", B)]
    races.append({"datasets": ["a", "b"], "ops": [{"op": "batch", "ds": "a", "ents": fresh, "refuse_during": "b"}] + race_fin
                  + [{"op": "restart"}, {"op": "batch", "ds": "a", "ents": fresh}] + race_fin
                  + [{"op": "batch", "ds": "a", "ents": fresh}] + fin})
    # two writers store the same brand-new ids into different datasets at the same moment (4 rounds); the identical re-post adds nothing
    par_ops = []
    for rnd in range(4):
        ents = [sc.with_id("e%d" % (2000 + rnd * 150 + i), {"props": {"p1": i % 4}, "refs": {}}) for i in range(150)]
        par_ops.append({"op": "par", "sets": [{"ds": "a", "ents": ents}, {"ds": "b", "ents": ents}]})
        par_ops += [{"op": "batch", "ds": "a", "ents": ents}, {"op": "batch", "ds": "b", "ents": ents}]
    races.append({"datasets": ["a", "b"], "ops": par_ops + [{"op": "changes", "ds": "a", "since": 590, "limit": 0},
                                                            {"op": "changes", "ds": "b", "since": 590, "limit": 0}]})
    many = [sc.with_id("e%d" % i, {"props": {"p1": i % 3}, "refs": {}}) for i in list(range(1, 24)) + [5, 5, 12]]
    http = {"datasets": ["a"], "ops": [
        # the same feed through the real HTTP handlers: POST cut into batches of 10, GET changes forward / latest-only / reverse
        {"op": "hbatch", "ds": "a", "ents": many},
        {"op": "hchanges", "ds": "a", "reader": "h1", "limit": 4, "ld": True}, {"op": "hchanges", "ds": "a", "reader": "h1", "limit": 0, "ld": True},
        {"op": "hbatch", "ds": "a", "ents": many[3:14]},
        {"op": "hchanges", "ds": "a", "reader": "h1", "limit": 3}, {"op": "hchanges", "ds": "a", "reader": "h2", "limit": 7, "latest": True},
        {"op": "hchanges", "ds": "a", "reader": "hr", "reverse": True, "limit": 6, "ld": True}, {"op": "hchanges", "ds": "a", "reader": "hr", "reverse": True, "limit": 50},
        {"op": "hchanges", "ds": "a", "since": 40, "limit": 2},
        # positions beyond the end up to the largest a token can carry
        {"op": "hchanges", "ds": "a", "since_str": "9223372036854775807", "limit": 2},
        {"op": "hchanges", "ds": "a", "since_str": "9223372036854775808", "limit": 0},
        {"op": "hchanges", "ds": "a", "since_str": "18446744073709551615", "limit": 3, "latest": True}] + fin}
    # the same feed read through a PROXY dataset whose remote hub is this hub (real loopback HTTP, ProxyDataset.StreamChanges*):
    # plain and JSON-LD, forward / latest-only / reverse, paged with the tokens the proxy hands out
    proxy = {"datasets": ["a"], "proxies": {"p": "a"}, "ops": [
        {"op": "mkproxy", "ds": "p", "id": "a"}, {"op": "hbatch", "ds": "a", "ents": many},
        {"op": "hchanges", "ds": "p", "reader": "p1", "limit": 4, "ld": True}, {"op": "hchanges", "ds": "p", "reader": "p1", "limit": 0, "ld": True},
        {"op": "hbatch", "ds": "a", "ents": many[3:14]},
        {"op": "hchanges", "ds": "p", "reader": "p1", "limit": 3, "ld": True}, {"op": "hchanges", "ds": "p", "reader": "p1", "limit": 0},
        {"op": "hchanges", "ds": "p", "reader": "p2", "limit": 7, "latest": True, "ld": True},
        {"op": "hchanges", "ds": "p", "reader": "p2", "limit": 7, "latest": True},
        {"op": "hchanges", "ds": "p", "reader": "pr", "reverse": True, "limit": 6}, {"op": "hchanges", "ds": "p", "reader": "pr", "reverse": True, "limit": 50},
        {"op": "hchanges", "ds": "p", "since": 40, "limit": 2}] + fin}
    # a POST whose last entity has no id: the batches of 10 before it are stored, the partial last batch is refused as a whole
    # and the request does not answer 200; then the valid part is posted again
    hrefused = {"datasets": ["a"], "ops": [{"op": "hbatch", "ds": "a", "ents": many[:14], "reject": True}] + fin + [{"op": "seqs", "ds": "a"}]
                + [{"op": "hbatch", "ds": "a", "ents": many[10:14]}] + fin + [{"op": "seqs", "ds": "a"}]}
    # three uploads through the HTTP handler, the second one binding the default prefix of its @context to ANOTHER namespace:
    # its ids, property keys, reference keys and reference values all denote http://w/...; the third is back to the usual one
    R9 = {"props": {"p1": "a", "p2": 7}, "refs": {"r1": "e2", "r2": ["e3", "e4"]}}
    twoctx = {"datasets": ["a"], "ops": [
        {"op": "hbatch", "ds": "a", "ents": [sc.with_id("e1", R9), sc.with_id("e2", A)]},
        {"op": "hbatch", "ds": "a", "ents": [sc.with_id("e1", R9), sc.with_id("e2", B)], "ctx": "http://w/"},
        {"op": "hbatch", "ds": "a", "ents": [sc.with_id("e1", R9), sc.with_id("e2", B)]}] + fin}
    # a dataset that was read (forward, reverse, latest-only, through HTTP and the Go API), deleted and created again under the
    # same name: every reader of the new incarnation sees the new incarnation's history only (`pre` operations ran on the old one)
    pre = lambda o: dict(o, pre=True)
    allreads = [{"op": "hchanges", "ds": "a", "reverse": True, "limit": 0}, {"op": "hchanges", "ds": "a", "since": 0, "limit": 0},
                {"op": "hchanges", "ds": "a", "since": 0, "limit": 0, "latest": True}, {"op": "changes_rev", "ds": "a", "since": 0, "limit": 0},
                {"op": "jschanges", "ds": "a", "since": 0, "limit": 0}, {"op": "hentities", "ds": "a", "limits": [0]}]
    recreated = {"datasets": ["a", "b"], "ops": [pre({"op": "hbatch", "ds": "a", "ents": [sc.with_id("e1", A), sc.with_id("e2", B)]}),
                                            pre({"op": "hbatch", "ds": "a", "ents": [sc.with_id("e1", B)]})]
                 + [pre(o) for o in allreads] + [{"op": "recreate", "ds": "a"}] + allreads
                 + [{"op": "hbatch", "ds": "a", "ents": [sc.with_id("e3", C), sc.with_id("e1", A)]},
                    {"op": "hbatch", "ds": "b", "ents": [sc.with_id("e1", B)]},
                    {"op": "hbatch", "ds": "a", "ents": [sc.with_id("e3", B)]}] + allreads + fin}
    return races + [http, proxy, hrefused, twoctx, recreated] + [
        # F02a: identical element repeated inside one batch (new id)
        {"datasets": ["a"], "ops": [{"op": "batch", "ds": "a", "ents": [sc.with_id("e1", A), sc.with_id("e1", A)]}] + fin},
        # F02a: existing id
        {"datasets": ["a"], "ops": [{"op": "batch", "ds": "a", "ents": [sc.with_id("e1", A)]},
                                    {"op": "batch", "ds": "a", "ents": [sc.with_id("e1", B), sc.with_id("e1", B)]}] + fin},
        # F02b: nested entity re-posted three times
        {"datasets": ["a"], "ops": [{"op": "batch", "ds": "a", "ents": [sc.with_id("e1", nested)]}] * 3 + fin},
        # two tombstones differing in one reference target only: two versions
        {"datasets": ["a"], "ops": [{"op": "batch", "ds": "a", "ents": [sc.with_id("e1", sc.TOMBPAIR[0])]},
                                    {"op": "batch", "ds": "a", "ents": [sc.with_id("e1", sc.TOMBPAIR[1]), sc.with_id("e1", sc.TOMBPAIR[0])]}] + fin},
        # F01a: un-delete with a 15-byte property
        {"datasets": ["a"], "ops": [{"op": "batch", "ds": "a", "ents": [sc.with_id("e1", old)]},
                                    {"op": "batch", "ds": "a", "ents": [sc.with_id("e1", new)]}] + fin},
    ]


def corpus_cases():
    return []


def gen_case(rng, nw, rich=True):
    nds = rng.choice([1, 1, 2])
    pool = sc.IDS[:rng.choice([2, 3, 5])]
    writes = sc.gen_writes(rng, nds, nw, pool, rich, reject=True)
    ops = []
    readers = [("r1", rng.choice([1, 2, 3]), False), ("r2", rng.choice([1, 2, 0]), rng.chance(1, 2))]
    memo = {}
    for w in writes:
        if w["op"] == "txn" and rng.chance(1, 2):
            # the same transaction through POST /transactions or built in JavaScript (NewTransaction / ExecuteTransaction)
            js = rng.chance(1, 2)
            w = {"op": "jstxn" if js else "htxn", "sets": [{"ds": s_["ds"], "ents": (sc.js_safe if js else sc.no_null)(s_["ents"])} for s_ in w["sets"]]}
        if w["op"] == "batch" and rng.chance(1, 5):
            w = {"op": "hbatch", "ds": w["ds"], "ents": sc.no_null(w["ents"] + sc.gen_batch(rng, pool, memo, w["ds"], rich) * rng.choice([1, 4]))}
        ops.append(w)
        if rng.chance(1, 5):
            d = sc.DS_NAMES[rng.below(nds)]
            ops.append({"op": "hchanges", "ds": d, "reader": "hx", "limit": rng.choice([1, 2, 0]), "latest": rng.chance(1, 3), "ld": rng.chance(1, 2)})
            ops.append({"op": "hchanges", "ds": d, "reader": "hy", "reverse": True, "limit": rng.choice([1, 2, 0]), "ld": rng.chance(1, 2)})
        if rng.chance(1, 5):
            # the JS binding GetDatasetChanges (latest-only), carrying its token
            ops.append({"op": "jschanges", "ds": sc.DS_NAMES[rng.below(nds)], "reader": "jr", "limit": rng.choice([1, 2, 0])})
        if rng.chance(1, 6):
            ops.append(sc.gen_race(rng, pool, memo, sc.DS_NAMES[rng.below(nds)], "rx", rich))
        for name, lim, latest in readers:
            if rng.chance(1, 2):
                d = sc.DS_NAMES[rng.below(nds)]
                ops.append({"op": "changes", "ds": d, "reader": name, "limit": lim, "latest": latest})
    proxies = {}
    if not any(w.get("reject") for w in writes) and rng.chance(1, 4):
        # a proxy dataset pointing at one of the datasets of this hub: every read of it answers like the read of its target
        tgt = sc.DS_NAMES[rng.below(nds)]
        proxies = {"p": tgt}
        ops.insert(0, {"op": "mkproxy", "ds": "p", "id": tgt})
        lim = rng.choice([1, 2, 3, 0])
        for _ in range(4):
            ops.append({"op": "hchanges", "ds": "p", "reader": "px", "limit": lim, "ld": rng.chance(1, 2)})
        ops.append({"op": "hchanges", "ds": "p", "reader": "py", "limit": rng.choice([2, 0]), "latest": True, "ld": rng.chance(1, 2)})
        ops.append({"op": "hchanges", "ds": "p", "reader": "pz", "reverse": True, "limit": rng.choice([1, 2, 0])})
    for d in sc.DS_NAMES[:nds]:
        for _ in range(2):
            ops.append({"op": "changes", "ds": d, "reader": "rx", "limit": 0})
        for name, lim, latest in readers:      # drain the readers
            for _ in range(3):
                ops.append({"op": "changes", "ds": d, "reader": name, "limit": lim, "latest": latest})
        ops.append({"op": "changes", "ds": d, "since": 0, "limit": 0})
        ops.append({"op": "changes", "ds": d, "since": 0, "limit": 0, "latest": True})
        ops.append({"op": "changes", "ds": d, "since": rng.range(0, 4), "limit": rng.choice([1, 2, 0]), "latest": rng.chance(1, 2)})
        ops.append({"op": "changes", "ds": d, "since": 50 + rng.below(5), "limit": 0})
        ops.append({"op": "changes", "ds": d, "since": 1 << 40, "limit": 2})
        # the reverse reader: from the end / from a position / beyond the end, and a token-carrying reverse reader drained to the start
        ops.append({"op": "changes_rev", "ds": d, "since": 0, "limit": 0})
        ops.append({"op": "changes_rev", "ds": d, "since": rng.range(1, 6), "limit": rng.choice([0, 1, 2])})
        ops.append({"op": "changes_rev", "ds": d, "since": 60, "limit": 2})
        lim = rng.choice([1, 2, 3])
        for _ in range(4):
            ops.append({"op": "changes_rev", "ds": d, "reader": "rr", "limit": lim})
        ops.append({"op": "seqs", "ds": d})     # the sequence numbers really present (see storecases.rank_maps)
    if proxies:
        # a proxy re-parses the remote answer with the stream parser, which drops the nil-valued properties only the Go API can store
        ops = sc.no_null(ops)
    return {"datasets": sc.DS_NAMES[:nds], "ops": ops, "proxies": proxies}


def gen(rng, tier):
    n = {"quick": 60, "thorough": 1500, "search": 300}[tier]
    return [gen_case(rng, rng.range(2, 7 if tier == "quick" else 10)) for _ in range(n)]


def run(binp, cases):
    return vlib.run_driver(binp, cases, died_obs={"ops": [], "ns": {}})


def term(c, o):
    return sc.case_term(CODES, c, o)


def predict_text(c, o):
    t = term(c, o)
    body = "Definition c : tcase := %s.\n" % t
    body += "Eval vm_compute in (map (fun v => first_bad v false proj_c02 store0 c 0%N) variants, spec_ok proj_c02 c).\n"
    ok, out, _ = vlib.coq_eval("C02p", [CHECK_MODULE], body)
    return "first op index the model does not predict, per variant; spec_ok: " + out.strip()


def attribute(c, o):
    return None


def size(c):
    return len(json.dumps(c))


def classify(c, o):
    seen = set()
    for op in c["ops"]:
        if op["op"] == "batch":
            ids = [e["id"] for e in op["ents"]]
            if len(ids) != len(set(ids)):
                return "in-batch-repeat"
            for e in op["ents"]:
                k = json.dumps(e, sort_keys=True) + op["ds"]
                if k in seen:
                    return "re-post"
                seen.add(k)
    return None


def tags(c, o):
    t = ["datasets=%d" % len(c["datasets"])]
    nw = sum(1 for op in c["ops"] if op["op"] in ("batch", "txn", "hbatch", "htxn", "jstxn", "race"))
    t.append("writes=%d" % nw)
    if any(op["op"] in ("txn", "htxn", "jstxn") for op in c["ops"]):
        t.append("has-txn")
    for k in ("hbatch", "htxn", "jstxn", "jschanges", "hchanges", "hquery", "jsfind", "race"):
        if any(op["op"] == k for op in c["ops"]):
            t.append("via-" + k)
    if any(op.get("reject") for op in c["ops"]):
        t.append("refused-batch")
    t.append("outcome=" + o.get("outcome", "?"))
    return t
