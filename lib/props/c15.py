"""C15 - what is POSTed is what is GET back; malformed payloads are rejected, not fatal."""
import base64
import json

import vlib

ID = "C15"
PROP_FILE = "Properties/C15.v"
CHECK_MODULE = "Check.C15Check"
CASE_TYPE = "tcase"
DRIVER_PKG = "cmd/verif_c15"
SHARD = 60

_PV = [("current(unchecked assertions, one-token unknown keys, lenient structure)", ["F15a", "F15b", "F15c", "F15d"]),
       ("types-checked", ["F15b", "F15c", "F15d"]),
       ("types-checked+unknown-skipped", ["F15c", "F15d"]),
       ("fixed(strict)", [])]
# x (proxy page reader: continuation token assertion unchecked / checked); order = Check.C15Check.evaluate
VARIANTS = []
for _n, _f in _PV:
    VARIANTS.append({"name": _n + " / proxy token unchecked", "findings": _f + ["F15e"]})
    VARIANTS.append({"name": _n + " / proxy token checked", "findings": list(_f)})
RULE = ("cases = byte strings: (a) generated UDA collections (context with default '_' prefix, CURIE / absolute-URI ids, all JSON "
        "value shapes, nested entities, array refs, nulls, duplicate and unknown keys, shuffled key order), adversarial contexts "
        "(prefixes beginning with http/https, nsN names colliding with the receiving store's numbering, prefixes equal to key names), "
        "foreign-hub payloads reusing one textual key as ref key and property key, continuation elements (top level / nested) before "
        "entities carrying a token key, (b) grammar mutations of those (wrong types for id/deleted/recorded/namespaces/props/refs, "
        "unknown keys with object/array values, truncation, stray values, trailing data), (c) random byte strings over a JSON-biased "
        "alphabet; each through ParseStream or ParseTransaction directly and, for the http kind, through the echo handlers "
        "POST -> store -> GET -> ParseStream. The model runs in Coq on the token stream Go's json.Decoder produced for the same "
        "bytes; identifiers are compared fully expanded through the store's namespace table. A case is non-trivial when the parser "
        "got past the context (at least one entity element or an error/panic inside one); distinct = distinct bodies")
TRUSTED = [
    "encoding/json: bytes -> Decoder.Token stream (the model starts at the tokens the driver lists with Go's own decoder); "
    "Decoder.Decode(&context) = reading one generic JSON value from that token stream; json.Marshal/tokenize is the identity on strings",
    "float64: a number token is its shortest decimal rendering plus Go's uint64(f) (used only for \"recorded\")",
    "the store's prefix table is a bijection prefix <-> expansion (property C13): identifiers are compared as (expansion, local) pairs; "
    "the parser's localPropertyMappings cache is transparent because resolution is a function of (value, context)",
    "badger store / StoreEntities / change feed (only exercised by the http kind, with distinct ids on a fresh dataset)",
]
ASSUMPTIONS = [
    "round trip: every prefix used by the serialised entities is in the serialised context, prefixes contain no ':' and do not "
    "make a CURIE start with http:// or https://, expansions are non-empty (wf_ctx / wf_val in Proofs/ParserProofs.v)",
    "values over the grammar string | number | bool | array (no null inside arrays) | nested entity; null only as a direct property value (dropped)",
]

OUTCOME = {"ok": 0, "err": 1, "panic": 2}
STATUS = {200: 0, 400: 1, 500: 2, 599: 3}

# ------------------------------------------------------------------------------------------ Coq terms


def cstr(s):
    b = s.encode("utf-8")
    if all(32 <= x < 127 for x in b):
        return '"' + s.replace('"', '""') + '"%string'
    return "(bs [%s]%%N)" % ";".join(str(x) for x in b)


DELIM = {"[": "DArrO", "]": "DArrC", "{": "DObjO", "}": "DObjC"}


def tok_term(t):
    k = t[0]
    if k == "d":
        return "TDelim " + DELIM[t[1]]
    if k == "s":
        return "TStr " + cstr(t[1])
    if k == "n":
        return "TNum {| n_repr := %s; n_u64 := %s%%N |}" % (cstr(t[1]), t[2])
    if k == "b":
        return "TBool " + vlib.coq_bool(t[1])
    if k == "z":
        return "TNull"
    raise ValueError("unknown token %r" % (t,))


def toks_term(ts):
    return vlib.coq_list([tok_term(t) for t in ts])


def name_term(n):
    if n[0] == "q":
        return "(NQ %s %s)" % (cstr(n[1]), cstr(n[2]))
    return "(NRaw %s)" % cstr(n[1])


def val_term(v):
    k = v[0]
    if k == "s":
        return "(VStr %s)" % cstr(v[1])
    if k == "n":
        return "(VNum {| n_repr := %s; n_u64 := 0 |})" % cstr(v[1])
    if k == "b":
        return "(VBool %s)" % vlib.coq_bool(v[1])
    if k == "z":
        return "VNull"
    if k == "d":
        return "(VDelim %s)" % DELIM[v[1]]
    if k == "a":
        return "(VArr %s)" % vlib.coq_list([val_term(x) for x in v[1]])
    if k == "e":
        e = v[1]
        return "(VEnt %s %s%%N %s %s %s)" % (name_term(e["id"]), e["rec"], vlib.coq_bool(e["del"]), props_term(e["props"]), refs_term(e["refs"]))
    raise ValueError("unmodelled value %r" % (v,))


def props_term(ps):
    return vlib.coq_list(["(%s, %s)" % (name_term(k), val_term(x)) for k, x in ps])


def rval_term(r):
    if r[0] == "s":
        return "(RStr %s)" % name_term(r[1])
    if r[0] == "a":
        return "(RArr %s)" % vlib.coq_list([name_term(x) for x in r[1]])
    raise ValueError("unmodelled ref value %r" % (r,))


def refs_term(rs):
    return vlib.coq_list(["(%s, %s)" % (name_term(k), rval_term(x)) for k, x in rs])


def ent_term(e):
    return "{| e_id := %s; e_rec := %s%%N; e_del := %s; e_props := %s; e_refs := %s |}" % (
        name_term(e["id"]), e["rec"], vlib.coq_bool(e["del"]), props_term(e["props"]), refs_term(e["refs"]))


def groups_term(gs):
    return vlib.coq_list(["(%s, %s)" % (cstr(g[0]), vlib.coq_list([ent_term(e) for e in g[1]])) for g in gs])


MODE = {"stream": "MStream", "txn": "MTxn", "http": "MHttp", "proxy": "MProxy", "source": "MSource"}


def term(c, o):
    post = o.get("post") or {}
    post2 = o.get("post2") or {}
    pages = vlib.coq_list(["{| p_toks := %s; p_eof := %s; po_outcome := %d%%N; po_ents := %s |}" % (
        toks_term(pg.get("tokens") or []), vlib.coq_bool(pg.get("eof", False)), OUTCOME.get(pg["outcome"], 9),
        vlib.coq_list([ent_term(e) for e in (pg.get("groups") or [["", []]])[0][1]])) for pg in (o.get("pages") or [])])
    return ("{| c_mode := %s; c_toks := %s; c_eof := %s; c_post := %s; c_post_eof := %s; c_ordered := %s; "
            "c_has2 := %s; c_post2 := %s; c_post2_eof := %s; c_post2_txn := %s; c_pages := @PAGES@; o_outcome := %d%%N; "
            "o_groups := %s; o_ns := %s; o_status := %d%%N; o_status2 := %d%%N; o_token := %s |}" % (
                MODE[c["mode"]], toks_term(o.get("tokens") or []), vlib.coq_bool(o.get("eof", False)),
                toks_term(post.get("tokens") or []), vlib.coq_bool(post.get("eof", False)),
                vlib.coq_bool(c.get("get", "changes") != "entities"),
                vlib.coq_bool(bool(c.get("body2"))), toks_term(post2.get("tokens") or []), vlib.coq_bool(post2.get("eof", False)),
                vlib.coq_bool(bool(c.get("body2txn"))),
                OUTCOME.get(o["outcome"], 9), groups_term(o.get("groups") or []),
                vlib.coq_list(["(%s, %s)" % (cstr(k), cstr(x)) for k, x in (o.get("ns") or [])]),
                STATUS.get(o.get("status", 0), 9) if c["mode"] == "http" else 0,
                STATUS.get(o.get("status2", 0), 9) if (c["mode"] == "http" and c.get("body2")) else 0,
                cstr(o.get("token") or ""))).replace("@PAGES@", pages)


def predict_text(c, o):
    t = term(c, o)
    q = ("Definition c : tcase := %s.\n"
         "Eval vm_compute in (match c_mode c with MProxy => Some (proxy_page current false (fuel_for (c_toks c)) (c_eof c) (c_toks c), "
         "proxy_page fixed true (fuel_for (c_toks c)) (c_eof c) (c_toks c)) | _ => None end).\n"
         "Eval vm_compute in (match c_mode c with MTxn => (run_txn current (c_toks c), run_txn fixed (c_toks c)) "
         "| _ => (run_stream current (c_toks c) (c_eof c), run_spec (c_toks c) (c_eof c)) end).\n"
         "Eval vm_compute in (match c_mode c with MHttp => Some (run_stream current (c_post c) (c_post_eof c), "
         "run_spec (c_post c) (c_post_eof c)) | _ => None end).\n" % t)
    ok, out, _ = vlib.coq_eval("C15p", [CHECK_MODULE], q)
    return out.strip()[:6000]


# ------------------------------------------------------------------------------------------ JSON text building
# node = ("o", [(key, node)...]) | ("a", [node...]) | ("r", raw json text)

def jtext(n):
    if n[0] == "o":
        return "{" + ",".join(json.dumps(k) + ":" + jtext(x) for k, x in n[1]) + "}"
    if n[0] == "a":
        return "[" + ",".join(jtext(x) for x in n[1]) + "]"
    return n[1]


def R(x):
    return ("r", json.dumps(x))


EXPANSIONS = ["http://ex.org/a/", "http://ex.org/b#", "https://s.io/x/", "http://data.mimiro.io/core/", "http://ex.org/deep/er/"]
PREFIXES = ["a", "b", "s", "core", "p5"]
# the driver's stores know EXPANSIONS[i] as "ns%d" % (3 + i) (ns0..ns2 are the hub's own); a payload from another hub
# uses the same prefix NAMES with other expansions
RECEIVER = {"ns%d" % (3 + i): e for i, e in enumerate(EXPANSIONS)}
# adversarial prefix names: begin with http/https, collide with the receiver's numbering, equal to key names
ADV_PREFIXES = ["httpbin", "https-api", "http", "https", "httpx", "ns3", "ns4", "ns5", "ns1", "name", "id", "props", "token", "n"]
ADV_LOCALS = ["item1", "reports/2024", "x#y", "//h/p", "knows", "name", "n"]
WORDS = ["n", "name", "k1", "x-y", "Z_9", "p.q", "a:b", "té", "日", "w w", "q\"q", "sl/ash", "ha#sh", "1", "id", "props", "token"]
STRS = ["", "x", "hello world", "a:b", "http://ex.org/a/v", "tab\there", "nl\nline", "q\"uote", "back\\slash", "æøå", "☃",
        "<tag>&", "@continuation", "@context", "null", "123", "\u0001ctl", "\U0001F600"]
NUMS = ["0", "1", "-1", "42", "3.5", "-0.25", "1e3", "1E-2", "123456789", "9007199254740993", "1.7976931348623157e308", "0.1", "-0"]


class Gen:
    def __init__(self, rng, adv=False):
        self.rng = rng
        self.idn = 0
        self.adv = adv

    def context(self):
        r = self.rng
        ns = []
        if r.chance(4, 5):
            ns.append(("_", r.choice(EXPANSIONS)))
        k = r.range(1, 4)
        for i in range(k):
            ns.append((PREFIXES[i], EXPANSIONS[(i + r.below(2)) % len(EXPANSIONS)]))
        if self.adv:
            pool = list(ADV_PREFIXES)
            r.shuffle(pool)
            for p in pool[:r.range(1, 4)]:
                ns.append((p, r.choice(EXPANSIONS)))
        self.ns = ns
        keys = [("id", R("@context")), ("namespaces", ("o", [(p, R(e)) for p, e in ns]))]
        if r.chance(1, 6):
            keys.append(("extra", R(r.choice([1, "x", None, [1, 2], {"a": 1}]))))
        if r.chance(1, 4):
            r.shuffle(keys)
        return ("o", keys)

    def ident(self, fresh=False):
        r = self.rng
        w = r.choice(WORDS)
        if fresh:
            self.idn += 1
            w = "e%d" % self.idn
        form = r.below(10)
        if self.adv and not fresh and r.chance(1, 2):
            w = r.choice(ADV_LOCALS)
        if form < 5:
            p = r.choice([p for p, _ in self.ns if p != "_"] or ["a"])
            return p + ":" + w
        if form < 7 and any(p == "_" for p, _ in self.ns):
            return w.replace(":", "-")
        if form < 9:
            return r.choice(EXPANSIONS) + w
        return "http://other.org/path#" + w

    def value(self, depth=0):
        r = self.rng
        k = r.below(12 if depth < 3 else 7)
        if k < 3:
            return R(r.choice(STRS))
        if k < 5:
            return ("r", r.choice(NUMS))
        if k < 6:
            return R(r.chance(1, 2))
        if k < 7:
            return R(r.choice(STRS + WORDS))
        if k < 10:
            n = r.below(4)
            return ("a", [self.arr_value(depth + 1) for _ in range(n)])
        return self.entity(depth + 1, nested=True)

    def arr_value(self, depth):
        v = self.value(depth)
        return v

    def entity(self, depth=0, nested=False, fresh=False):
        r = self.rng
        keys = []
        if not nested or r.chance(4, 5):
            keys.append(("id", R(self.ident(fresh))))
        if r.chance(3, 4):
            n = r.below(4) if depth < 2 else r.below(2)
            ps = []
            for _ in range(n):
                v = self.value(depth)
                if r.chance(1, 8):
                    v = ("r", "null")
                ps.append((self.ident(), v))
            if ps and r.chance(1, 10):
                ps.append((ps[0][0], self.value(depth)))      # duplicate key
            keys.append(("props", ("o", ps)))
        if r.chance(3, 5):
            n = r.below(3)
            rs = []
            for _ in range(n):
                if r.chance(2, 3):
                    rs.append((self.ident(), R(self.ident())))
                else:
                    rs.append((self.ident(), ("a", [R(self.ident()) for _ in range(r.below(4))])))
            keys.append(("refs", ("o", rs)))
        if r.chance(1, 3):
            keys.append(("deleted", R(r.chance(1, 2))))
        if r.chance(1, 4):
            keys.append(("recorded", ("r", r.choice(["0", "12", "1700000000123456789", "3.7", "1e3"]))))
        if r.chance(1, 4):
            keys.append((r.choice(["internalId", "foo", "x:y", ""]), ("r", r.choice(["5", "\"s\"", "true", "null"]))))
        if r.chance(1, 2):
            r.shuffle(keys)
        return ("o", keys)

    def continuation(self):
        r = self.rng
        return ("o", [("id", R("@continuation")), ("token", R(r.choice(["MA==", "abc", "", "12"])))])

    def collection(self, n=None, fresh=False, cont=None):
        r = self.rng
        ctx = self.context()
        n = r.below(5) if n is None else n
        els = [ctx] + [self.entity(fresh=fresh) for _ in range(n)]
        if cont is None:
            cont = r.chance(1, 2)
        if cont:
            els.append(self.continuation())
        return ("a", els)

    def txn(self):
        r = self.rng
        ctx = self.context()
        keys = [("@context", ctx)]
        for i in range(r.below(4)):
            keys.append((r.choice(["d1", "d2", "people", "d1"]), ("a", [self.entity(fresh=True) for _ in range(r.below(4))])))
        return ("o", keys)


def foreign_collection(rng, fresh=False):
    """a payload written by another hub: its context binds the receiver's own prefix names ns3.. to OTHER expansions;
    few distinct local names, so the same textual key is used as ref key and property key, within one entity and across
    the entities of the request, and keys textually equal to the receiver's global names occur"""
    names = ["ns3", "ns4", "ns5"][:rng.range(2, 3)]
    exps = [RECEIVER[n] for n in names]
    perm = list(exps)
    while perm == exps:
        rng.shuffle(perm)
    ns = list(zip(names, perm))
    if rng.chance(1, 2):
        ns.append(("_", rng.choice(EXPANSIONS)))
    ctx = ("o", [("id", R("@context")), ("namespaces", ("o", [(p, R(e)) for p, e in ns]))])
    words = ["knows", "name"]
    key = lambda: rng.choice(names) + ":" + rng.choice(words)
    els = [ctx]
    for i in range(rng.range(2, 4)):
        keys = [("id", R(rng.choice(names) + ":f%d" % i))]
        rs = []
        for _ in range(rng.range(1, 3)):
            k = key()
            if all(k != k2 for k2, _ in rs):
                rs.append((k, R(key()) if rng.chance(2, 3) else ("a", [R(key()) for _ in range(rng.below(3))])))
        ps = []
        for _ in range(rng.range(1, 3)):
            k = key()
            if all(k != k2 for k2, _ in ps):
                ps.append((k, R(rng.choice(["v", 1, True])) if rng.chance(3, 4) else
                           ("o", [("id", R(key())), ("refs", ("o", [(key(), R(key()))])), ("props", ("o", [(key(), R("w"))]))])))
        parts = [("refs", ("o", rs)), ("props", ("o", ps))]
        if rng.chance(1, 3):
            parts.reverse()
        keys += parts
        els.append(("o", keys))
    return ("a", els)


def cont_order_collection(rng, g):
    """continuation elements (top level and nested) placed BEFORE other entities, among them entities that carry a
    top-level "token" key"""
    ctx = g.context()
    els = [ctx]
    for i in range(rng.range(2, 5)):
        k = rng.below(5)
        if k == 0:
            els.append(g.continuation())
        elif k == 1:   # continuation nested in a property value (with or without token)
            inner = [("id", R("@continuation"))] + ([("token", R("t"))] if rng.chance(1, 2) else [])
            els.append(("o", [("id", R(g.ident(True))), ("props", ("o", [(g.ident(), ("o", inner))]))]))
        elif k == 2:   # ordinary entity with a top-level "token" key, before or after its props
            parts = [("id", R(g.ident(True))), ("props", ("o", [(g.ident(), R("keep"))])), ("token", R(rng.choice(["x", 1, None])))]
            if rng.chance(1, 2):
                parts[1], parts[2] = parts[2], parts[1]
            els.append(("o", parts))
        elif k == 3:   # id switched away from @continuation, then token
            els.append(("o", [("id", R("@continuation")), ("id", R(g.ident(True))), ("token", R("y"))]))
        else:
            els.append(g.entity(fresh=True))
    return ("a", els)


FNS = ["changes-raw", "changes", "entities-raw", "entities"]
TAIL_DAMAGE = ['{"id":5}', '{"id":"zz9:undeclared"}', '{"id":"a:cut","props":{"a:p":', '{"id":"a:t","deleted":"no"}', '7', '"x"',
               '{"id":"a:t","recorded":"x"}', '{"id":"a:t","props":{"zz9:k":1}}', '{"id":"a:t","refs":{"a:r":5}}', '{"id":""}']


def proxy_page_case(rng, g, i):
    """a remote hub's answer as the proxy page reader sees it: valid pages with the continuation element in any position,
    pages damaged BEFORE and AFTER the continuation element (wrong types, undeclared prefix, cut off, never closed),
    continuation elements without / with ill-typed token"""
    ctx = '{"id":"@context","namespaces":{"_":"http://ex.org/d/","a":"http://ex.org/a/"}}'
    ents = ['{"id":"a:p%d","props":{"a:n":%d}}' % (k, k) for k in range(rng.range(0, 3))]
    cont = rng.choice(['{"id":"@continuation","token":"abc"}', '{"id":"@continuation","token":"MTI="}', '{"id":"@continuation","token":""}'])
    kind = i % 6
    close = "]"
    if kind == 0:        # valid, continuation last / first / in the middle / absent
        els = list(ents)
        if rng.chance(4, 5):
            els.insert(rng.below(len(els) + 1), cont)
        tag = "proxy-valid"
    elif kind in (1, 2):   # damage behind the continuation element
        els = ents + [cont] + [rng.choice(TAIL_DAMAGE)]
        if rng.chance(1, 3):
            els.append('{"id":"a:after"}')
        if els[-1].endswith(":") or rng.chance(1, 4):
            close = ""
        tag = "proxy-tail-damage"
    elif kind == 3:      # damage in front of it
        els = ents + [rng.choice(TAIL_DAMAGE)] + [cont]
        if els[-2].endswith(":"):
            els = els[:-1]
            close = ""
        tag = "proxy-head-damage"
    elif kind == 4:      # token missing / ill typed / several continuation elements
        bad = rng.choice(['{"id":"@continuation"}', '{"id":"@continuation","token":5}', '{"id":"@continuation","token":null}',
                          '{"id":"@continuation","token":true}', '{"id":"@continuation","props":{}}'])
        els = ents + ([cont, bad] if rng.chance(1, 2) else [bad] + ([cont] if rng.chance(1, 3) else []))
        tag = "proxy-token"
    else:                # never closed / trailing data after a complete page
        els = ents + [cont]
        close = rng.choice(["", "] x", "]]", "]{\"id\":\"a:late\"}", "],"])
        tag = "proxy-open"
    body = "[" + ",".join([ctx] + els) + close
    return mk("proxy", body, tag, fn=FNS[rng.below(4)] if i % 2 else "changes-raw")


def source_case(rng, g, i):
    """the documents ONE HTTPDatasetSource object reads one after the other; the @contexts differ: the same prefix bound to
    another expansion (used in ids, property keys, reference keys and reference values), a prefix used but not declared"""
    e1, e2 = rng.choice(EXPANSIONS), rng.choice(EXPANSIONS)
    while e2 == e1:
        e2 = rng.choice(EXPANSIONS)
    pfx = rng.choice(["p", "a", "ns3", "_x"])

    def page(exp, k, declare=True, default=None):
        ns = {}
        if declare:
            ns[pfx] = exp
        if default:
            ns["_"] = default
        ents = ['{"id":"%s:s%d_%d","props":{"%s:name":"v%d","%s:n":%d},"refs":{"%s:knows":"%s:o%d","%s:all":["%s:x","%s:y"]}}' % (
            pfx, k, j, pfx, k, pfx, j, pfx, pfx, j, pfx, pfx, pfx) for j in range(rng.range(1, 4))]
        if default and rng.chance(1, 2):
            ents.append('{"id":"plain%d","props":{"name":"d"},"refs":{"knows":"other"}}' % k)
        tail = [',{"id":"@continuation","token":"t%d"}' % k] if rng.chance(2, 3) else []
        return "[" + json.dumps({"id": "@context", "namespaces": ns}) + "," + ",".join(ents) + "".join(tail) + "]"

    kind = i % 4
    if kind == 0:
        pages = [page(e1, 1), page(e2, 2)]
        tag = "source-rebind"
    elif kind == 1:
        pages = [page(e1, 1), page(e2, 2), page(e1, 3, declare=False)]
        tag = "source-undeclared"
    elif kind == 2:
        pages = [page(e1, 1, default=e2), page(e2, 2, default=e1), page(e1, 3, declare=True)]
        if rng.chance(1, 2):
            pages.append('[{"id":"@context","namespaces":{}},{"id":"plain9"}]')
        tag = "source-default"
    else:
        pages = [jtext(g.collection(n=rng.range(1, 4))) for _ in range(rng.range(2, 3))]
        if rng.chance(1, 2):
            t = g.collection(n=rng.range(2, 5))
            mutate_tree(rng, t)
            pages.insert(rng.below(len(pages) + 1), jtext(t))
        tag = "source-mixed"
    return {"mode": "source", "body": "", "b64": False, "kind": tag, "pages": pages}


def public_case(rng, i):
    """a dataset with publicNamespaces, one of them not yet known to the hub: GET before first use, a POST that creates an
    entity, a GET, a POST that only UPDATES that entity and brings the other public namespace, GET, parse back"""
    n1 = "http://pub%d.org/people/" % rng.range(1, 99)
    n2 = "http://pub%d.org/schema/" % rng.range(100, 199) if i % 3 else rng.choice(EXPANSIONS)
    ctx = json.dumps({"id": "@context", "namespaces": {"x": n1, "y": n2}})
    b1 = "[" + ctx + ',{"id":"x:homer","props":{"x:name":"Homer"}}]'
    if i % 4 == 3:
        b2 = "[" + ctx + ',{"id":"x:homer","props":{"x:name":"Homer","y:age":%d},"refs":{"y:knows":"x:marge"}},{"id":"x:marge","props":{"y:age":1}}]' % i
    else:
        b2 = "[" + ctx + ',{"id":"x:homer","props":{"x:name":"Homer","y:age":%d},"refs":{"y:knows":"x:marge"}}]' % i
    return mk("http", b1, "public-ns", get=rng.choice(["changes", "entities"]), public=[n1, n2], getfirst=(i % 5 != 4), body2=b2,
              restart=(i % 6 == 5))


NESTED = ["[[0,0],[4,0],[0,3]]", "[[1,2],[3,[4]]]", "[[]]", '[["a"],["b"]]', "[[1],2,[3]]", '[[{"id":"a:n"}],[1]]', "[[[1]]]", "[1,2,3]"]


def repost_case(rng, i):
    """an entity whose property values are nested arrays is posted, then RE-posted: unchanged, with one digit changed (same
    serialised length), or with another length; the second version must be stored exactly as posted"""
    def ent(k, vals, extra=""):
        return '{"id":"a:poly%d","props":{"a:shape":%s,"a:tag":"%s"%s}}' % (k, vals, "t%d" % k, extra)
    ctx = '{"id":"@context","namespaces":{"a":"http://ex.org/a/"}}'
    n = rng.range(1, 3)
    vals = [rng.choice(NESTED) for _ in range(n)]
    b1 = "[" + ctx + "," + ",".join(ent(k, vals[k]) for k in range(n)) + "]"
    how = i % 3
    vals2 = list(vals)
    if how == 1:     # one digit changed, same length
        k = rng.below(n)
        v = vals2[k]
        for d, r in (("0", "7"), ("1", "8"), ("2", "9"), ("a", "z")):
            if d in v:
                vals2[k] = v.replace(d, r, 1)
                break
    elif how == 2:   # another length
        k = rng.below(n)
        vals2[k] = rng.choice([x for x in NESTED if len(x) != len(vals2[k])])
    b2 = "[" + ctx + "," + ",".join(ent(k, vals2[k]) for k in range(n)) + "]"
    return mk("http", b1, "repost-nested", get=rng.choice(["entities", "changes"]), body2=b2)


def txn_after_get_case(rng, i):
    """GET a dataset, then write into it through POST /transactions with a namespace the store has never seen, GET again"""
    n1 = "http://txn%d.org/new/" % rng.range(1, 999)
    b1 = '[{"id":"@context","namespaces":{"a":"http://ex.org/a/"}},{"id":"a:first%d","props":{"a:n":%d}}]' % (i, i)
    ns = {"a": "http://ex.org/a/", "t": n1}
    ents = '{"id":"t:second%d","props":{"t:name":"Lisa","a:n":2},"refs":{"t:knows":"a:first%d"}}' % (i, i)
    if i % 3 == 2:
        ents += ',{"id":"a:first%d","props":{"t:extra":true}}' % i
    b2 = '{"@context":' + json.dumps({"id": "@context", "namespaces": ns}) + ',"ds":[' + ents + "]}"
    return mk("http", b1, "txn-after-get", get=rng.choice(["entities", "changes"]), getfirst=(i % 4 != 3), body2=b2, body2txn=True)


A_NS = "http://ex.org/a/"   # ns3 in the driver's stores
BAD_MEMBERS = [("refs", None), ("refs", "absent"), ("props", "absent"), ("id", "absent"), ("refs", "x"), ("props", [1]), ("id", 5),
               ("refs", [1]), ("props", None)]


def asentity_case(rng, i):
    """entities built the way the JavaScript API builds them: AsEntity -> NewEntityFromMap on plain maps - complete ones and maps
    lacking refs / props / id or with wrongly typed members -, emitted directly or attached as a property of another entity,
    stored, served as JSON and parsed back; a map that is not an entity yields nothing (a null property is dropped)"""
    maps, expect = [], []
    for k in range(rng.range(1, 4)):
        m = {"id": "ns3:m%d_%d" % (i, k), "props": {"ns3:street": "Evergreen %d" % k, "ns3:no": k, "ns3:tags": ["a", [k]]},
             "refs": ({"ns3:in": "ns3:town"} if rng.chance(1, 2) else {})}
        complete = True
        if rng.chance(3, 5):
            name, val = rng.choice(BAD_MEMBERS)
            complete = False
            if val == "absent":
                del m[name]
            else:
                m[name] = val
        carrier = "ns3:c%d_%d" % (i, k) if rng.chance(1, 2) else ""
        maps.append({"m": m, "carrier": carrier})
        if carrier:
            expect.append({"id": carrier, "props": ({"ns3:address": m} if complete else {})})
        elif complete:
            expect.append(m)
    ctx = {"id": "@context", "namespaces": {"ns3": A_NS}}
    b1 = "[" + json.dumps(ctx) + ',{"id":"ns3:base%d","props":{"ns3:n":%d}}]' % (i, i)
    b2 = "[" + ",".join(json.dumps(x) for x in [ctx] + expect) + "]"
    return mk("http", b1, "asentity", get=rng.choice(["entities", "changes"]), body2=b2, asentity=maps)


def restart_case(rng, i):
    """POST a payload that introduces NEW namespaces, restart the hub, (POST a payload with ANOTHER new namespace,) GET, parse back"""
    n1 = "http://new%d.org/r/" % rng.range(1, 99)
    n2 = "http://new%d.org/q#" % rng.range(100, 199)
    n3 = "http://later%d.org/z/" % rng.range(1, 99)
    b1 = ('[{"id":"@context","namespaces":{"x":"%s","y":"%s","a":"http://ex.org/a/"}},'
          '{"id":"a:r%d","props":{"x:name":"Homer","y:age":%d},"refs":{"y:knows":"x:other"}},{"id":"y:second","props":{"a:n":1}}]' % (n1, n2, i, i))
    c = mk("http", b1, "restart", get=rng.choice(["changes", "entities"]), restart=True)
    if i % 2:
        c["body2"] = ('[{"id":"@context","namespaces":{"z":"%s","a":"http://ex.org/a/"}},{"id":"z:third%d","props":{"z:name":"Bart"},"refs":{"a:r":"z:t"}}]' % (n3, i))
        c["kind"] = "restart-post"
    return c


BAD_VALUES = ["5", "\"s\"", "true", "false", "null", "[]", "{}", "[1,2]", "{\"a\":1}", "[\"id\",\"a:zz\"]", "{\"id\":\"a:inner\"}",
              "[{\"id\":\"a:inner\"}]", "{\"props\":{\"a:p\":1}}", "-1", "1.5", "\"false\"", "\"\"", "[[\"a\"]]", "{\"deleted\":true}"]


def mutate_tree(rng, root):
    """replace the value of one key somewhere (or one array element) by a wrongly shaped value / add an unknown key"""
    def collect():
        spots = []

        def walk(n):
            if n[0] == "o":
                for i, (k, x) in enumerate(n[1]):
                    spots.append((n, i))
                    walk(x)
            elif n[0] == "a":
                for i, x in enumerate(n[1]):
                    spots.append((n, i))
                    walk(x)
        walk(root)
        return spots
    for _ in range(rng.range(1, 2)):
        spots = collect()
        if not spots:
            return "nospot"
        n, i = rng.choice(spots)
        bad = ("r", rng.choice(BAD_VALUES))
        how = rng.below(6)
        if n[0] == "o":
            k = n[1][i][0]
            if how < 3:
                n[1][i] = (k, bad)
            elif how == 3:
                n[1].insert(i, (rng.choice(["foo", "unknown", "x", "internalId"]), bad))
            elif how == 4:
                n[1][i] = (rng.choice(["id", "props", "refs", "deleted", "recorded", "token", "namespaces", "zz"]), n[1][i][1])
            else:
                del n[1][i]
        else:
            if how < 3:
                n[1][i] = bad
            elif how < 5:
                n[1].insert(i, bad)
            else:
                del n[1][i]
    return "tree"


def mutate_text(rng, s):
    how = rng.below(7)
    if not s:
        return s
    i = rng.below(len(s))
    if how == 0:
        return s[:i]
    if how == 1:
        return s[:i] + s[i + 1:]
    if how == 2:
        return s[:i] + rng.choice(list("[]{},:\"0nxt ")) + s[i:]
    if how == 3:
        return s + rng.choice(["]", "}", " x", "{\"id\":\"a:t\"}", "[]", "null", ",", " 1"])
    if how == 4:
        return s[:i] + rng.choice(list("[]{},:\"")) + s[i + 1:]
    if how == 5:
        j = rng.below(len(s))
        a, b = min(i, j), max(i, j)
        return s[:a] + s[b:]
    return s[:i] + s[i:] [::-1] if rng.chance(1, 10) else s[:i] + " " + s[i:]


ALPHA = list("[]{}\",:0123456789 .-eE\\\n") + ["true", "false", "null", "\"id\"", "\"props\"", "\"refs\"", "\"deleted\"", "\"recorded\"",
                                                "\"@context\"", "\"namespaces\"", "\"token\"", "\"@continuation\"", "\"a:x\"", "\"_\"",
                                                "\"http://e/x\"", "a", "\xff", "\x00", "é"]


def random_bytes(rng):
    n = rng.range(0, 40)
    parts = []
    for _ in range(n):
        parts.append(rng.choice(ALPHA))
    s = "".join(parts)
    if rng.chance(1, 2):
        s = "[" + s
    if rng.chance(1, 3):
        s = '[{"id":"@context","namespaces":{"_":"http://e/","a":"http://e/a/"}},' + s
    return s.encode("latin-1", "replace") if rng.chance(1, 3) else s.encode("utf-8")


def mk(mode, body, kind, **kw):
    if isinstance(body, bytes):
        try:
            body.decode("utf-8")
            c = {"mode": mode, "body": body.decode("utf-8"), "b64": False, "kind": kind}
            if "\x00" in c["body"]:
                raise UnicodeDecodeError("x", b"", 0, 1, "nul")
        except UnicodeDecodeError:
            c = {"mode": mode, "body": base64.b64encode(body).decode(), "b64": True, "kind": kind}
    else:
        c = {"mode": mode, "body": body, "b64": False, "kind": kind}
    c.update(kw)
    return c


CTX = '{"id":"@context","namespaces":{"_":"http://ex.org/d/","a":"http://ex.org/a/"}}'


def witness_cases():
    S = lambda els, kind: mk("stream", "[" + CTX + "," + els + "]", kind)
    return [
        # F15a: the five type-assertion panics of ParseStream and the two of ParseTransaction
        S('{"id":"a:1","deleted":"false"}', "w-F15a-deleted"),
        S('{"id":5}', "w-F15a-id"),
        S('{"id":"a:1","recorded":"x"}', "w-F15a-recorded"),
        mk("stream", '[{"id":"@context"},{"id":"a:1"}]', "w-F15a-nons"),
        mk("stream", '[{"id":"@context","namespaces":{"a":1}},{"id":"a:1"}]', "w-F15a-nsval"),
        mk("stream", '[{"id":"@context","namespaces":[]},{"id":"a:1"}]', "w-F15a-nstype"),
        mk("txn", '{"@context":' + CTX + ',"d1":[{"id":"a:1"}]', "w-F15a-txn-eof"),
        mk("txn", '{"@context":null}', "w-F15a-txn-nullctx"),
        mk("txn", '{"@context":' + CTX + ',"d1":[{"id":"a:1","deleted":1}]}', "w-F15a-txn-deleted"),
        # F15b: unknown key with an object / array value re-enters the entity
        S('{"id":"a:1","foo":{"id":"a:2"},"props":{"x":1}}', "w-F15b-object"),
        S('{"id":"a:1","foo":["id","a:3"]}', "w-F15b-array"),
        S('{"id":"a:1","foo":{"deleted":true}}', "w-F15b-deleted"),
        # F15c: structure not checked
        S('{"id":"a:1","props":5,"refs":{"a:r":"a:2"}}', "w-F15c-props"),
        S('{"id":"a:1","refs":"x","deleted":true}', "w-F15c-refs"),
        S('{"id":"a:1","props":5},{"id":"a:2"}', "w-F15c-props-merge"),
        mk("stream", "[" + CTX + ',{"id":"a:1"}]{"id":"a:9"}', "w-F15c-trailing"),
        mk("stream", "[" + CTX + ',[{"id":"a:1"}]]', "w-F15c-nested-array"),
        mk("txn", '{"@context":' + CTX + ',"d1":{"a":[{"id":"a:1"}]}}', "w-F15c-txn-object"),
        mk("txn", '{"@context":' + CTX + ',"d1":[1,"x",{"id":"a:1"}]}', "w-F15c-txn-scalars"),
        # through the handlers
        mk("http", "[" + CTX + ',{"id":"a:1","deleted":"false"}]', "w-F15a-http", get="changes"),
        mk("http", "[" + CTX + "," + ",".join('{"id":"a:g%d"}' % i for i in range(9))
           + ',{"id":"a:bad","foo":{"id":"a:inner"},"props":{}}]', "w-F15b-http-stored", get="changes"),
        mk("http", "[" + CTX + ',{"id":"a:1"},{"id":"@continuation","token":"x"}]', "w-F15d-http", get="changes"),
        mk("http", "[" + CTX + ',{"id":"a:1"},{"id":"@continuation","token":"x"}]', "w-F15d-http-entities", get="entities"),
        mk("http", "[" + CTX + ',{"id":"a:1","props":{"a:n":"x","k":[1,true,{"id":"z"}],"nul":null},"refs":{"a:r":"a:2"}},'
           '{"id":"a:2","deleted":true}]', "w-ok-http", get="changes"),
        # what a payload denotes under ITS context: prefixes that merely begin with http, a foreign hub's nsN numbering
        # (receiver: ns3 = http://ex.org/a/, ns4 = http://ex.org/b#), the same text as ref key and as property key
        mk("stream", '[{"id":"@context","namespaces":{"httpbin":"http://ex.org/a/","https-api":"http://ex.org/b#","http":"https://s.io/x/"}},'
           '{"id":"httpbin:item1","props":{"https-api:reports/2024":1,"http:p":2},"refs":{"httpbin:r":"https-api:x/y","http:q":["httpbin:z"]}}]', "w-denote-http-prefix"),
        mk("stream", '[{"id":"@context","namespaces":{"ns3":"http://ex.org/b#","ns4":"http://ex.org/a/"}},'
           '{"id":"ns3:e1","refs":{"ns4:knows":"ns3:e2"}},{"id":"ns3:e2","props":{"ns3:knows":"x","ns3:name":"y"},"refs":{"ns3:knows":"ns4:e1"}}]', "w-denote-foreign-hub"),
        mk("http", '[{"id":"@context","namespaces":{"ns3":"http://ex.org/b#","ns4":"http://ex.org/a/"}},'
           '{"id":"ns3:e1","refs":{"ns4:knows":"ns3:e2"}},{"id":"ns3:e2","props":{"ns3:knows":"x","ns3:name":"y"}}]', "w-denote-foreign-hub-http", get="changes"),
        # a continuation element (top level / nested) BEFORE an ordinary entity that carries a "token" key
        S('{"id":"@continuation","token":"t"},{"id":"a:1","props":{"a:p":1},"token":"x"}', "w-cont-then-token"),
        S('{"id":"a:0","props":{"a:p":{"id":"@continuation","token":"t"}}},{"id":"a:1","props":{"a:p":1},"token":"x"}', "w-nested-cont-then-token"),
        S('{"id":"a:1","props":{"a:p":1},"token":"x"},{"id":"@continuation","token":"t"}', "w-token-then-cont"),
        # proxy page reader: damage behind the continuation element, ill-typed / missing token (F15e)
        mk("proxy", "[" + CTX + ',{"id":"a:1"},{"id":"@continuation","token":"t"},{"id":5}]', "w-proxy-tail-badid", fn="changes-raw"),
        mk("proxy", "[" + CTX + ',{"id":"a:1"},{"id":"@continuation","token":"t"},{"id":"zz:undeclared"}]', "w-proxy-tail-prefix", fn="changes-raw"),
        mk("proxy", "[" + CTX + ',{"id":"a:1"},{"id":"@continuation","token":"t"}', "w-proxy-open", fn="changes-raw"),
        mk("proxy", "[" + CTX + ',{"id":"a:1"},{"id":"@continuation","token":"t"},{"id":"a:cut","props":{', "w-proxy-cut", fn="entities-raw"),
        mk("proxy", "[" + CTX + ',{"id":"a:1"},{"id":"@continuation","token":5}]', "w-F15e-proxy-token-number", fn="changes-raw"),
        mk("proxy", "[" + CTX + ',{"id":"a:1"},{"id":"@continuation"}]', "w-F15e-proxy-token-missing", fn="entities"),
        mk("proxy", "[" + CTX + ',{"id":"a:1"},{"id":"a:2"},{"id":"@continuation","token":"abc"}]', "w-proxy-ok", fn="changes"),
        # round trip across a restart of the hub, with and without a later POST that brings another new namespace
        mk("http", '[{"id":"@context","namespaces":{"x":"http://example.org/b/"}},{"id":"x:homer","props":{"x:name":"Homer"}}]',
           "w-restart", get="changes", restart=True),
        mk("http", '[{"id":"@context","namespaces":{"x":"http://example.org/b/"}},{"id":"x:homer","props":{"x:name":"Homer"}}]',
           "w-restart-post", get="changes", restart=True,
           body2='[{"id":"@context","namespaces":{"z":"http://example.org/c/"}},{"id":"z:bart","props":{"z:name":"Bart"}}]'),
        # one source object, pages whose contexts differ; a dataset with publicNamespaces updated under a new namespace
        {"mode": "source", "body": "", "b64": False, "kind": "w-source-pages", "pages": [
            '[{"id":"@context","namespaces":{"p":"http://one.example/schema/"}},{"id":"p:e1","props":{"p:name":"one"},"refs":{"p:knows":"p:e0"}}]',
            '[{"id":"@context","namespaces":{"p":"http://two.example/schema/"}},{"id":"p:e2","props":{"p:name":"two"},"refs":{"p:knows":"p:e0"}}]',
            '[{"id":"@context","namespaces":{}},{"id":"p:e3","props":{"p:name":"three"}}]']},
        mk("http", '[{"id":"@context","namespaces":{"x":"http://data.example.org/people/"}},{"id":"x:homer","props":{"x:name":"Homer"}}]',
           "w-public-ns", get="entities", public=["http://data.example.org/people/", "http://data.example.org/schema/"], getfirst=True,
           body2='[{"id":"@context","namespaces":{"x":"http://data.example.org/people/","y":"http://data.example.org/schema/"}},'
                 '{"id":"x:homer","props":{"x:name":"Homer","y:age":39}}]'),
        # re-post of an entity with nested-array properties; a transaction with a new namespace between two GETs
        mk("http", '[{"id":"@context","namespaces":{"a":"http://ex.org/a/"}},{"id":"a:tri","props":{"a:shape":[[0,0],[4,0],[0,3]]}}]',
           "w-repost-nested-same", get="entities",
           body2='[{"id":"@context","namespaces":{"a":"http://ex.org/a/"}},{"id":"a:tri","props":{"a:shape":[[0,0],[4,0],[0,3]]}}]'),
        mk("http", '[{"id":"@context","namespaces":{"a":"http://ex.org/a/"}},{"id":"a:tri","props":{"a:shape":[[0,0],[4,0],[0,3]]}}]',
           "w-repost-nested-digit", get="entities",
           body2='[{"id":"@context","namespaces":{"a":"http://ex.org/a/"}},{"id":"a:tri","props":{"a:shape":[[0,0],[4,0],[0,5]]}}]'),
        mk("http", '[{"id":"@context","namespaces":{"a":"http://ex.org/a/"}},{"id":"a:homer","props":{"a:name":"Homer"}}]',
           "w-txn-after-get", get="entities", getfirst=True, body2txn=True,
           body2='{"@context":{"id":"@context","namespaces":{"a":"http://ex.org/a/","t":"http://example.org/never-seen/"}},'
                 '"ds":[{"id":"t:lisa","props":{"t:name":"Lisa"}}]}'),
        # entities built through the JavaScript API (AsEntity / NewEntityFromMap): a map without refs is not an entity
        mk("http", '[{"id":"@context","namespaces":{"ns3":"http://ex.org/a/"}},{"id":"ns3:base","props":{"ns3:n":1}}]', "w-asentity",
           get="entities",
           body2='[{"id":"@context","namespaces":{"ns3":"http://ex.org/a/"}},{"id":"ns3:homer","props":{}},'
                 '{"id":"ns3:ok","props":{"ns3:street":"x"},"refs":{}}]',
           asentity=[{"m": {"id": "ns3:home", "props": {"ns3:street": "Evergreen"}}, "carrier": "ns3:homer"},
                     {"m": {"id": "ns3:loose", "props": {"ns3:street": "y"}}, "carrier": ""},
                     {"m": {"id": "ns3:ok", "props": {"ns3:street": "x"}, "refs": {}}, "carrier": ""}]),
        # fine
        S('{"id":"a:1","props":{"a:n":"x","k":[1,true,{"id":"z"}],"nul":null},"refs":{"a:r":"a:2","rr":["http://o/x#y","b"]},'
          '"deleted":true,"recorded":12}, {"id":"@continuation","token":"abc"}', "w-ok"),
        S('{"id":"a:1","props":{"x":[null]}}', "w-null-in-array"),
        mk("stream", "[" + CTX + ',{"id":"a:1"}] x', "w-trailing-garbage"),
    ]


def corpus_cases():
    return []


def gen(rng, tier):
    out = []
    n_valid, n_mut, n_text, n_rand, n_txn, n_http, n_adv, n_proxy, n_restart, n_source = {
        "quick": (50, 100, 50, 50, 50, 32, 40, 72, 10, 28),
        "search": (40, 200, 100, 60, 80, 30, 80, 120, 16, 40),
        "thorough": (500, 1500, 800, 800, 600, 200, 400, 600, 60, 240),
    }[tier]
    g = Gen(rng)
    for _ in range(n_valid):
        out.append(mk("stream", jtext(g.collection()), "valid"))
    for _ in range(n_mut):
        t = g.collection(n=rng.range(1, 3))
        mutate_tree(rng, t)
        out.append(mk("stream", jtext(t), "mut-tree"))
    for _ in range(n_text):
        s = jtext(g.collection(n=rng.range(0, 3)))
        for _ in range(rng.range(1, 2)):
            s = mutate_text(rng, s)
        out.append(mk("stream", s, "mut-text"))
    for _ in range(n_rand):
        out.append(mk("stream" if rng.chance(3, 4) else "txn", random_bytes(rng), "random"))
    ga = Gen(rng, adv=True)
    for i in range(n_adv):
        t = ga.collection(n=rng.range(1, 3))
        if i % 4 == 3:
            mutate_tree(rng, t)
        out.append(mk("stream", jtext(t), "advctx" if i % 4 != 3 else "advctx-mut"))
    for i in range(n_adv):
        t = foreign_collection(rng)
        if i % 5 == 0:
            out.append(mk("http", jtext(t), "foreign-http", get="changes"))
        elif i % 5 == 1:
            out.append(mk("txn", '{"@context":' + jtext(t[1][0]) + ',"d1":' + jtext(("a", t[1][1:])) + "}", "foreign-txn"))
        else:
            out.append(mk("stream", jtext(t), "foreign"))
    for i in range(n_adv):
        t = cont_order_collection(rng, ga if i % 2 else g)
        out.append(mk("stream" if i % 4 else "http", jtext(t), "cont-order", get="changes"))
    for i in range(n_proxy):
        out.append(proxy_page_case(rng, g, i))
    for i in range(n_restart):
        out.append(restart_case(rng, i))
    for i in range(n_restart):
        out.append(public_case(rng, i))
    for i in range(n_restart + n_restart // 2):
        out.append(repost_case(rng, i))
    for i in range(n_restart):
        out.append(txn_after_get_case(rng, i))
    for i in range(n_restart + n_restart // 2):
        out.append(asentity_case(rng, i))
    for i in range(n_source):
        out.append(source_case(rng, g, i))
    for i in range(n_txn):
        t = g.txn()
        kind = "txn-valid"
        if i % 3 == 1:
            mutate_tree(rng, t)
            kind = "txn-mut-tree"
        s = jtext(t)
        if i % 3 == 2:
            s = mutate_text(rng, s)
            kind = "txn-mut-text"
        out.append(mk("txn", s, kind))
    for i in range(n_http):
        n = rng.choice([0, 1, 2, 3, 9, 10, 11]) if i % 4 == 0 else rng.range(1, 4)
        t = g.collection(n=n, fresh=True, cont=False)
        kind = "http-valid"
        if i % 3 == 1:
            # break the last element only: everything before it is a complete batch candidate
            last = ("a", [t[1][-1]])
            mutate_tree(rng, last)
            t = ("a", t[1][:-1] + last[1])
            kind = "http-mut"
        out.append(mk("http", jtext(t), kind, get=rng.choice(["changes", "changes", "entities"])))
    return out


def run(binp, cases):
    return vlib.run_driver(binp, cases, died_obs={"tokens": [], "eof": False, "groups": [], "ns": [], "status": 0, "status2": 0, "token": ""})


def attribute(c, o):
    k = c.get("kind", "")
    if c.get("mode") == "proxy" and o.get("outcome") == "panic" and "interface {}" in (o.get("detail") or ""):
        return "F15e"
    if o.get("outcome") == "panic" or o.get("status") == 500:
        return "F15a"
    if "F15b" in k:
        return "F15b"
    if "F15c" in k:
        return "F15c"
    if "F15d" in k:
        return "F15d"
    if "F15e" in k:
        return "F15e"
    return None


def size(c):
    return len(c["body"]) + sum(len(p) for p in c.get("pages") or []) + len(c.get("body2") or "")


def classify(c, o):
    if c["mode"] == "source":
        return "past-context"
    toks = (o.get("post") or o).get("tokens") or []
    return "past-context" if len(toks) > 8 else None


def tags(c, o):
    t = ["mode=" + c["mode"], "kind=" + c.get("kind", "?").split("-F15")[0], "outcome=" + str(o.get("outcome"))]
    if c["mode"] == "http":
        t.append("status=%s" % o.get("status"))
    n = sum(len(g[1]) for g in (o.get("groups") or []))
    t.append("entities=" + ("0" if n == 0 else "1-3" if n <= 3 else "4+"))
    return t
