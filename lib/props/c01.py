"""C01 - latest view equals the last stored version of every entity."""
import json

import storecases as sc
import vlib
from props import c02 as base

ID = "C01"
PROP_FILE = "Properties/C01.v"
CHECK_MODULE = "Model.Store Check.StoreCheck"
CASE_TYPE = "tcase"
EVAL_FN = "evaluate_c01"
DRIVER_PKG = "cmd/verif_c01"
SHARD = 60

VARIANTS = []
for db in (False, True):
    for v in base.VARIANTS:
        VARIANTS.append({"name": v["name"].replace("current(", "").replace("fixed(", "").rstrip(")") + ",lookup=" + ("with-deleted-body" if db else "pinned"),
                         "findings": list(v["findings"]) + ([] if db else ["F01c"])})
VARIANTS[0]["name"] = "current(" + VARIANTS[0]["name"] + ")"
VARIANTS[-1]["name"] = "fixed(" + VARIANTS[-1]["name"] + ")"

RULE = ("a case is a history over 1-3 datasets sharing a 3-5 id pool: batches and multi-dataset transactions (catalogue contents incl. "
        "engineered equal-length pairs, delete/un-delete alternation, repeated ids in a batch) followed after every write (and at the end) "
        "by listings (unpaged and paged with limits 1,2,3,7 following continuation tokens) and entity lookups scoped to each dataset, "
        "unscoped, and over dataset pairs (partials decoded from the non-merged multi-origin answer); non-trivial = some entity is written "
        "to two datasets or deleted/un-deleted; distinct = distinct history JSON")
TRUSTED = base.TRUSTED + [
    "listing order: Go orders by internal id, the model by URI code; pages are compared id-sorted (sizes of pages compared exactly), so a "
    "wrong ORDER inside the listing is not detected, a missing / duplicated / wrong entity is",
    "unscoped merged lookups over several live partials are compared through the non-merged multi-origin answer (which partials, from "
    "which dataset, with which content); the value-level merge function mergeInto itself is not modelled",
]
ASSUMPTIONS = base.ASSUMPTIONS
CODES = base.CODES


def fin_reads(nds, pool, rng=None):
    ops = []
    for d in sc.DS_NAMES[:nds]:
        ops.append({"op": "entities", "ds": d, "limits": [0]})
        ops.append({"op": "entities", "ds": d, "limits": [rng.choice([1, 2, 3, 7]) if rng else 1]})
    for i in pool:
        for d in sc.DS_NAMES[:nds]:
            ops.append({"op": "get", "id": sc.NS + i, "datasets": [d], "merge": True})
        ops.append({"op": "get", "id": sc.NS + i, "datasets": [], "merge": False})
        if nds > 1:
            ops.append({"op": "get", "id": sc.NS + i, "datasets": [], "merge": True})   # merged references over all datasets
        if nds > 2:
            ops.append({"op": "get", "id": sc.NS + i, "datasets": ["a", "c"], "merge": False})
    return ops


def witness_cases():
    old, new = sc.ENGINEERED[0]
    A = {"props": {"p1": "a"}, "refs": {}}
    D = {"deleted": True, "props": {"p1": "a"}, "refs": {}}
    B = {"props": {"p1": "b"}, "refs": {}}
    C = {"props": {"p1": "bb"}, "refs": {}}
    race = {"datasets": ["a"], "ops": [{"op": "batch", "ds": "a", "ents": [sc.with_id("e1", A)]},
                                       {"op": "race", "ds": "a", "ents": [sc.with_id("e1", B)], "second": [sc.with_id("e1", C)],
                                        "pause_at": "lock.wait", "reader": "rx", "limit": 0}] + fin_reads(1, ["e1"])}
    R1 = {"props": {"p1": "a"}, "refs": {"r1": "e2"}}
    R2 = {"props": {"p1": "b"}, "refs": {"r1": "e3"}}
    R3 = {"props": {"p1": "bb"}, "refs": {"r1": ["e4", "e5"], "r2": "e2"}}
    merged = {"datasets": ["a", "b", "c"], "ops": [{"op": "batch", "ds": "a", "ents": [sc.with_id("e1", R1)]},
                                                   {"op": "batch", "ds": "b", "ents": [sc.with_id("e1", R2)]},
                                                   {"op": "batch", "ds": "c", "ents": [sc.with_id("e1", R3)]}] + fin_reads(3, ["e1"])}
    # internal ids are global: after ~240 filler ids in dataset b, the 30 entities of dataset a straddle the byte
    # boundary 0xFF -> 0x100 of the latest-pointer key; a is then listed one by one, by 2, by 7 and unpaged
    big = {"datasets": ["a", "b"], "ops": [
        {"op": "batch", "ds": "b", "ents": [sc.with_id("e%d" % i, {"props": {"p1": i % 7}, "refs": {}}) for i in range(100, 340)]},
        {"op": "batch", "ds": "a", "ents": [sc.with_id("e%d" % i, {"props": {"p1": i % 5}, "refs": {}}) for i in range(1, 31)]},
        {"op": "entities", "ds": "a", "limits": [1]}, {"op": "entities", "ds": "a", "limits": [2]},
        {"op": "entities", "ds": "a", "limits": [7]}, {"op": "entities", "ds": "a", "limits": [0]}]}
    nullprop = {"datasets": ["a"], "ops": [{"op": "batch", "ds": "a", "ents": [sc.with_id("e1", sc.NULLPAIR[0])]},
                                           {"op": "batch", "ds": "a", "ents": [sc.with_id("e1", sc.NULLPAIR[1])]}] + fin_reads(1, ["e1"])}
    txnrace = {"datasets": ["a"], "ops": [{"op": "batch", "ds": "a", "ents": [sc.with_id("e1", A)]},
                                          {"op": "race", "ds": "a", "ents": [sc.with_id("e1", B)], "second": [sc.with_id("e1", C)],
                                           "pause_at": "lock.wait", "first_txn": True, "reader": "rx", "limit": 0}] + fin_reads(1, ["e1"])}
    many = [sc.with_id("e%d" % i, {"props": {"p1": i % 3}, "refs": {}}) for i in list(range(1, 24)) + [5, 5, 12]]
    http = {"datasets": ["a"], "ops": [
        # the same listing through the real HTTP handlers (POST cut into batches of 10, GET entities paged with tokens)
        {"op": "hbatch", "ds": "a", "ents": many}, {"op": "hentities", "ds": "a", "limits": [4], "ld": True}, {"op": "hentities", "ds": "a", "limits": [0], "ld": True},
        {"op": "hbatch", "ds": "a", "ents": [sc.with_id("e7", {"deleted": True, "props": {"p1": 1}, "refs": {}})] + many[10:21]},
        {"op": "hentities", "ds": "a", "limits": [10]}, {"op": "entities", "ds": "a", "limits": [3]}] + fin_reads(1, ["e7", "e12"])}
    # a writer that waited for the lock re-posts what was there BEFORE the other writer's commit: it is a new version
    stale = {"datasets": ["a"], "ops": [{"op": "batch", "ds": "a", "ents": [sc.with_id("e1", A), sc.with_id("e2", D)]},
                                        {"op": "race", "ds": "a", "ents": [sc.with_id("e1", A), sc.with_id("e2", D)],
                                         "second": [sc.with_id("e1", B), sc.with_id("e2", A)],
                                         "pause_at": "lock.wait", "reader": "rx", "limit": 0}] + fin_reads(1, ["e1", "e2"])}
    # a refused batch (nil reference in its last entity) leaves no trace: the retry is stored in full
    retry = [sc.with_id("e1", B), sc.with_id("e2", A), sc.with_id("e3", D)]
    refused = {"datasets": ["a"], "ops": [{"op": "batch", "ds": "a", "ents": [sc.with_id("e1", A), sc.with_id("e3", A)]},
                                          {"op": "batch", "ds": "a", "ents": retry, "reject": True}] + fin_reads(1, ["e1", "e2", "e3"])
               + [{"op": "batch", "ds": "a", "ents": retry}] + fin_reads(1, ["e1", "e2", "e3"])}
    # one Go-API batch longer than 256 entities with an id repeated at positions 255 / 256 / 300: the 2-byte batch position of the
    # version key decides which version a lookup finds
    filler = [sc.with_id("e%d" % i, {"props": {"p1": i % 7}, "refs": {}}) for i in range(1000, 1310)]
    longb = filler[:255] + [sc.with_id("e1", A), sc.with_id("e1", B)] + filler[255:298] + [sc.with_id("e1", C)] + filler[298:]
    longbatch = {"datasets": ["a"], "ops": [{"op": "batch", "ds": "a", "ents": longb},
                                            {"op": "get", "id": sc.NS + "e1", "datasets": ["a"], "merge": True},
                                            {"op": "get", "id": sc.NS + "e1", "datasets": [], "merge": False},
                                            {"op": "get", "id": sc.NS + "e1299", "datasets": ["a"], "merge": True}]}
    # internal ids are global: after ~965 ids used up in a hidden dataset the 70 entities of a get internal ids around 992..1035,
    # where the two base64 alphabets of a continuation token differ and where the id crosses 1024; listed one by one, by 7, unpaged
    # (through the Go API and through the HTTP handler, which validates the token)
    tokens = {"datasets": ["a"], "ops": [
        {"op": "burn", "n": 965},
        {"op": "batch", "ds": "a", "ents": [sc.with_id("e%d" % i, {"props": {"p1": i % 5}, "refs": {}}) for i in range(1, 71)]},
        {"op": "entities", "ds": "a", "limits": [1]}, {"op": "hentities", "ds": "a", "limits": [1]},
        {"op": "entities", "ds": "a", "limits": [7]}, {"op": "hentities", "ds": "a", "limits": [0], "ld": True}]}
    # a batch into b is refused while the writer of a stands between asserting its new ids and committing them: nothing of a's
    # batch may be lost, and re-posting it adds nothing
    fresh = [sc.with_id("e7", A), sc.with_id("e8", R1), sc.with_id("e9", B)]
    shared = {"datasets": ["a", "b"], "ops": [{"op": "batch", "ds": "a", "ents": fresh, "refuse_during": "b"}] + fin_reads(2, ["e7", "e8", "e9"])
              + [{"op": "restart"}, {"op": "batch", "ds": "a", "ents": fresh}] + fin_reads(2, ["e7", "e8", "e9"])}
    # the listing read through a PROXY dataset whose remote hub is this hub (real loopback HTTP, ProxyDataset.StreamEntities*)
    proxy = {"datasets": ["a"], "proxies": {"p": "a"}, "ops": [
        {"op": "mkproxy", "ds": "p", "id": "a"}, {"op": "hbatch", "ds": "a", "ents": many},
        {"op": "hentities", "ds": "p", "limits": [4], "ld": True}, {"op": "hentities", "ds": "p", "limits": [0]},
        {"op": "hbatch", "ds": "a", "ents": [sc.with_id("e7", {"deleted": True, "props": {"p1": 1}, "refs": {}})] + many[10:21]},
        {"op": "hentities", "ds": "p", "limits": [10]}, {"op": "hentities", "ds": "p", "limits": [3], "ld": True}]}
    # a POST whose last entity has no id: the batches of 10 before it are stored, the partial last batch is refused as a whole
    # and the request does not answer 200; then the valid part is posted again
    hrefused = {"datasets": ["a"], "ops": [{"op": "hbatch", "ds": "a", "ents": many[:14], "reject": True}] + fin_reads(1, ["e1", "e5", "e12"])
                + [{"op": "hbatch", "ds": "a", "ents": many[10:14]}] + fin_reads(1, ["e1", "e5", "e12"])}
    # three uploads through the HTTP handler, the second one binding the default prefix of its @context to ANOTHER namespace:
    # its ids, property keys, reference keys and reference values all denote http://w/...; the third is back to the usual one
    R9 = {"props": {"p1": "a", "p2": 7}, "refs": {"r1": "e2", "r2": ["e3", "e4"]}}
    twoctx = {"datasets": ["a"], "ops": [
        {"op": "hbatch", "ds": "a", "ents": [sc.with_id("e1", R9), sc.with_id("e2", A)]},
        {"op": "hbatch", "ds": "a", "ents": [sc.with_id("e1", R9), sc.with_id("e2", B)], "ctx": "http://w/"},
        {"op": "hbatch", "ds": "a", "ents": [sc.with_id("e1", R9), sc.with_id("e2", B)]}] + fin_reads(1, ["e1", "e2"]) + [{"op": "hentities", "ds": "a", "limits": [0], "ld": True}, {"op": "get", "id": "http://w/e1", "datasets": ["a"], "merge": True}]}
    # ids whose local part contains '/' behind a '#' expansion, and ids that are prefixes of each other: the full-URI lookup
    # must split the URI where the write path (the stream parser) split it
    H = "http://v/ns#"
    slashid = {"datasets": ["a", "b"], "ops": [
        {"op": "hbatch", "ds": "a", "ents": [sc.with_id("x/e1", A), sc.with_id("x/e1/y", B), sc.with_id("e1", C)], "ctx": H},
        {"op": "hbatch", "ds": "b", "ents": [sc.with_id("x/e1", B)], "ctx": H},
        {"op": "hbatch", "ds": "a", "ents": [sc.with_id("x/e1", D)], "ctx": H},
        {"op": "hbatch", "ds": "a", "ents": [sc.with_id("x/e1", A)], "ctx": H},
        {"op": "hbatch", "ds": "b", "ents": [dict(sc.with_id("x/e1", C), recorded=5), dict(sc.with_id("e7", R1), recorded=7)], "ctx": H},
        {"op": "rawkeys"},
        {"op": "hentities", "ds": "a", "limits": [0]}, {"op": "hentities", "ds": "b", "limits": [1]}]
        + [o for i in ("x/e1", "x/e1/y", "e1") for o in (
            {"op": "get", "id": H + i, "datasets": ["a"], "merge": True},
            {"op": "get", "id": H + i, "datasets": [], "merge": True},
            {"op": "hquery", "id": H + i, "datasets": ["a"], "merge": False},
            {"op": "jsfind", "id": H + i, "datasets": []})]}
    # every engineered (old, new) pair: the new version must be what listing and lookup show
    pairs = [{"datasets": ["a"], "ops": [{"op": "batch", "ds": "a", "ents": [sc.with_id("e1", o_)]},
                                         {"op": "batch", "ds": "a", "ents": [sc.with_id("e1", n_)]}] + fin_reads(1, ["e1"])}
             for o_, n_ in sc.ENGINEERED[1:]]
    return pairs + [twoctx, slashid, hrefused, race, txnrace, merged, big, nullprop, http, proxy, stale, refused, longbatch, tokens, shared,
        # two tombstones differing in one reference target only: two versions
        {"datasets": ["a"], "ops": [{"op": "batch", "ds": "a", "ents": [sc.with_id("e1", sc.TOMBPAIR[0])]},
                                    {"op": "batch", "ds": "a", "ents": [sc.with_id("e1", sc.TOMBPAIR[1])]}] + fin_reads(1, ["e1"])},
        # F01a: un-delete with a 15-byte property is dropped: listing and lookup keep the deleted version
        {"datasets": ["a"], "ops": [{"op": "batch", "ds": "a", "ents": [sc.with_id("e1", old)]},
                                    {"op": "batch", "ds": "a", "ents": [sc.with_id("e1", new)]}] + fin_reads(1, ["e1"])},
        # F01c: a scoped lookup of an entity whose last version is deleted returns an empty body
        {"datasets": ["a", "b"], "ops": [{"op": "batch", "ds": "a", "ents": [sc.with_id("e1", A)]},
                                         {"op": "batch", "ds": "b", "ents": [sc.with_id("e1", A)]},
                                         {"op": "batch", "ds": "a", "ents": [sc.with_id("e1", D)]}] + fin_reads(2, ["e1", "e2"])},
    ]


def corpus_cases():
    return []


def gen_case(rng, nw):
    nds = rng.choice([1, 2, 2, 3])
    pool = sc.IDS[:rng.choice([2, 3, 5])]
    writes = sc.gen_writes(rng, nds, nw, pool, reject=True)
    ops = []
    memo = {}
    for w in writes:
        if w["op"] == "txn" and rng.chance(1, 2):
            # the same transaction through POST /transactions or built in JavaScript (NewTransaction / ExecuteTransaction)
            js = rng.chance(1, 2)
            w = {"op": "jstxn" if js else "htxn", "sets": [{"ds": s_["ds"], "ents": (sc.js_safe if js else sc.no_null)(s_["ents"])} for s_ in w["sets"]]}
        if w["op"] == "batch" and rng.chance(1, 5):
            w = {"op": "hbatch", "ds": w["ds"], "ents": sc.no_null(w["ents"] + sc.gen_batch(rng, pool, memo, w["ds"], True) * rng.choice([1, 4]))}
            ops.append(w)
            ops.append({"op": "hentities", "ds": w["ds"], "limits": [rng.choice([0, 1, 2, 3])], "ld": rng.chance(1, 2)})
            continue
        ops.append(w)
        if rng.chance(1, 6):
            d = sc.DS_NAMES[rng.below(nds)]
            ops.append(sc.gen_race(rng, pool, memo, d, "rx"))
            ops.append({"op": "entities", "ds": d, "limits": [0]})
            for i in pool[:3]:
                ops.append({"op": "get", "id": sc.NS + i, "datasets": [d], "merge": True})
        if rng.chance(1, 3):
            d = sc.DS_NAMES[rng.below(nds)]
            ops.append({"op": "entities", "ds": d, "limits": [rng.choice([0, 1, 2, 3])]})
            i = rng.choice(pool)
            ops.append({"op": "get", "id": sc.NS + i, "datasets": [d], "merge": True})
            ops.append({"op": "get", "id": sc.NS + i, "datasets": [], "merge": False})
            # the same lookups through POST /query {entityId} and through the JS binding FindById
            ops.append({"op": "hquery", "id": sc.NS + i, "datasets": [d] if rng.chance(1, 2) else [], "merge": rng.chance(1, 2)})
            ops.append({"op": "jsfind", "id": sc.NS + i, "datasets": [d] if rng.chance(1, 2) else []})
    ops += fin_reads(nds, pool, rng)
    recd = False
    for o in ops:
        # entities that carry a client-side "recorded" time (as a hub-to-hub sync posts them): the store stamps its own
        if o["op"] in ("batch", "hbatch") and not o.get("reject") and rng.chance(1, 4):
            o["ents"] = [dict(e, recorded=rng.choice([1, 5, 1234567])) for e in o["ents"]]
            recd = True
    if recd or rng.chance(1, 4):
        ops.append({"op": "rawkeys"})     # byte layout + iteration order of the real keys (Model/Keys.v)
    return {"datasets": sc.DS_NAMES[:nds], "ops": ops}


def gen(rng, tier):
    n = {"quick": 60, "thorough": 1500, "search": 300}[tier]
    return [gen_case(rng, rng.range(2, 7 if tier == "quick" else 10)) for _ in range(n)]


run = base.run


def term(c, o):
    return sc.case_term(CODES, c, o)


def predict_text(c, o):
    t = term(c, o)
    body = "Definition c : tcase := %s.\n" % t
    body += "Eval vm_compute in (map (fun v => first_bad v false proj_c01 store0 c 0%N) variants, spec_ok proj_c01 c).\n"
    ok, out, _ = vlib.coq_eval("C01p", [CHECK_MODULE], body)
    return "first op index the model does not predict, per variant; spec_ok: " + out.strip()


def attribute(c, o):
    return None


size = base.size


def classify(c, o):
    seen = {}
    for op in c["ops"]:
        sets = [op] if op["op"] == "batch" else (op.get("sets") or [])
        for s in sets:
            for e in s.get("ents", []):
                seen.setdefault(e["id"], set()).add(s["ds"])
                if e.get("deleted"):
                    return "delete"
    if any(len(v) > 1 for v in seen.values()):
        return "multi-dataset id"
    return None


tags = base.tags
