"""C18 - MultiSource dependency tracking re-emits every affected main entity."""
import vlib

ID = "C18"
PROP_FILE = "Properties/C18.v"
CHECK_MODULE = "Check.C18Check"
CASE_TYPE = "tcase"
DRIVER_PKG = "cmd/verif_c18"
SHARD = 40

# order = all_variants in Check/C18Check.v: shared x prev x watermark x skip
VARIANTS = []
for _s, _fs in (("SharedEager", ["F18a"]), ("SharedSnapshot", [])):
    for _p, _fp in (("PrevTime", ["F18b"]), ("PrevFeed", [])):
        for _w, _fw in (("WmNeighbour", ["F18c"]), ("WmOwn", [])):
            for _k, _fk in (("SkipDrop", ["F18d"]), ("SkipPrev", [])):
                _f = _fs + _fp + _fw + _fk
                _n = "%s,%s,%s,%s" % (_s, _p, _w, _k)
                if len(_f) == 4:
                    _n = "current(%s)" % _n
                if not _f:
                    _n = "fixed(%s)" % _n
                VARIANTS.append({"name": _n, "findings": _f})

RULE = ("cases = (2-4 datasets created in index order with the main dataset at any index; 1-2 declared dependencies, each a join "
        "path of 1-3 hops with independently chosen directions and predicates through arbitrary datasets (ending in the main "
        "dataset; sometimes two dependencies on the same dataset, sometimes a path that ends elsewhere), declared in the job JSON "
        "or through track_queries of a real JavaScript transform; LatestOnly flag; batch size 1..4; history of write batches "
        "(1-3 entities of one dataset per StoreEntities call, 2-4 entity ids per dataset, references re-drawn on every write = "
        "rewiring, dangling and wrong-dataset targets, deletes and un-deletes) interleaved with job runs (incremental, fullsync, "
        "scripted failure of the k-th sink call, 'repeat until the token stops moving')); plus two engineered families: one "
        "dependency entity connected to 3-4 main entities (fan-out > batch size) touched once, the sink failing at call 0..3, job "
        "restarted to the fixpoint; and a scripted write to the dependency dataset from inside the sink callback after call k of a "
        "multi-page full sync, then runs to the fixpoint; and LatestOnly sources whose look-back entry (the change at token - 1) is "
        "superseded by a rewiring / unlinking / deletion of the same dependency entity (outgoing first hop); 3-hop paths that stay "
        "in one dataset (hierarchies: the same entity on several join levels); 2-3 dependencies on distinct datasets with a "
        "scripted write into a dependency dataset from inside the sink callback of an INCREMENTAL run; jobs declaring join paths "
        "in both forms at once (Dependencies in the job JSON and track_queries in the transform); write batches holding the same "
        "main / link entity two or three times with a reference flipping away and back; several track_queries chains sharing "
        "their first hop; a case is non-trivial when an "
        "incremental run delivered entities found through a dependency or a scripted failure fired; distinct = distinct case tuples")
TRUSTED = [
    "Store.GetRelatedAtTime (with its continuation paging at limit = batch size) is specified, not modelled: related(e) at instant t "
    "= the references of the latest non-deleted version with commit time <= t, per dataset in scope (property C03 covers the "
    "query implementation); exercised here on histories where an entity id lives in one dataset; a StoreEntities call may hold "
    "the same live entity several times (the last occurrence is the version that counts), not mixed with deletions",
    "the versions each StoreEntities call appended are read back from the real change feeds (write-time dedup is C01/C02's "
    "subject); all versions of one call share one commit instant, later calls have later instants (txnTime = time.Now())",
    "core.Dataset's change-feed length before a run is an observed input (only the tree variant of GetChangesWatermark uses it)",
    "the order of entities inside one dependency's result list is not modelled (Go: internal ids / channel order): runs that end "
    "with a scripted sink failure are compared on outcome, sink call sizes, number of delivered entities and persisted tokens; "
    "successful runs additionally on the sorted list of delivered ids",
    "change-log sequence numbers are contiguous, so a token is a position in the feed",
]
ASSUMPTIONS = [
    "batch size >= 1 (the scheduler replaces batchSize < 1 by 10000)",
    "no writes while a run is in progress, except one scripted write to a non-main dataset between two sink calls of a full "
    "sync (ORunMid; covered by the theorems) or of an incremental run (ORunMidInc: modelled for dependencies on pairwise "
    "distinct datasets and compared with the implementation, outside the completeness theorems)",
    "all datasets exist before the first run and are local (no proxy datasets); the job configuration does not change between runs",
    "C18_tokens_safe / C18_complete are stated for LatestOnly = false; LatestOnly sources are covered by C18_*_latest under the "
    "fourth repair (finding F18d: with LatestOnly the pinned tree AND the three repairs alone lose previous-run links)",
    "link theorem C18_agree_implies_spec: the marker count and the set of ids a FAILED run delivered are taken from the model "
    "(agreement cannot determine them); for those the executable spec is evaluated on the implementation's observation only",
    "sink failures are the only faults (no process death between sink write and token store; C08 covers that window)",
]
EXHAUSTIVE = {"thorough": False}


# ------------------------------------------------------------------------------------------- case builders
def W(ds, es):
    return {"op": "w", "ds": ds, "es": [{"id": i, "refs": [list(r) for r in refs], "del": bool(d)} for (i, refs, d) in es]}


def R(full=False, fail=-1, fix=False, mid=None):
    """mid = (after sink call k, dataset, entities): a scripted write DURING the (full sync) run"""
    r = {"op": "run", "full": full, "fail": fail, "fix": fix}
    if mid is not None:
        k, ds, es = mid
        r["mid"] = {"after": k, "ds": ds, "es": W(ds, es)["es"]}
    return r


def J(ds, pred, inv):
    return {"ds": ds, "pred": pred, "inv": bool(inv)}


def D(ds, *joins):
    return {"ds": ds, "joins": list(joins)}


def mk(nds, main, deps, ops, batch=2, latest=False, track=False, ntrack=0):
    """ntrack > 0: the last ntrack dependencies are declared through track_queries, the others in the job JSON"""
    return {"nds": nds, "main": main, "deps": deps, "track": track, "ntrack": ntrack, "latest": latest, "batch": batch,
            "ops": ops}


def witness_cases():
    m3 = W(0, [(1, [], 0), (2, [], 0), (3, [], 0)])
    return [
        # F18a (completeness): two dependencies on d1; the link watched by the second one is removed
        mk(2, 0, [D(1, J(0, 1, False)), D(1, J(0, 2, False))],
           [m3, W(1, [(11, [(1, 1), (2, 2)], 0)]), R(), W(1, [(11, [(1, 1)], 0)]), R(), R()]),
        # F18a (token safety): the sink fails while the second dependency of d1 delivers
        mk(2, 0, [D(1, J(0, 1, False)), D(1, J(0, 2, False))],
           [m3, W(1, [(11, [(1, 1), (2, 2)], 0)]), R(), W(1, [(11, [(1, 1), (2, 2)], 0)]), R(fail=1), R(), R()]),
        # F18b: one write batch removes the links of 11 and 12, the page boundary (batch 1) falls inside it
        mk(2, 0, [D(1, J(0, 1, False))],
           [m3, W(1, [(11, [(1, 1)], 0), (12, [(1, 2)], 0)]), R(), W(1, [(11, [], 0), (12, [], 0)]), R(fix=True)], batch=1),
        # F18c: dependency dataset empty at the first (full) run; main has 3 changes
        mk(2, 0, [D(1, J(0, 1, True))],
           [W(0, [(1, [(1, 11)], 0), (2, [(1, 12)], 0), (3, [], 0)]), R(), W(1, [(11, [], 0)]), R(), R(),
            W(1, [(12, [], 0)]), R(), W(1, [(11, [], 0), (12, [], 0)]), R(), R()]),
        mk(2, 1, [D(0, J(1, 1, True))],
           [W(1, [(1, [(1, 11)], 0), (2, [(1, 12)], 0), (3, [], 0)]), R(), W(0, [(11, [], 0)]), R(), R()]),
        # F18d: LatestOnly, 11 changes twice with another change between, batch 1
        mk(2, 0, [D(1, J(0, 1, False))],
           [m3, W(1, [(11, [(1, 1)], 0), (12, [], 0)]), R(), W(1, [(12, [], 0)]), W(1, [(11, [(1, 2)], 0)]),
            W(1, [(12, [], 0)]), W(1, [(11, [(1, 3)], 0)]), R(fix=True)], batch=1, latest=True),
        # plain behaviour: 3 hops with mixed directions, rewiring in the middle, deletion, paging
        mk(4, 0, [D(3, J(2, 1, True), J(1, 2, False), J(0, 3, True))],
           [W(3, [(31, [], 0), (32, [], 0)]), W(2, [(21, [(1, 31), (2, 11)], 0), (22, [(1, 32), (2, 12)], 0)]),
            W(1, [(11, [], 0), (12, [], 0)]), W(0, [(1, [(3, 11)], 0), (2, [(3, 12)], 0), (3, [(3, 12)], 0)]), R(),
            W(3, [(31, [], 0)]), R(fix=True), W(2, [(21, [(1, 31), (2, 12)], 0)]), R(fix=True),
            W(3, [(32, [], 1)]), W(1, [(12, [], 0)]), R(fix=True)], batch=2),
        mk(3, 2, [D(0, J(1, 1, False), J(2, 2, False))],
           [W(2, [(21, [], 0), (22, [], 0), (23, [], 1)]), W(1, [(11, [(2, 21), (2, 22)], 0), (12, [(2, 23)], 0)]),
            W(0, [(1, [(1, 11)], 0), (2, [(1, 12), (1, 11)], 0)]), R(), W(0, [(1, [(1, 12)], 0)]), R(),
            W(1, [(11, [(2, 22)], 0)]), R(fail=0), R(), R(True), R()], batch=1, track=True),
        # plain behaviour: a dependency write between two pages of a full sync is picked up by the next run
        mk(2, 0, [D(1, J(0, 1, True))],
           [W(0, [(1, [(1, 11)], 0), (2, [], 0), (3, [], 0)]), W(1, [(11, [], 0)]),
            R(full=True, mid=(0, 1, [(11, [], 0)])), R(fix=True)], batch=1),
        # plain behaviour: LatestOnly, the entity at token - 1 is rewired: the main entity linked at the previous run is emitted
        mk(2, 0, [D(1, J(0, 1, False))],
           [W(0, [(1, [], 0), (2, [], 0), (3, [], 0)]), W(1, [(11, [(1, 1)], 0)]), R(), W(1, [(11, [(1, 2)], 0)]),
            R(fix=True)], batch=2, latest=True),
        # plain behaviour: a hierarchy in one dataset, the same entity on two join levels (office <- person <- person <- person)
        mk(2, 0, [D(1, J(0, 1, True), J(0, 2, True), J(0, 2, True))],
           [W(0, [(3, [(1, 11)], 0), (2, [(1, 11), (2, 3)], 0), (1, [(2, 2)], 0), (4, [(2, 1)], 0)]), W(1, [(11, [], 0)]),
            R(), W(1, [(11, [], 0)]), R(fix=True)], batch=4),
        # plain behaviour: a write to the second dependency's dataset from inside the first dependency's batch callback
        mk(3, 0, [D(1, J(0, 1, True)), D(2, J(0, 2, False))],
           [W(0, [(1, [(1, 11)], 0), (2, [], 0)]), W(1, [(11, [], 0)]), W(2, [(21, [], 0)]), R(),
            W(1, [(11, [], 0)]), R(mid=(0, 2, [(22, [(2, 2)], 0)])), R(fix=True)], batch=2),
        # plain behaviour: Dependencies in the job JSON AND track_queries in the transform (with an implicit dependency)
        mk(4, 0, [D(1, J(0, 1, True)), D(2, J(3, 2, True), J(0, 3, False))],
           [W(0, [(1, [(1, 11)], 0), (2, [], 0)]), W(1, [(11, [], 0)]), W(3, [(31, [(2, 21), (3, 2)], 0)]), W(2, [(21, [], 0)]),
            R(), W(2, [(21, [], 0)]), R(fix=True), W(3, [(31, [(2, 21), (3, 1)], 0)]), R(fix=True)], batch=2, ntrack=1),
        # plain behaviour: two track_queries chains with the same first hop (main <-p1- link d1) and different tails (d2, d3)
        mk(4, 0, [D(2, J(1, 2, True), J(0, 1, True)), D(3, J(1, 3, False), J(0, 1, True))],
           [W(0, [(1, [(1, 11)], 0), (2, [(1, 12)], 0)]), W(1, [(11, [(2, 21)], 0), (12, [], 0)]), W(2, [(21, [], 0)]),
            W(3, [(31, [(3, 12)], 0)]), R(), W(2, [(21, [], 0)]), R(fix=True), W(3, [(31, [(3, 12)], 0)]), R(fix=True)],
           batch=2, track=True),
        # plain behaviour: one batch holds main entity 1 twice, its reference flips to 12 and back to 11; then 11 changes
        mk(2, 0, [D(1, J(0, 1, True))],
           [W(0, [(1, [(1, 11)], 0), (2, [(1, 12)], 0)]), W(1, [(11, [], 0), (12, [], 0)]), R(),
            W(0, [(1, [(1, 12)], 0), (1, [(1, 11)], 0)]), R(), W(1, [(11, [], 0)]), R(fix=True)], batch=2),
        # plain behaviour: fan-out 3 > batch 1, sink fails at its 2nd call, restart
        mk(2, 0, [D(1, J(0, 1, True))],
           [W(0, [(1, [(1, 11)], 0), (2, [(1, 11)], 0), (3, [(1, 11)], 0)]), W(1, [(11, [], 0)]), R(),
            W(1, [(11, [], 0)]), R(fail=1), R(fix=True)], batch=1),
    ]


def corpus_cases():
    return []


# ------------------------------------------------------------------------------------------- generator
def ids_of(k):
    return [10 * k + 1, 10 * k + 2, 10 * k + 3]


def rand_path(rng, nds, main, end_main=True):
    n = rng.choice([1, 1, 2, 2, 3])
    dss = [rng.below(nds) for _ in range(n)]
    if end_main:
        dss[-1] = main
    start = rng.below(nds)
    if n == 1 and start == main and rng.chance(2, 3):
        start = (main + 1) % nds
    return D(start, *[J(dss[i], rng.range(1, 3), rng.chance(1, 2)) for i in range(n)])


def roles(deps):
    """dataset -> list of (pred, target dataset) its entities need references for"""
    out = {}
    for d in deps:
        prev = d["ds"]
        for j in d["joins"]:
            if j["inv"]:
                out.setdefault(j["ds"], []).append((j["pred"], prev))
            else:
                out.setdefault(prev, []).append((j["pred"], j["ds"]))
            prev = j["ds"]
    return out


def rand_entity(rng, ds, i, rl, nds):
    refs = []
    for (p, tds) in rl.get(ds, []):
        for _ in range(rng.choice([0, 1, 1, 1, 2])):
            t = rng.choice(ids_of(tds))
            if rng.chance(1, 12):
                t = rng.choice(ids_of(rng.below(nds)) + [99])
            if (p, t) not in refs:
                refs.append((p, t))
    return (i, refs, 1 if rng.chance(1, 9) else 0)


def rand_write(rng, ds, rl, nds, npool=3):
    pool = ids_of(ds)[:npool]
    rng.shuffle(pool)
    return W(ds, [rand_entity(rng, ds, i, rl, nds) for i in pool[:rng.choice([1, 1, 2, 2, 3])]])


def rand_case(rng, maxops=12):
    nds = rng.choice([2, 2, 3, 3, 4])
    main = rng.below(nds)
    deps = [rand_path(rng, nds, main, end_main=not rng.chance(1, 12))]
    x = rng.below(10)
    if x < 3:
        # a second dependency on the same dataset
        d2 = rand_path(rng, nds, main)
        d2["ds"] = deps[0]["ds"]
        deps.append(d2)
    elif x < 5:
        deps.append(rand_path(rng, nds, main))
    track = rng.chance(1, 5) and all(d["joins"][-1]["ds"] == main for d in deps)
    rl = roles(deps)
    used = sorted(set([main] + [d["ds"] for d in deps] + [j["ds"] for d in deps for j in d["joins"]]))
    ops = []
    # initial population (sometimes leaving a dataset empty for the first full sync)
    skip = rng.choice(used) if rng.chance(1, 4) else None
    for k in used:
        if k != skip:
            ops.append(rand_write(rng, k, rl, nds))
    ops.append(R())
    n = rng.range(3, maxops)
    for _ in range(n):
        y = rng.below(20)
        if y < 11:
            k = rng.choice(used) if rng.chance(3, 4) else rng.below(nds)
            ops.append(rand_write(rng, k, rl, nds))
        elif y < 15:
            ops.append(R())
        elif y < 16:
            ops.append(R(full=True, fail=rng.choice([-1, -1, 0, 1])))
        elif y < 18:
            ops.append(R(fail=rng.range(0, 3)))
        else:
            ops.append(R(fix=True))
    ops.append(R(fix=True))
    ntrack = 0
    if not track and len(deps) >= 2 and deps[-1]["joins"][-1]["ds"] == main and rng.chance(1, 3):
        ntrack = 1
    return mk(nds, main, deps, ops, batch=rng.range(1, 4), latest=rng.chance(1, 4), track=track, ntrack=ntrack)


def star(rng, nmain=None):
    """one dependency entity (dataset 1, id 11/12) connected to several main entities (dataset 0, ids 1..4)
    through one hop of a random direction; returns (deps, initial writes, the write that touches the hub entity)"""
    n = nmain or rng.range(3, 4)
    mains = list(range(1, n + 1))
    inv = rng.chance(1, 2)
    p = rng.range(1, 3)
    linked = [m for m in mains if rng.chance(4, 5)] or mains[:2]
    if inv:    # main entities point at 11
        w_main = W(0, [(m, [(p, 11)] if m in linked else [], 0) for m in mains])
        w_dep = W(1, [(11, [], 0), (12, [], 0)])
        touch = (11, [], 0)
    else:      # 11 points at the main entities
        w_main = W(0, [(m, [], 0) for m in mains])
        w_dep = W(1, [(11, [(p, m) for m in linked], 0), (12, [], 0)])
        touch = (11, [(p, m) for m in linked], 0)
    return [D(1, J(0, p, inv))], w_main, w_dep, touch, linked


def fanout_case(rng):
    """one dependency change fans out to more main entities than the batch size; the sink fails at call k; the job
    is restarted until the tokens stop moving"""
    deps, w_main, w_dep, touch, linked = star(rng)
    ops = [w_main, w_dep, R()]
    if rng.chance(1, 3):
        ops.append(R())
    ops.append(W(1, [touch]))
    if rng.chance(1, 4):
        ops.append(W(1, [(12, [], 0)]))
    ops.append(R(fail=rng.range(0, 3)))
    if rng.chance(1, 3):
        ops.append(R(fail=rng.range(0, 2)))
    ops.append(R(fix=True))
    return mk(2, 0, deps, ops, batch=rng.choice([1, 1, 2, 2, 3]), latest=False)


def midfull_case(rng):
    """a dependency entity is written between two pages of a (multi-page) full sync; then runs to the fixpoint"""
    deps, w_main, w_dep, touch, linked = star(rng, 4)
    ops = [w_main, w_dep]
    first = rng.chance(1, 2)
    if not first:
        ops += [R(), W(0, [(rng.range(1, 4), [], 0)])] if rng.chance(1, 2) else [R()]
    mid = (rng.range(0, 3), 1, [touch] if rng.chance(3, 4) else [touch, (12, [], 0)])
    ops.append(R(full=True, fail=rng.choice([-1, -1, -1, 2, 3]), mid=mid))
    if rng.chance(1, 3):
        ops.append(W(1, [(12, [], 0)]))
    ops.append(R(fix=True))
    return mk(2, 0, deps, ops, batch=rng.choice([1, 1, 2, 2, 3]), latest=False)


def lookback_case(rng):
    """LatestOnly (mostly): the dependency dataset holds few changes, the job catches up, then the entity whose change
    is the last one below the token is rewired / unlinked / deleted (outgoing first hop), possibly with other changes
    around it; runs to the fixpoint.  The look-back entry (token - 1) is then a superseded change."""
    mains = [1, 2, 3]
    p = rng.range(1, 3)
    two = rng.chance(1, 3)
    deps = [D(1, J(0, p, False))] if not two else [D(1, J(2, p, False), J(0, 1, rng.chance(1, 2)))]
    nds = 3 if two else 2
    tgt_ds = 2 if two else 0
    rl = roles(deps)

    def dep_ent(i):
        ts = []
        for _ in range(rng.choice([0, 1, 1, 2])):
            t = rng.choice(ids_of(tgt_ds))
            if (p, t) not in ts:
                ts.append((p, t))
        return (i, ts, 1 if rng.chance(1, 10) else 0)
    ops = [W(0, [(m, [], 0) for m in mains])] if not (two and deps[0]["joins"][1]["inv"]) else [rand_write(rng, 0, rl, nds)]
    if two:
        ops.append(rand_write(rng, 2, rl, nds))
    first = [dep_ent(i) for i in ([11] if rng.chance(1, 2) else [12, 11])]
    for e in first:
        ops.append(W(1, [e]))
    ops.append(R())
    if rng.chance(1, 2):
        ops.append(R())
    for _ in range(rng.range(1, 3)):
        # the entity written last is the one at token - 1
        ops.append(W(1, [dep_ent(11)]))
        if rng.chance(1, 3):
            ops.append(W(1, [dep_ent(12)]))
        ops.append(R(fix=True) if rng.chance(1, 2) else R())
    ops.append(R(fix=True))
    return mk(nds, 0, deps, ops, batch=rng.choice([1, 2, 3, 4]), latest=not rng.chance(1, 5))


def chain_case(rng):
    """join paths of 3 hops that stay in ONE dataset after the first hop (a hierarchy: office <- works-at - person
    <- manager - person <- manager - person), each hop with its own direction, so that the same entity sits on
    several join levels; the dependency entity is touched, then runs to the fixpoint"""
    pw, pm = 1, 2
    inv1, inv2, inv3 = rng.chance(2, 3), rng.chance(2, 3), rng.chance(2, 3)
    same_pred = rng.chance(3, 4)
    deps = [D(1, J(0, pw, inv1), J(0, pm, inv2), J(0, pm if same_pred else 3, inv3))]
    people = [1, 2, 3, 4]
    pm3 = pm if same_pred else 3

    def person(i):
        refs = []
        if inv1 and rng.chance(1, 2):
            refs.append((pw, 11))
        # a manager-like chain: i -> i-1 (mostly), sometimes another one
        for (pp, inv) in ((pm, inv2), (pm3, inv3)):
            if rng.chance(3, 4):
                t = (i - 1) if (inv and i > 1 and rng.chance(3, 4)) else rng.choice(people)
                if not inv and rng.chance(3, 4) and i < 4:
                    t = i + 1
                if t != i and (pp, t) not in refs:
                    refs.append((pp, t))
        return (i, refs, 0)

    def office():
        refs = []
        if not inv1:
            for t in people:
                if rng.chance(1, 2):
                    refs.append((pw, t))
        return (11, refs, 0)
    ops = [W(0, [person(i) for i in people]), W(1, [office()]), R()]
    for _ in range(rng.range(1, 2)):
        if rng.chance(1, 3):
            ops.append(W(0, [person(rng.choice(people))]))
        ops.append(W(1, [office()]))
        ops.append(R(fix=True))
    return mk(2, 0, deps, ops, batch=rng.choice([1, 2, 3, 4]), latest=False)


def midinc_case(rng):
    """two or three one-hop dependencies on pairwise distinct datasets; during an incremental run a write lands in a
    dependency dataset from inside the sink callback (after call k): a new / rewired entity carrying a link to a
    main entity; then runs to the fixpoint"""
    ndep = rng.choice([2, 2, 3])
    nds = ndep + 1
    deps = [D(k, J(0, k, rng.chance(1, 2))) for k in range(1, ndep + 1)]
    rl = roles(deps)
    mains = [1, 2, 3]

    def main_ent(i):
        refs = []
        for d in deps:
            if d["joins"][0]["inv"] and rng.chance(1, 2):
                refs.append((d["joins"][0]["pred"], rng.choice(ids_of(d["ds"])[:2])))
        return (i, refs, 0)

    def dep_ent(k, i, must_link=False):
        d = deps[k - 1]
        refs = []
        if not d["joins"][0]["inv"]:
            for t in mains:
                if rng.chance(1, 3):
                    refs.append((d["joins"][0]["pred"], t))
            if must_link and not refs:
                refs.append((d["joins"][0]["pred"], rng.choice(mains)))
        return (i, refs, 0)
    ops = [W(0, [main_ent(i) for i in mains])]
    for k in range(1, ndep + 1):
        ops.append(W(k, [dep_ent(k, 10 * k + 1)]))
    ops.append(R())
    # pending changes in the first dependencies so that their batches run the callback
    for k in range(1, ndep + 1):
        if k == 1 or rng.chance(1, 2):
            ops.append(W(k, [dep_ent(k, 10 * k + 1, must_link=(k == 1))]))
    if rng.chance(1, 3):
        ops.append(W(0, [main_ent(rng.choice(mains))]))
    wk = rng.choice(list(range(1, ndep + 1)) + [ndep, ndep])
    ment = dep_ent(wk, 10 * wk + rng.choice([1, 2]), must_link=True)
    ops.append(R(fail=rng.choice([-1, -1, -1, 2]), mid=(rng.choice([0, 0, 0, 1, 2]), wk, [ment])))
    ops.append(R(fix=True))
    return mk(nds, 0, deps, ops, batch=rng.choice([1, 2, 3, 4]), latest=False)


def sharedhop_case(rng):
    """dependencies declared through track_queries whose queries share their FIRST hop (seen from the main dataset: the
    same link dataset, predicate and direction) and continue differently: two or three 2-hop paths through link dataset 1
    from dependency datasets 2, 3 (4); sometimes the 1-hop query itself is registered too; changes at the far ends"""
    n = rng.choice([2, 2, 3])
    p, inv = rng.range(1, 3), rng.chance(1, 2)
    deps = [D(1 + k, J(1, 3 + k if k < 3 else 3, rng.chance(1, 2)), J(0, p, inv)) for k in range(1, n + 1)]
    if rng.chance(1, 4):
        deps.insert(rng.below(len(deps) + 1), D(1, J(0, p, inv)))
    nds = n + 2
    rl = roles(deps)
    used = list(range(nds))
    ops = [rand_write(rng, k, rl, nds) for k in used]
    ops.append(R())
    for _ in range(rng.range(2, 5)):
        ops.append(rand_write(rng, rng.choice(used[2:] + used[2:] + [1]), rl, nds))
        if rng.chance(1, 2):
            ops.append(R(fix=True))
    ops.append(R(fix=True))
    return mk(nds, 0, deps, ops, batch=rng.choice([1, 2, 3]), latest=False, track=True)


def both_case(rng):
    """a job that declares join paths in BOTH forms: Dependencies in the source JSON and track_queries in its
    transform (the latter with an intermediate dataset, i.e. an implicit dependency); changes in the datasets that
    are only reachable through the track_queries path; runs to the fixpoint"""
    inv_j = rng.chance(1, 2)
    i1, i2 = rng.chance(1, 2), rng.chance(1, 2)
    deps = [D(1, J(0, 1, inv_j)), D(2, J(3, 2, i1), J(0, 3, i2))]
    if rng.chance(1, 3):
        deps = [D(1, J(0, 1, inv_j)), D(2, J(0, 2, i1))]
    nds = 4
    rl = roles(deps)
    used = [0, 1, 2] + ([3] if len(deps[1]["joins"]) == 2 else [])
    ops = [rand_write(rng, k, rl, nds) for k in used]
    ops.append(R())
    for _ in range(rng.range(2, 5)):
        ops.append(rand_write(rng, rng.choice(used[1:] + used[2:]), rl, nds))
        if rng.chance(1, 2):
            ops.append(R(fix=True))
    ops.append(R(fix=True))
    return mk(nds, 0, deps, ops, batch=rng.choice([1, 2, 3]), latest=False, ntrack=1)


def flipback_case(rng):
    """one write batch holds the same main / link entity twice: a reference flips away and back (or away to a third
    target) inside the batch; then the dependency entities change; inverse hops, so only the graph as it stands
    now can find the entity.  Runs to the fixpoint."""
    two = rng.chance(1, 3)
    if two:     # dep d1 <-p1- link d2 -p2-> / <-p2- main d0
        i2 = rng.chance(1, 2)
        deps = [D(1, J(2, 1, True), J(0, 2, i2))]
        owner, nds = 2, 3
    else:       # dep d1 <-p1- main d0
        deps = [D(1, J(0, 1, True))]
        owner, nds = 0, 2
    rl = roles(deps)
    ids = ids_of(owner)
    tg = ids_of(1)[:2]

    def ent(i, t):
        refs = [(1, t)] if t is not None else []
        if two:
            for (p, tds) in rl.get(owner, []):
                if p == 2 and rng.chance(2, 3):
                    refs.append((2, rng.choice(ids_of(tds))))
        return (i, refs, 0)
    cur = dict((i, rng.choice(tg)) for i in ids)
    ops = []
    if two:
        ops.append(rand_write(rng, 0, rl, nds))
    ops.append(W(owner, [ent(i, cur[i]) for i in ids]))
    ops.append(W(1, [(t, [], 0) for t in tg]))
    ops.append(R())
    for _ in range(rng.range(1, 3)):
        i = rng.choice(ids)
        other = [t for t in tg + [None] if t != cur[i]]
        seq = [rng.choice(other), cur[i]] if rng.chance(2, 3) else [rng.choice(other), rng.choice(other)]
        if rng.chance(1, 4):
            seq = [seq[0], seq[1], rng.choice(tg)]
        es = [ent(i, t) for t in seq]
        if rng.chance(1, 3):
            j = rng.choice([x for x in ids if x != i])
            es.insert(rng.below(len(es) + 1), ent(j, cur[j]))
        cur[i] = seq[-1]
        ops.append(W(owner, es))
        if rng.chance(1, 2):
            ops.append(R())
        ops.append(W(1, [(t, [], 0) for t in tg if rng.chance(2, 3)] or [(tg[0], [], 0)]))
        ops.append(R(fix=True))
    return mk(nds, 0, deps, ops, batch=rng.choice([1, 2, 4]), latest=False)


def gen(rng, tier):
    if tier == "quick":
        return ([rand_case(rng) for _ in range(100)] + [fanout_case(rng) for _ in range(25)]
                + [midfull_case(rng) for _ in range(25)] + [lookback_case(rng) for _ in range(30)]
                + [chain_case(rng) for _ in range(30)] + [midinc_case(rng) for _ in range(30)]
                + [both_case(rng) for _ in range(20)] + [flipback_case(rng) for _ in range(30)]
                + [sharedhop_case(rng) for _ in range(20)])
    if tier == "search":
        return ([rand_case(rng, 14) for _ in range(150)] + [fanout_case(rng) for _ in range(40)]
                + [midfull_case(rng) for _ in range(40)] + [lookback_case(rng) for _ in range(60)]
                + [chain_case(rng) for _ in range(80)] + [midinc_case(rng) for _ in range(80)]
                + [both_case(rng) for _ in range(50)] + [flipback_case(rng) for _ in range(80)]
                + [sharedhop_case(rng) for _ in range(50)])
    return ([rand_case(rng, 16) for _ in range(1900)] + [fanout_case(rng) for _ in range(300)]
            + [midfull_case(rng) for _ in range(300)] + [lookback_case(rng) for _ in range(400)]
            + [chain_case(rng) for _ in range(400)] + [midinc_case(rng) for _ in range(400)]
            + [both_case(rng) for _ in range(200)] + [flipback_case(rng) for _ in range(400)]
            + [sharedhop_case(rng) for _ in range(200)])


def run(binp, cases):
    died = {"runs": [], "lens": [], "core": [], "core0": 0, "feeds": [], "deps": []}
    obs = vlib.run_driver(binp, cases, died_obs=died)
    # A producer goroutine that processDependency leaves behind after a sink error can outlive its case and bring the
    # driver process down while a LATER case runs: a case reported as died is run once more, alone, in a fresh process
    # (a death caused by the case itself repeats there and is reported).
    for i, o in enumerate(obs):
        if o.get("outcome") == "died":
            obs[i] = vlib.run_driver(binp, [cases[i]], died_obs=died)[0]
    return obs


# ------------------------------------------------------------------------------------------- Coq terms
def nlit(n):
    return "%d%%N" % n if n >= 0 else "999999%N"


def natlit(n):
    return "%d%%nat" % n if n >= 0 else "99%nat"


def refs_term(refs):
    return vlib.coq_list(["(%s, %s)" % (nlit(r[0]), nlit(r[1])) for r in refs])


def wver_term(v):
    return "(%s, %s, %s)" % (nlit(v["id"]), refs_term(v.get("refs") or []), vlib.coq_bool(v.get("del")))


def dep_term(d):
    return "mkDep %s %s" % (natlit(d["ds"]), vlib.coq_list(
        ["mkJoin %s %s %s" % (natlit(j["ds"]), nlit(j["pred"]), vlib.coq_bool(j["inv"])) for j in d.get("joins") or []]))


def run_term(op, r, core, midvs=None):
    fail = op.get("fail", -1)
    mid = op.get("mid") if not op.get("fix") else None
    midt = "None"
    if mid is not None:
        vs = midvs if (r.get("middone") and midvs is not None) else mid["es"]
        midt = "(Some (%s, %s, %s))" % (natlit(mid["after"]), natlit(mid["ds"]), vlib.coq_list([wver_term(v) for v in vs]))
    return "TRun (mkTR %s %s %s %s %s %s %s %s %s %s %s %s)" % (
        vlib.coq_bool(op.get("full", False) and not op.get("fix", False)),
        "None" if (fail is None or fail < 0 or op.get("fix")) else "(Some %s)" % natlit(fail),
        vlib.zlit(core), midt,
        vlib.coq_bool(r.get("outcome") == "ok"),
        vlib.coq_list([nlit(x) for x in r.get("emitted") or []]),
        vlib.coq_list([natlit(x) for x in r.get("calls") or []]),
        nlit(r.get("foreign", 0)),
        vlib.zlit(r.get("main", -1)),
        vlib.coq_list(["(%s, %s)" % (natlit(k), vlib.zlit(z)) for (k, z) in r.get("deps") or []]),
        vlib.coq_bool(r.get("middone", False)),
        vlib.coq_list([nlit(x) for x in r.get("late") or []]))


def term(c, o):
    lens = o.get("lens") or []
    cores = o.get("core") or []
    feeds = o.get("feeds") or []
    runs = list(o.get("runs") or [])
    ops = []
    ri = 0
    for i, op in enumerate(c["ops"]):
        if op["op"] == "w":
            k = op["ds"]
            before = lens[i - 1][k] if (i > 0 and i - 1 < len(lens)) else 0
            after = lens[i][k] if i < len(lens) else before
            vs = feeds[k][before:after] if k < len(feeds) else []
            ops.append("TW %s %s" % (natlit(k), vlib.coq_list([wver_term(v) for v in vs])))
        else:
            core = (cores[i - 1] if (i > 0 and i - 1 < len(cores)) else o.get("core0", 0))
            rs = runs[ri] if ri < len(runs) else [{"outcome": "missing"}]
            ri += 1
            midvs = None
            if op.get("mid"):
                k = op["mid"]["ds"]
                before = lens[i - 1][k] if (i > 0 and i - 1 < len(lens)) else 0
                after = lens[i][k] if i < len(lens) else before
                midvs = feeds[k][before:after] if k < len(feeds) else []
            for r in rs:
                ops.append(run_term(op, r, core, midvs))
    return "mkTC %s %s %s %s %s %s %s" % (
        natlit(c["nds"]), natlit(c["main"]), vlib.coq_list([dep_term(d) for d in c["deps"]]),
        vlib.coq_bool(c["latest"]), natlit(c["batch"]),
        vlib.coq_list(["\n   " + x for x in ops]),
        vlib.coq_list([dep_term(d) for d in o.get("deps") or []]))


def predict_text(c, o):
    t = term(c, o)
    ok, out, _ = vlib.coq_eval("C18p", [CHECK_MODULE],
                               "Definition c : tcase := %s.\nEval vm_compute in (predict v_cur c).\n"
                               "Eval vm_compute in (predict v_fixed c).\n" % t)
    return out.strip()


# ------------------------------------------------------------------------------------------- attribution / evidence
def effective(c, o):
    return o.get("deps") or c["deps"]


def _skipped_pending(c, o, deps):
    lens = o.get("lens") or []
    feeds = o.get("feeds") or []
    runs = o.get("runs") or []
    out_first = set(d["ds"] for d in deps if d["joins"] and not d["joins"][0]["inv"])
    tok = {}          # dependency tokens persisted before the next run (absent = 0 / full sync first)
    have_token = False
    ri = 0
    for i, op in enumerate(c["ops"]):
        if op["op"] != "run":
            continue
        rs = runs[ri] if ri < len(runs) else []
        ri += 1
        before = lens[i - 1] if (i > 0 and i - 1 < len(lens)) else [0] * c["nds"]
        for r in rs:
            if have_token and not (op.get("full") and not op.get("fix")):
                for k in out_first:
                    if k >= len(feeds) or k >= len(before):
                        continue
                    f = feeds[k][:before[k]]
                    t = tok.get(k, 0)
                    for p in range(max(t, 0), len(f)):
                        if any(w["id"] == f[p]["id"] for w in f[p + 1:]):
                            return True
            if r.get("main", -1) >= 0:
                have_token = True
                tok = dict((k, z) for (k, z) in (r.get("deps") or []))
    return False


def attribute(c, o):
    """signature of the recorded findings (which deviation can explain a spec failure of this case)"""
    deps = effective(c, o)
    lens = o.get("lens") or []
    runs = o.get("runs") or []
    # F18c: some persisted dependency token lies beyond the dataset's feed
    ri = 0
    for i, op in enumerate(c["ops"]):
        if op["op"] != "run":
            continue
        rs = runs[ri] if ri < len(runs) else []
        ri += 1
        cur = lens[i] if i < len(lens) else None
        for r in rs:
            for (k, z) in r.get("deps") or []:
                if cur is not None and 0 <= k < len(cur) and z > cur[k]:
                    return "F18c"
    # F18a: two dependencies on one dataset, the later one with an outgoing first hop, or a failed run
    seen = set()
    shared_out = False
    for d in deps:
        if d["ds"] in seen and d["joins"] and not d["joins"][0]["inv"]:
            shared_out = True
        seen.add(d["ds"])
    dss = [d["ds"] for d in deps]
    failed = any(r.get("outcome") == "failed" for rs in runs for r in rs)
    if len(set(dss)) < len(dss) and (shared_out or failed):
        return "F18a"
    # F18d: LatestOnly, and some run started with a superseded change of a dependency entity (first hop outgoing)
    # at or after its token, i.e. a change that LatestOnly skips
    if c.get("latest") and _skipped_pending(c, o, deps):
        return "F18d"
    # F18b: a write batch with several entities to a dependency dataset whose first hop is outgoing
    out_first = set(d["ds"] for d in deps if d["joins"] and not d["joins"][0]["inv"])
    if any(op["op"] == "w" and op["ds"] in out_first and len(op.get("es") or []) >= 2 for op in c["ops"]):
        return "F18b"
    return None


def size(c):
    return len(c["ops"]) * 10 + sum(len(op.get("es") or []) for op in c["ops"]) + 5 * sum(len(d["joins"]) for d in c["deps"])


def classify(c, o):
    for rs, in [(x,) for x in (o.get("runs") or [])]:
        for r in rs:
            if r.get("outcome") == "failed":
                return "sink-failure"
    # an incremental run that delivered something although the main token did not move: found through a dependency
    prev_main = None
    for rs in o.get("runs") or []:
        for r in rs:
            if prev_main is not None and r.get("main") == prev_main and r.get("emitted"):
                return "dependency-emission"
            prev_main = r.get("main")
    return None


def tags(c, o):
    deps = effective(c, o)
    dss = [d["ds"] for d in deps]
    t = ["hops=%d" % max([len(d["joins"]) for d in c["deps"]] + [0]),
         "deps=%d" % len(deps),
         "shared-dataset=%s" % (len(set(dss)) < len(dss)),
         "latestOnly=%s" % c["latest"], "batch=%d" % c["batch"], "declared=%s" % ("track_queries" if c["track"] else ("json+track_queries" if c.get("ntrack") else "json"))]
    for d in c["deps"]:
        t.append("shape=" + "".join("i" if j["inv"] else "o" for j in d["joins"]))
    for op, rs in zip([op for op in c["ops"] if op["op"] == "run"], o.get("runs") or []):
        kind = "fix" if op.get("fix") else (("full+write" if op.get("mid") else "full") if op.get("full")
                                            else ("incr+write" if op.get("mid") else "incr"))
        t.append("run=%s/%s" % (kind, "fail" if any(r.get("outcome") != "ok" for r in rs) else "ok"))
    return sorted(set(t))
